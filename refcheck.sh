#!/bin/bash
# usage: refcheck.sh <dir containing rN/patch.diff ...> : behaviour-preserving refactorings must leave every check silent
export GOFLAGS=-mod=mod GOPROXY=off GOSUMDB=off GOTOOLCHAIN=local GOWORK=off
root=$1
props=$(${DHTLINT:-/verif/bin/dhtlint} -gen-manifest | python3 -c "import json,sys; print(' '.join(c['property_id'] for c in json.load(sys.stdin)['checks']))")
for d in $root/r*; do
  [ -f $d/patch.diff ] || continue
  wt=/tmp/rc_$$_$(basename $d); git -C /repo worktree add -q --detach $wt HEAD || continue
  if ! ( cd $wt && git apply $d/patch.diff ); then echo "## $d PATCH FAILS"; git -C /repo worktree remove --force $wt; continue; fi
  if ! ( cd $wt && go build ./... ); then echo "## $d BUILD FAILS"; git -C /repo worktree remove --force $wt; continue; fi
  echo "## $d"
  echo $props | tr ' ' '\n' | xargs -P 5 -I{} bash -c "${DHTLINT:-/verif/bin/dhtlint} -repo $wt -property {} -no-evidence 2>&1 | grep -E '^(VIOLATION|BROKEN)' | sed -e 's#replay=[^ ]* ##' | cut -c1-300"
  git -C /repo worktree remove --force $wt
done
echo "== refcheck done"
