#!/bin/bash
# builds the checker and runs the given properties (default: all registered) in parallel; prints verdict lines
export GOFLAGS=-mod=mod GOPROXY=off GOSUMDB=off GOTOOLCHAIN=local GOWORK=off
cd /verif/checker && go build -o /verif/bin/dhtlint . || exit 3
cd /verif
props="$@"
if [ -z "$props" ]; then props=$(./bin/dhtlint -gen-manifest | python3 -c "import json,sys; print(' '.join(c['property_id'] for c in json.load(sys.stdin)['checks']))"); fi
tier=${TIER:-quick}
mkdir -p /tmp/runall
for p in $props; do ( ./bin/dhtlint -property $p -tier $tier ${EXTRA} > /tmp/runall/$p.txt 2>&1; echo "$p exit=$?" >> /tmp/runall/$p.txt ) & done; wait
for p in $props; do grep -E "^(VIOLATION|BROKEN|KNOWN-FINDING|C[0-9][0-9] (PASS|VIOLATED|BROKEN))|exit=" /tmp/runall/$p.txt | cut -c1-400; done
