#!/bin/bash
# usage: reftest.sh <refactor id under /verif/refactors> <props...>
export GOFLAGS=-mod=mod GOPROXY=off GOSUMDB=off GOTOOLCHAIN=local GOWORK=off
id=$1; shift
wt=/tmp/rt_$$; git -C /repo worktree add -q --detach $wt HEAD || exit 3
trap 'git -C /repo worktree remove --force $wt >/dev/null 2>&1' EXIT
( cd $wt && git apply /verif/refactors/$id/patch.diff && go build ./... ) || { echo "PATCH/BUILD FAILS"; exit 3; }
for p in "$@"; do ( ${DHTLINT:-/verif/bin/dhtlint} -repo $wt -property $p -no-evidence 2>&1 | grep -E "^(VIOLATION|BROKEN)|^C[0-9][0-9] " | sed -e "s#replay=[^ ]* ##" | cut -c1-${W:-300} ) & done; wait
