#!/bin/bash
# usage: seedbatch.sh <root of seed dirs, e.g. /tmp/seed_out> Cxx [Cyy...]  — confirms every mN and runs all claimed checks on it
root=$1; shift
pkgdir(){ [ -f $1/verif_demo_test.go ] || { echo .; return; };  case "$(grep -m1 ^package $1/verif_demo_test.go | awk '{print $2}' | sed s/_test$//)" in dht) echo .;; bep44) echo bep44;; getput) echo exts/getput;; traversal) echo traversal;; krpc) echo krpc;; peer_store) echo peer-store;; k_nearest_nodes) echo k-nearest-nodes;; containers) echo containers;; types) echo types;; int160) echo int160;; transactions) echo transactions;; *) echo UNKNOWN;; esac; }
for p in "$@"; do for d in $root/$p/m*; do [ -f $d/patch.diff ] || continue; echo "######## $d"; /verif/seedconfirm.sh $d $(pkgdir $d) > $d/confirm.txt 2>&1; grep -E "CONFIRM|VIOLATION|BROKEN|VIOLATED|PATCH" $d/confirm.txt | cut -c1-330; done; done
