package main

import (
	"encoding/json"
	"fmt"
	"os"
)

var allIDs = []string{"C01", "C02", "C03", "C04", "C05", "C06", "C07", "C08", "C09", "C10", "C11", "C12", "C13", "C14", "C15", "C16", "C17", "C18", "C19", "C20"}

// notApplicableReason: properties (or whole properties' worth of clauses) for which no sound static
// rule is registered. Filled as the build proceeds; a property with registered rules is claimed.
var notApplicableReason = map[string]string{}

func genManifest() {
	type check map[string]interface{}
	var checks []check
	na := []map[string]string{}
	var served []string
	for _, id := range allIDs {
		p := findProperty(id)
		if p == nil || len(p.Rules) == 0 {
			r := notApplicableReason[id]
			if r == "" {
				r = "no static rule registered for this property yet (rules under construction); nothing is claimed"
			}
			na = append(na, map[string]string{"property_id": id, "reason": r})
			continue
		}
		served = append(served, id)
		var ruleIDs []string
		for _, r := range p.Rules {
			ruleIDs = append(ruleIDs, r.ID)
		}
		checks = append(checks, check{
			"property_id":         id,
			"quick_cmd":           fmt.Sprintf("/verif/bin/dhtlint -property %s -tier quick", id),
			"thorough_cmd":        fmt.Sprintf("/verif/bin/dhtlint -property %s -tier thorough", id),
			"evidence_file":       fmt.Sprintf("/verif/evidence/%s.json", id),
			"replay_cmd_template": fmt.Sprintf("/verif/bin/dhtlint -property %s -explain -no-evidence  # details of the reported construct are in {path}", id),
			"engine":              "dhtlint",
			"level_claimed": map[string]string{
				"category":   "other",
				"text":       "Static analysis decides structural clauses of the property on ALL paths / call sites / lock contexts of /repo's current source, not the behavioural statement as a whole. Decided: " + p.Decided + " Not decided: " + p.NotDecided,
				"design_ref": "DESIGN.md §4 " + id,
			},
			"level_note": "Trusted base: go/types + go/ssa (x/tools v0.29.0), the checker's own call-graph / guard-fact / lock-state engines, the external API table, field-based aliasing; user hooks are opaque (assumed not to re-enter the Server under its lock). Rules run: " + fmt.Sprint(ruleIDs),
			"technique":  "static analysis: custom SSA/CFG dataflow rules (dominating guard facts, lock-state, who-may-call/write, value origins) specific to this repository",
		})
	}
	m := map[string]interface{}{
		"version":   1,
		"setup_cmd": "cd /verif/checker && GOFLAGS=-mod=mod GOPROXY=off GOSUMDB=off GOTOOLCHAIN=local GOWORK=off go build -o /verif/bin/dhtlint . && /verif/bin/dhtlint -warm",
		"hooks": map[string]interface{}{
			"guard":            "verif",
			"enable":           "no hooks are needed: the checks read /repo's source (default build configuration; thorough adds GOOS=windows and GOARCH=386) and never execute it",
			"baseline_off_cmd": "cd /repo && GOFLAGS=-mod=mod GOPROXY=off GOSUMDB=off go test -vet=off -count=1 ./...",
			"source_commits":   sourceCommits,
			"add_only":         true,
		},
		"engines": []map[string]interface{}{{
			"name": "dhtlint", "path": "/verif/checker", "serves_properties": served,
			"kind_free_text": "repository-specific static analyser over go/packages + go/ssa: module-local call graph with function-value flow, path-sensitive guard facts with return-class summaries, lock-state dataflow, who-may-call/write enumeration, value origins, comparator shapes, wire-byte bounds",
		}},
		"checks":         checks,
		"not_applicable": na,
		"notes":          "Exit codes: 0 all obligations discharged (known findings printed as KNOWN-FINDING lines); 1 VIOLATION (a construct breaks a rule); 2 BROKEN (checker cannot decide: anchor missing, type error, floor undercut). See DESIGN.md.",
	}
	b, _ := json.MarshalIndent(m, "", " ")
	os.Stdout.Write(append(b, '\n'))
}

// fix: commits in /repo (none are hooks)
var sourceCommits = []string{}
