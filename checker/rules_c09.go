package main

import (
	"fmt"
	"go/token"
	"go/types"
	"sort"
	"strings"

	"golang.org/x/tools/go/ssa"
)

func init() {
	register(&Property{
		ID:    "C09",
		Title: "Replies propagate only good contacts, nearest buckets first, right family",
		Decided: "C09.1 the target handed to the table walk is args.target for find_node and get, args.info_hash for get_peers (traced through the helper chain per method); " +
			"C09.2 nodes/nodes6 are assigned only from the good-node selection whose filter implies IsGood, IsGood implies not-bad ∧ has-responded, not-bad implies ≠ own ID, and lastGotResponse is set only on a matched response; " +
			"C09.3 at most K=8 entries (constant at the call, truncation in the table walk); C09.4 nodes only under wants-IPv4 and only IPv4 contacts, nodes6 only under wants-IPv6 and only non-IPv4 contacts; C09.6 the family wanted is the explicit want list, else the requester's family by To4; " +
			"C09.7 the bucket walk starts at bucketIndex(target) (the last bucket for the root ID itself), steps to index-1, and leaves the loop only under index < 0 or ¬(len < k), ranging over the whole bucket each round; C09.8 the slices stored in Return.Nodes / Nodes6 are freshly built (no field or parameter among their origins).",
		NotDecided: "that walking towards bucket 0 visits contacts in non-increasing closeness (a metric fact, C18), ordering inside one bucket, goodness over time.",
		Rules: []*Rule{
			{ID: "C09.1", Doc: "target field per method", Floor: 3, Run: c09r1},
			{ID: "C09.2", Doc: "only good contacts", Floor: 6, Run: c09r2},
			{ID: "C09.3", Doc: "at most K", Floor: 2, Run: c09r3},
			{ID: "C09.4", Doc: "family gating", Floor: 4, Run: c09r4},
			{ID: "C09.5", Doc: "'has answered us' is recorded only for matched responses", Floor: 5, Run: c06r1},
			{ID: "C09.7", Doc: "the table walk starts at the target's bucket, moves one bucket nearer the root each round, and stops only when K are collected or the buckets are exhausted", Floor: 4, Run: c09r7},
			{ID: "C09.8", Doc: "the node lists of a reply are built fresh for it (they are encoded after the handler has returned and released the lock)", Floor: 2, Run: c09r8},
			{ID: "C09.9", Doc: "a contact that failed its liveness ping stays out of replies until it answers again (shared with C06.10)", Floor: 2, Run: c06r10},
			{ID: "C09.6", Doc: "family selection: want list, else the requester's own family by To4", Floor: 4, Run: c09r6},
		},
	})
}

// traceUp follows a parameter of fn upwards through callers that pass their own parameter along,
// and returns the call sites where the argument is something else.
type argSite struct {
	site ssa.Instruction
	arg  ssa.Value
}

func (w *World) traceParamUp(fn *ssa.Function, idx int, depth int) []argSite {
	var out []argSite
	if depth > 6 {
		return out
	}
	for _, e := range w.CG.CallersOf(fn) {
		if e.Callback || !w.P.IsLib(e.Caller) {
			continue
		}
		c := callInstrCommon(e.Site)
		ai := idx
		if c.IsInvoke() {
			ai = idx - 1
		}
		if ai < 0 || ai >= len(c.Args) {
			continue
		}
		a := c.Args[ai]
		if p, ok := a.(*ssa.Parameter); ok {
			for pi, pp := range e.Caller.Params {
				if pp == p {
					out = append(out, w.traceParamUp(e.Caller, pi, depth+1)...)
				}
			}
			continue
		}
		// captured parameter of the enclosing function (closure)
		out = append(out, argSite{e.Site, a})
	}
	return out
}

func c09r1(w *World, rr *RuleRun) {
	h := w.handler()
	tcn := w.P.Func("(*table).closestNodes")
	argsTarget := w.P.Field("krpc", "MsgArgs", "Target")
	argsInfoHash := w.P.Field("krpc", "MsgArgs", "InfoHash")
	want := map[string]*types.Var{"find_node": argsTarget, "get": argsTarget, "get_peers": argsInfoHash}
	// index of the target parameter of table.closestNodes
	ti := -1
	for i, p := range tcn.Params {
		if p.Name() == "target" {
			ti = i
		}
	}
	if ti < 0 {
		rr.Broken("table.closestNodes has no target parameter")
		return
	}
	sites := w.traceParamUp(tcn, ti, 0)
	decided := map[string]bool{}
	for _, as := range sites {
		fn := as.site.Parent()
		// which message is this function working on? a krpc.Msg parameter, or the handler itself
		var msg *Term
		var msgQ *Term
		if within(fn, h.fn) {
			msg = h.m
		} else {
			for _, p := range enclosingNamed(fn).Params {
				if relTypeString(p.Type()) == "krpc.Msg" {
					msg = w.TS.Of(p)
				}
			}
		}
		if msg == nil {
			// not on the reply path (e.g. refreshBucket's own lookups use other entry points)
			continue
		}
		msgQ = FieldTerm(msg, h.msgQ)
		// which handler cases reach this function?
		methods := []string{}
		if within(fn, h.fn) {
			methods = h.casesAt(w, as.site)
		} else {
			for _, e := range w.CG.CallersOf(enclosingNamed(fn)) {
				if within(e.Caller, h.fn) {
					methods = append(methods, h.casesAt(w, e.Site)...)
				}
			}
		}
		sort.Strings(methods)
		st := w.FE.StateBefore(as.site)
		for _, method := range uniq(methods) {
			wantField, ok := want[method]
			if !ok {
				continue
			}
			okAll := true
			seenAlt := false
			det := ""
			for _, alt := range st {
				// feasibility of this alternative for the method (call-edge context facts)
				feasible := true
				for k, t := range alt.terms {
					if k[0] != 'b' || t.Op != OpBin || t.Name != "==" {
						continue
					}
					var c *Term
					if termEq(t.Args[0], msgQ) {
						c = t.Args[1]
					} else if termEq(t.Args[1], msgQ) {
						c = t.Args[0]
					}
					if c == nil || c.Op != OpConst {
						continue
					}
					isM := c.Name == `"`+method+`"`
					if alt.facts[k] && !isM {
						feasible = false
					}
					if !alt.facts[k] && isM {
						feasible = false
					}
				}
				if !feasible {
					continue
				}
				seenAlt = true
				t := w.FE.Resolve(alt, as.arg)
				// FromByteArray(<msg>.A.<field>)
				x := t
				if x.Op == OpCall && strings.HasSuffix(x.Name, "FromByteArray") && len(x.Args) == 1 {
					x = x.Args[0]
				}
				if x.Op == OpCall && strings.HasSuffix(x.Name, ".Int160") && len(x.Args) == 1 {
					x = x.Args[0]
				}
				base, okc := fieldChain(x, h.msgA, wantField)
				if !(okc && termEq(base, msg)) {
					okAll = false
					det = "target is " + t.String()
				}
			}
			if !seenAlt {
				continue
			}
			decided[method] = true
			if okAll {
				det = "target is " + msg.String() + ".A." + wantField.Name()
			}
			rr.At(w, as.site, "closest-nodes target for "+method+" is args."+strings.ToLower(wantField.Name()), okAll, det)
		}
	}
	for _, m := range []string{"find_node", "get", "get_peers"} {
		if !decided[m] {
			rr.Oblige(shortFuncName(h.fn), "closest-nodes target for "+m+" decided", w.P.Pos(h.fn.Pos()), false, "no call chain from the "+m+" case to table.closestNodes found")
		}
	}
}

func c09r2(w *World, rr *RuleRun) {
	nodes := w.P.Field("krpc", "Return", "Nodes")
	nodes6 := w.P.Field("krpc", "Return", "Nodes6")
	mrn := w.P.Func("(*Server).makeReturnNodes")
	cgni := w.P.Func("(*Server).closestGoodNodeInfos")
	isGood := w.P.Func("(*Server).IsGood")
	nodeIsBad := w.P.Func("(*Server).nodeIsBad")
	lastResp := w.P.Field("", "node", "lastGotResponse")
	serverID := w.P.Field("", "Server", "id")
	for _, fv := range []*types.Var{nodes, nodes6} {
		for _, st := range w.FieldWrites(w.P.LibFuncs, fv) {
			s, ok := st.(*ssa.Store)
			if !ok {
				rr.At(w, st, "Return."+fv.Name()+" assigned only from the good-node selection", false, "non-store write")
				continue
			}
			v := w.TS.Of(s.Val)
			rr.At(w, st, "Return."+fv.Name()+" assigned only from the good-node selection", isCall(v, mrn) || isCall(v, cgni), "value: "+v.String())
		}
	}
	// makeReturnNodes returns closestGoodNodeInfos
	for _, b := range mrn.Blocks {
		for _, ins := range b.Instrs {
			if r, ok := ins.(*ssa.Return); ok {
				v := w.TS.Of(r.Results[0])
				rr.At(w, r, "makeReturnNodes returns the good-node selection", isCall(v, cgni), "returns "+v.String())
			}
		}
	}
	// the filter handed to the table walk implies IsGood
	tcnS := w.P.Func("(*Server).closestNodes")
	for _, c := range w.CallsIn(cgni, tcnS, true) {
		args := callInstrCommon(c).Args
		fv := args[len(args)-1]
		fs := w.CG.FuncsOf(fv)
		ok := len(fs) > 0
		det := ""
		for _, f := range fs {
			sum := w.FE.Summary(f, 0, "true", 0)
			if len(sum) == 0 {
				ok = false
			}
			for _, alt := range sum {
				if !alt.Has("b", true, func(t *Term) bool { return isCall(t, isGood) && len(t.Args) == 2 && t.Args[1].Op == OpParam }) {
					ok = false
					det = "true-class of " + shortFuncName(f) + ": " + sum.String()
				}
			}
		}
		rr.At(w, c, "selection filter=true ⇒ IsGood(n)", ok, det)
	}
	// IsGood=true ⇒ ¬nodeIsBad ∧ responded
	sum := w.FE.Summary(isGood, 0, "true", 0)
	ok := len(sum) > 0
	for _, alt := range sum {
		nb := alt.Has("b", false, func(t *Term) bool { return isCall(t, nodeIsBad) })
		resp := false
		for k, t := range alt.terms {
			_ = k
			t.Walk(func(x *Term) bool {
				if x.Op == OpField && x.Obj == lastResp {
					resp = true
				}
				return true
			})
		}
		if !nb || !resp {
			ok = false
		}
	}
	rr.Oblige(shortFuncName(isGood), "IsGood=true ⇒ nodeIsBad=false ∧ a fact on lastGotResponse (has answered)", w.P.Pos(isGood.Pos()), ok, "true-class: "+trunc(sum.String(), 600))
	// nodeIsBad=false ⇒ id ≠ own id
	sumB := w.FE.Summary(nodeIsBad, 0, "false", 0)
	okB := len(sumB) > 0
	for _, alt := range sumB {
		if !alt.Has("b", false, func(t *Term) bool {
			return t.Op == OpBin && t.Name == "==" && (hasField(t.Args[0], serverID) || hasField(t.Args[1], serverID))
		}) {
			okB = false
		}
	}
	rr.Oblige(shortFuncName(nodeIsBad), "nodeIsBad=false ⇒ n.Id ≠ s.id (never itself)", w.P.Pos(nodeIsBad.Pos()), okB, "false-class: "+trunc(sumB.String(), 600))
	// lastGotResponse is set only on the matched-response path of processPacket
	pp := w.P.Func("(*Server).processPacket")
	for _, st := range w.FieldWrites(w.P.LibFuncs, lastResp) {
		rr.At(w, st, "lastGotResponse set only in processPacket's matched-response update", w.withinUp(st.Parent(), pp), "in "+shortFuncName(st.Parent()))
	}
}

func hasField(t *Term, fv *types.Var) bool {
	found := false
	t.Walk(func(x *Term) bool {
		if x.Op == OpField && x.Obj == fv {
			found = true
		}
		return !found
	})
	return found
}

func trunc(s string, n int) string {
	if len(s) > n {
		return s[:n] + "…"
	}
	return s
}

func c09r3(w *World, rr *RuleRun) {
	mrn := w.P.Func("(*Server).makeReturnNodes")
	cgni := w.P.Func("(*Server).closestGoodNodeInfos")
	tcn := w.P.Func("(*table).closestNodes")
	for _, c := range w.CallsIn(mrn, cgni, true) {
		k, ok := ConstInt(callInstrCommon(c).Args[1])
		rr.At(w, c, "reply node lists are built with K = 8", ok && k == 8, fmt.Sprintf("k=%d const=%v", k, ok))
	}
	// k is passed unchanged down to the table walk
	ki := -1
	for i, p := range tcn.Params {
		if p.Name() == "k" {
			ki = i
		}
	}
	for _, as := range w.traceParamUp(tcn, ki, 0) {
		if !within(as.site.Parent(), mrn) && !within(as.site.Parent(), cgni) {
			continue
		}
		k, ok := ConstInt(as.arg)
		rr.At(w, as.site, "k reaching the table walk is the constant 8", ok && k == 8, w.TS.Of(as.arg).String())
	}
	// nothing reorders the collected contacts between the walk and the truncation: they were
	// appended nearest bucket first, and cutting to k must drop the farthest ones
	eachInstr([]*ssa.Function{tcn}, func(_ *ssa.Function, ins ssa.Instruction) {
		c := callInstrCommon(ins)
		if c == nil {
			return
		}
		if b, ok := c.Value.(*ssa.Builtin); ok && (b.Name() == "append" || b.Name() == "len" || b.Name() == "cap") {
			return
		}
		for _, a := range c.Args {
			if st, ok := a.Type().Underlying().(*types.Slice); ok {
				if _, isNodePtr := st.Elem().Underlying().(*types.Pointer); isNodePtr && strings.HasSuffix(st.Elem().String(), ".node") {
					o := calleeObj(c)
					name := "a call"
					if o != nil {
						name = o.Name()
					}
					rr.At(w, ins, "the collected contacts keep their bucket order until they are cut to k", false, name+" receives the collected slice and may reorder it")
				}
			}
		}
	})
	// truncation
	kT := w.ParamTerm(tcn, "k")
	for _, b := range tcn.Blocks {
		for _, ins := range b.Instrs {
			r, ok := ins.(*ssa.Return)
			if !ok {
				continue
			}
			rv := r.Results[0]
			w.Require(rr, r, "table walk returns at most k nodes", func(alt *Alt) (bool, string) {
				t := w.FE.Resolve(alt, rv)
				if t.Op == OpSlice && termEq(t.Args[2], kT) && (t.Args[1].IsConst("-") || t.Args[1].IsConst("0")) {
					return true, "resliced to [:k]"
				}
				lt := &Term{Op: OpLen, Args: []*Term{t}}
				if s, ok := alt.facts["b:"+cmpKey("<", kT, lt).String()]; ok && !s {
					return true, "¬(len(ret) > k)"
				}
				// ret may be an unbound loop phi: look for any ¬(k < len(X)) with X the returned term
				return false, "returned " + t.String() + " without len ≤ k"
			})
		}
	}
}

func c09r4(w *World, rr *RuleRun) {
	nodes := w.P.Field("krpc", "Return", "Nodes")
	nodes6 := w.P.Field("krpc", "Return", "Nodes6")
	srn := w.P.Func("shouldReturnNodes")
	srn6 := w.P.Func("shouldReturnNodes6")
	argsWant := w.P.Field("krpc", "MsgArgs", "Want")
	to4 := w.P.ExtMethod("net", "IP", "To4")
	for _, cfg := range []struct {
		fv    *types.Var
		gate  *ssa.Function
		want4 bool
	}{{nodes, srn, true}, {nodes6, srn6, false}} {
		for _, st := range w.FieldWrites(w.P.LibFuncs, cfg.fv) {
			s, ok := st.(*ssa.Store)
			if !ok {
				continue
			}
			w.Require(rr, st, "Return."+cfg.fv.Name()+" assigned only under "+shortFuncName(cfg.gate)+"(args.want, source.IP())", func(alt *Alt) (bool, string) {
				if alt.Has("b", true, func(t *Term) bool {
					if !isCall(t, cfg.gate) || len(t.Args) != 2 {
						return false
					}
					a0 := t.Args[0]
					okWant := a0.Op == OpField && a0.Obj == argsWant
					a1 := t.Args[1]
					okIP := a1.Op == OpCall && strings.HasSuffix(a1.Name, ".IP")
					return okWant && okIP
				}) {
					return true, shortFuncName(cfg.gate) + "(A.Want, source.IP())=true"
				}
				return false, "family gate missing"
			})
			// the address filter of the selection
			v := w.TS.Of(s.Val)
			if v.Op != OpCall || len(v.Args) < 3 {
				continue
			}
			ft := v.Args[len(v.Args)-1]
			var f *ssa.Function
			if ft.Op == OpFunc || ft.Op == OpClosure {
				f, _ = ft.Obj.(*ssa.Function)
			}
			if f == nil {
				rr.At(w, st, cfg.fv.Name()+" address filter resolvable", false, "filter argument "+ft.String())
				continue
			}
			sum := w.FE.Summary(f, 0, "true", 0)
			ok2 := len(sum) > 0
			for _, alt := range sum {
				if !alt.Has("n", cfg.want4, func(t *Term) bool {
					return isCall(t, to4) && len(t.Args) == 1 && strings.HasSuffix(t.Args[0].String(), ".IP") && t.Args[0].Args[0].Op == OpParam
				}) {
					ok2 = false
				}
			}
			fam := "IPv4 (To4 ≠ nil)"
			if !cfg.want4 {
				fam = "non-IPv4 (To4 = nil)"
			}
			rr.At(w, st, cfg.fv.Name()+" holds only "+fam+" contacts", ok2, "filter "+shortFuncName(f)+" true-class: "+sum.String())
		}
	}
}

// c09r6: shouldReturnNodes / shouldReturnNodes6 true-classes: with a want list, membership of n4 / n6;
// without one, the requester's own family decided by To4() (so v4-mapped sources count as IPv4).
func c09r6(w *World, rr *RuleRun) {
	wc := w.P.FuncOpt("wantsContain")
	for _, spec := range []struct {
		fn     string
		want   string
		to4Nil bool
	}{{"shouldReturnNodes", "WantNodes", false}, {"shouldReturnNodes6", "WantNodes6", true}} {
		f := w.P.Func(spec.fn)
		wants := w.ParamTerm(f, "queryWants")
		src := w.ParamTerm(f, "querySource")
		wantConst := w.P.Pkg("krpc").Types.Scope().Lookup(spec.want)
		sum := w.ExpandCalls(w.FE.Summary(f, 0, "true", 0), 2, func(t *Term) bool {
			return (wc != nil && isCall(t, wc)) || strings.HasPrefix(t.Name, "slices.Contains")
		})
		if len(sum) == 0 {
			rr.Oblige(spec.fn, "family selector can be true", w.P.Pos(f.Pos()), false, "empty true-class")
		}
		for i, alt := range sum {
			noWant := alt.Has("b", true, func(x *Term) bool {
				return x.Op == OpBin && x.Name == "==" && ((x.Args[0].IsConst("0") && x.Args[1].Op == OpLen && termEq(x.Args[1].Args[0], wants)) || (x.Args[1].IsConst("0") && x.Args[0].Op == OpLen && termEq(x.Args[0].Args[0], wants)))
			})
			if noWant {
				ok := alt.Has("n", !spec.to4Nil, func(x *Term) bool {
					return x.Op == OpCall && strings.HasSuffix(x.Name, ".To4") && len(x.Args) == 1 && termEq(x.Args[0], src)
				})
				what := "is IPv4 (To4() ≠ nil)"
				if spec.to4Nil {
					what = "is not IPv4 (To4() = nil, so v4-mapped sources are IPv4)"
				}
				rr.Oblige(spec.fn, fmt.Sprintf("case %d: without a want list the list is sent only when the requester %s", i+1, what), w.P.Pos(f.Pos()), ok, "{"+trunc(strings.Join(alt.Facts(), " ∧ "), 240)+"}")
				continue
			}
			ok := alt.Has("b", true, func(x *Term) bool {
				isContains := (wc != nil && isCall(x, wc)) || (x.Op == OpCall && strings.HasPrefix(x.Name, "slices.Contains"))
				if !isContains || len(x.Args) != 2 || !termEq(x.Args[0], wants) {
					return false
				}
				if wantConst == nil {
					return false
				}
				k, isK := wantConst.(*types.Const)
				return isK && x.Args[1].Op == OpConst && x.Args[1].Name == k.Val().ExactString()
			})
			rr.Oblige(spec.fn, fmt.Sprintf("case %d: with a want list the list is sent only when it names %s", i+1, spec.want), w.P.Pos(f.Pos()), ok, "{"+trunc(strings.Join(alt.Facts(), " ∧ "), 240)+"}")
		}
	}
	// wantsContain is membership (when the helper exists; slices.Contains needs no check)
	if wc == nil {
		return
	}
	wP := w.ParamTerm(wc, "w")
	ffW := w.FE.analysisFor(wc)
	nT := 0
	for _, ex := range ffW.exits {
		for _, alt := range ex.st {
			res := w.FE.Resolve(alt, ex.ret.Results[0])
			if res.Op == OpCall && strings.HasPrefix(res.Name, "slices.Contains") && len(res.Args) == 2 {
				// the helper forwards to the library's membership test on its own two parameters (DD-r2)
				nT++
				ok := termEq(res.Args[0], w.ParamTerm(wc, "ws")) && termEq(res.Args[1], wP)
				rr.At(w, ex.ret, "wantsContain is true only when an element equals the wanted family", ok, "returns "+res.String())
				continue
			}
			if !res.IsConst("true") {
				continue
			}
			nT++
			ok := alt.Has("b", true, func(x *Term) bool {
				return x.Op == OpBin && x.Name == "==" && (termEq(x.Args[0], wP) || termEq(x.Args[1], wP))
			})
			rr.At(w, ex.ret, "wantsContain is true only when an element equals the wanted family", ok, "{"+trunc(strings.Join(alt.Facts(), " ∧ "), 200)+"}")
		}
	}
	if nT == 0 {
		rr.Oblige(shortFuncName(wc), "wantsContain can be true", w.P.Pos(wc.Pos()), false, "")
	}
}

// c09r7: "nearest buckets first" and "fewer than K only when the table is exhausted" as the shape
// of the bucket walk in table.closestNodes.
func c09r7(w *World, rr *RuleRun) {
	a := w.tableAnchors()
	tcn := w.P.Func("(*table).closestNodes")
	kT := w.ParamTerm(tcn, "k")
	targetT := w.ParamTerm(tcn, "target")
	var idx *ssa.Phi
	var idxSite ssa.Instruction
	eachInstr([]*ssa.Function{tcn}, func(_ *ssa.Function, ins ssa.Instruction) {
		ia, ok := ins.(*ssa.IndexAddr)
		if !ok || fieldOfAddr(ia.X) != a.buckets {
			return
		}
		if ph, ok := ia.Index.(*ssa.Phi); ok && idx == nil {
			idx, idxSite = ph, ins
		}
	})
	if idx == nil {
		rr.Broken("table.closestNodes does not index buckets with a loop variable")
		return
	}
	header := idx.Block()
	// loop body: blocks dominated by the header that can reach it
	inLoop := map[*ssa.BasicBlock]bool{}
	for _, b := range tcn.Blocks {
		if header.Dominates(b) && blockReaches(b, header) {
			inLoop[b] = true
		}
	}
	inLoop[header] = true
	var initV, stepV ssa.Value
	for i, e := range idx.Edges {
		if inLoop[header.Preds[i]] {
			stepV = e
		} else {
			initV = e
		}
	}
	// step: index - 1
	okStep := false
	if bo, ok := stepV.(*ssa.BinOp); ok && bo.Op == token.SUB && bo.X == idx {
		if c, ok := ConstInt(bo.Y); ok && c == 1 {
			okStep = true
		}
	}
	stepS := "-"
	if stepV != nil {
		stepS = w.TS.Of(stepV).String()
	}
	rr.At(w, idxSite, "each round moves to the next bucket nearer the root (index − 1)", okStep, "next index "+stepS)
	// start: bucketIndex(target), or the last bucket when the target is the root itself
	al, _ := arrayLen(a.buckets.Type())
	isBI := func(x *Term) bool {
		return isCall(x, a.bucketIndex) && len(x.Args) == 2 && termEq(x.Args[1], targetT)
	}
	eqRoot := func(x *Term) bool {
		return x.Op == OpBin && x.Name == "==" && (isFieldTerm(x.Args[0], a.rootID) || isFieldTerm(x.Args[1], a.rootID))
	}
	initS := "-"
	// edgeUnderRoot: the CFG edge pred→succ is taken only when target == rootID
	edgeUnderRoot := func(pred, succ *ssa.BasicBlock) bool {
		if len(pred.Instrs) == 0 {
			return false
		}
		last := pred.Instrs[len(pred.Instrs)-1]
		if iff, ok := last.(*ssa.If); ok {
			sign := pred.Succs[0] == succ
			for _, at := range w.FE.decompose(w.TS.Of(iff.Cond), sign) {
				if at.sign && at.term != nil && eqRoot(at.term) {
					return true
				}
			}
		}
		st := w.FE.StateBefore(last)
		if len(st) == 0 {
			return false
		}
		for _, alt := range st {
			if !alt.Has("b", true, eqRoot) {
				return false
			}
		}
		return true
	}
	var startOK func(v ssa.Value, pred, succ *ssa.BasicBlock, depth int) bool
	startOK = func(v ssa.Value, pred, succ *ssa.BasicBlock, depth int) bool {
		t := w.TS.Of(v)
		if isBI(t) {
			return true
		}
		if depth > 3 {
			return false
		}
		switch x := v.(type) {
		case *ssa.Phi:
			for i, e := range x.Edges {
				if !startOK(e, x.Block().Preds[i], x.Block(), depth+1) {
					return false
				}
			}
			return len(x.Edges) > 0
		case *ssa.Call:
			good := false
			for _, cal := range w.CG.SiteOut[x] {
				fa := w.FE.analysisFor(cal.Callee)
				good = len(fa.exits) > 0
				for _, ex := range fa.exits {
					for _, alt := range ex.st {
						rv := w.FE.Resolve(alt, ex.ret.Results[0])
						if isBI(rv) || (rv.IsConst(fmt.Sprint(al-1)) && alt.Has("b", true, eqRoot)) {
							continue
						}
						good = false
						initS = "start " + rv.String() + " under {" + trunc(strings.Join(alt.Facts(), " ∧ "), 160) + "}"
					}
				}
			}
			return good
		}
		if t.IsConst(fmt.Sprint(al-1)) && pred != nil && edgeUnderRoot(pred, succ) {
			return true
		}
		initS = "start " + t.String()
		return false
	}
	okInit := true
	nInit := 0
	for i, e := range idx.Edges {
		if inLoop[header.Preds[i]] {
			continue
		}
		nInit++
		if !startOK(e, header.Preds[i], header, 0) {
			okInit = false
		}
	}
	okInit = okInit && nInit > 0
	_ = initV
	rr.At(w, idxSite, "the walk starts at the target's own bucket (the last bucket when the target is the root ID)", okInit, initS)
	// exits: only with the buckets exhausted (index < 0) or K collected
	idxT := w.TS.Of(idx)
	nExit := 0
	seenExit := map[*ssa.BasicBlock]bool{}
	for _, b := range tcn.Blocks {
		if !inLoop[b] {
			continue
		}
		for _, sc := range b.Succs {
			if inLoop[sc] || len(sc.Instrs) == 0 || seenExit[sc] {
				continue
			}
			seenExit[sc] = true
			nExit++
			w.Require(rr, sc.Instrs[0], "the walk stops only when the buckets are exhausted or K contacts are collected", func(alt *Alt) (bool, string) {
				if alt.Has("b", true, func(x *Term) bool {
					return x.Op == OpBin && x.Name == "<" && termEq(x.Args[0], idxT) && x.Args[1].IsConst("0")
				}) {
					return true, "index < 0"
				}
				if alt.Has("b", false, func(x *Term) bool {
					return x.Op == OpBin && x.Name == "<" && x.Args[0].Op == OpLen && termEq(x.Args[1], kT)
				}) {
					return true, "¬(len(ret) < k)"
				}
				return false, "the loop can be left with buckets unvisited and fewer than k contacts"
			})
		}
	}
	if nExit == 0 {
		rr.Oblige(shortFuncName(tcn), "the walk stops only when the buckets are exhausted or K contacts are collected", w.P.Pos(tcn.Pos()), false, "no loop exit found")
	}
	// every entry of the visited bucket is offered to the filter: a range over that bucket's node set
	nodesF := a.nodes
	okRange := false
	eachInstr([]*ssa.Function{tcn}, func(_ *ssa.Function, ins ssa.Instruction) {
		if r, ok := ins.(*ssa.Range); ok && inLoop[r.Block()] {
			t := w.TS.Of(r.X)
			if isFieldTerm(t, nodesF) && t.Contains(idxT) {
				okRange = true
			}
		}
	})
	rr.At(w, idxSite, "every entry of the visited bucket is considered (range over its node set)", okRange, "")
}

func blockReaches(from, to *ssa.BasicBlock) bool {
	seen := map[*ssa.BasicBlock]bool{}
	var dfs func(b *ssa.BasicBlock) bool
	dfs = func(b *ssa.BasicBlock) bool {
		for _, s := range b.Succs {
			if s == to {
				return true
			}
			if !seen[s] {
				seen[s] = true
				if dfs(s) {
					return true
				}
			}
		}
		return false
	}
	return dfs(from)
}

// c09r8: the slices stored in Return.Nodes / Return.Nodes6 are freshly allocated for this reply:
// followed backwards through calls into the module, phis, append chains and reslicing, every origin
// is nil, make or a literal - never a field or a parameter. A shared scratch buffer would be
// overwritten by the second list (and by the next query) before the reply goroutine encodes it.
func c09r8(w *World, rr *RuleRun) {
	for _, name := range []string{"Nodes", "Nodes6"} {
		fv := w.P.Field("krpc", "Return", name)
		n := 0
		for _, st := range w.FieldWrites(w.P.LibFuncs, fv) {
			s, ok := st.(*ssa.Store)
			if !ok || !w.P.IsLib(st.Parent()) {
				continue
			}
			if strings.HasSuffix(st.Parent().Pkg.Pkg.Path(), "/krpc") {
				continue // decoders fill the field from wire bytes
			}
			n++
			bad := w.staleSliceOrigins(s.Val, 0, map[ssa.Value]bool{})
			rr.At(w, st, "Return."+name+" is a freshly built slice", len(bad) == 0, strings.Join(bad, "; "))
		}
		if n == 0 {
			rr.Oblige("(library)", "Return."+name+" is a freshly built slice", "-", false, "no store found")
		}
	}
}

// staleSliceOrigins lists the origins of a slice value that are not fresh allocations.
func (w *World) staleSliceOrigins(v ssa.Value, depth int, seen map[ssa.Value]bool) []string {
	if seen[v] {
		return nil
	}
	seen[v] = true
	if depth > 8 {
		return []string{"origin too deep at " + trunc(w.TS.Of(v).String(), 60)}
	}
	switch x := v.(type) {
	case *ssa.Const:
		return nil
	case *ssa.MakeSlice:
		return nil
	case *ssa.Phi:
		var out []string
		for _, e := range x.Edges {
			out = append(out, w.staleSliceOrigins(e, depth+1, seen)...)
		}
		return out
	case *ssa.Slice:
		if _, isAlloc := x.X.(*ssa.Alloc); isAlloc {
			return nil // slice of a local array (varargs, new [n]T)
		}
		return w.staleSliceOrigins(x.X, depth+1, seen)
	case *ssa.ChangeType:
		return w.staleSliceOrigins(x.X, depth+1, seen)
	case *ssa.Convert:
		return w.staleSliceOrigins(x.X, depth+1, seen)
	case *ssa.Extract:
		return w.staleSliceOrigins(x.Tuple, depth+1, seen)
	case *ssa.UnOp:
		if al, ok := x.X.(*ssa.Alloc); ok && al.Referrers() != nil {
			var out []string
			for _, r := range *al.Referrers() {
				if st, ok := r.(*ssa.Store); ok && st.Addr == al {
					out = append(out, w.staleSliceOrigins(st.Val, depth+1, seen)...)
				}
			}
			return out
		}
		return []string{"loaded from " + trunc(w.TS.Of(x.X).String(), 80)}
	case *ssa.Call:
		c := x.Common()
		if b, ok := c.Value.(*ssa.Builtin); ok && b.Name() == "append" {
			return w.staleSliceOrigins(c.Args[0], depth+1, seen)
		}
		var out []string
		found := false
		for _, e := range w.CG.SiteOut[x] {
			if !w.P.IsLib(e.Callee) || len(e.Callee.Blocks) == 0 {
				continue
			}
			found = true
			for _, b := range e.Callee.Blocks {
				for _, ins := range b.Instrs {
					if r, ok := ins.(*ssa.Return); ok && len(r.Results) > 0 {
						out = append(out, w.staleSliceOrigins(r.Results[0], depth+1, seen)...)
					}
				}
			}
		}
		if !found {
			return []string{"result of " + trunc(w.TS.Of(v).String(), 80)}
		}
		return out
	}
	return []string{trunc(w.TS.Of(v).String(), 80)}
}
