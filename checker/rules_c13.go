package main

import (
	"fmt"
	"go/types"
	"strings"

	"golang.org/x/tools/go/ssa"
)

func init() {
	register(&Property{
		ID:    "C13",
		Title: "BEP 44 versions only move forward: seq, CAS and expiry",
		Decided: "C13.1 an overwrite of an existing target is dominated by CheckIncoming(stored, incoming)=nil with stored = the wrapper's own Get of the incoming item's target; a first write only under 'item not found'; " +
			"C13.2 the 302 return is guarded by stored.Seq ≥ incoming.Seq (equal seq ∧ equal value refreshes), the 301 return by incoming.Cas ≠ stored.Seq, and the CAS test may be skipped only when the incoming put carries no cas; " +
			"C13.3 the wrapper's compound store operations (Get→Put, Get→Del) run inside one critical section of a wrapper-owned mutex (raw store calls are counted through the wrapper's own helpers, so a validate-then-store split across two lock acquisitions is reported); " +
			"C13.4 Wrapper.Get returns an item only if created+exp is after now; created is stamped before each store and nowhere else; a get naming seq is sent v/k/sig only when the stored seq is newer; " +
			"C13.6 the configured raw Store flows only into NewWrapper and its Get/Put/Del are invoked only inside the wrapper, so every served item passed the expiry test and every stored one the version test.",
		NotDecided: "linearizability of real histories against arbitrary Store implementations (the Store is an opaque hook); 301 vs 302 precedence when both apply (the statement does not fix it).",
		Rules: []*Rule{
			{ID: "C13.1", Doc: "overwrite is gated by CheckIncoming", Floor: 1, Run: c13r1},
			{ID: "C13.2", Doc: "what CheckIncoming=nil means: seq and CAS operands", Floor: 4, Run: c13r2},
			{ID: "C13.3", Doc: "compound store operations are atomic", Floor: 3, Run: c13r3},
			{ID: "C13.4", Doc: "expiry and conditional get", Floor: 5, Run: c13r4},
			{ID: "C13.5", Doc: "an inbound put hands seq and cas of the request to the store unchanged", Floor: 2, Run: c13r5},
			{ID: "C13.6", Doc: "nothing is served or stored past the wrapper: the raw store is reachable only through it", Floor: 3, Run: c13r6},
			{ID: "C13.7", Doc: "301 / 302 reach the wire: Wrapper.Put hands back CheckIncoming's own error value and the handler sends it (shared with C12.6)", Floor: 3, Run: c12r6},
		},
	})
}

func c13r1(w *World, rr *RuleRun) {
	a := w.bep44()
	errNotFound := w.P.Global("bep44", "ErrItemNotFound")
	targetM := w.P.Func("(*bep44.Item).Target")
	for _, site := range w.AllCallsTo(w.P.LibFuncs, a.sPut) {
		c := callInstrCommon(site)
		if !c.IsInvoke() || !w.withinUp(site.Parent(), a.wPut) {
			continue
		}
		item := c.Args[0]
		w.Require(rr, site, "Store.Put only for a new target or after CheckIncoming(stored, incoming)=nil", func(alt *Alt) (bool, string) {
			it := w.FE.Resolve(alt, item)
			// (a) not found
			if alt.Has("b", true, func(t *Term) bool {
				return t.Op == OpCall && strings.HasSuffix(t.Name, "errors.Is") && len(t.Args) == 2 && strings.Contains(t.Args[1].String(), errNotFound.Name())
			}) {
				return true, "errors.Is(err, ErrItemNotFound)"
			}
			// (b) CheckIncoming(is, i) == nil, is = w.s.Get(i.Target())#0
			if alt.Has("n", false, func(t *Term) bool {
				if !isCall(t, a.checkIn) || len(t.Args) != 2 || !termEq(t.Args[1], it) {
					return false
				}
				g, idx := stripExtract(t.Args[0])
				if idx != 0 || !isCall(g, a.sGet) || len(g.Args) != 2 {
					return false
				}
				tg := g.Args[1]
				return isCall(tg, targetM) && termEq(tg.Args[0], it)
			}) {
				return true, "CheckIncoming(Get(i.Target()), i)=nil"
			}
			return false, "overwrite not gated"
		})
	}
}

func c13r2(w *World, rr *RuleRun) {
	a := w.bep44()
	seq := w.P.Field("bep44", "Item", "Seq")
	cas := w.P.Field("bep44", "Item", "Cas")
	stored := w.ParamTerm(a.checkIn, "stored")
	incoming := w.ParamTerm(a.checkIn, "incoming")
	sSeq, iSeq := FieldTerm(stored, seq), FieldTerm(incoming, seq)
	iCas := FieldTerm(incoming, cas)
	ff := w.FE.analysisFor(a.checkIn)
	saw := map[int64]bool{}
	eqKey := func(x, y *Term) string {
		if x.String() > y.String() {
			x, y = y, x
		}
		return "b:" + cmpKey("==", x, y).String()
	}
	for _, ex := range ff.exits {
		rv := ex.ret.Results[0]
		code, src, okc := w.errorCodeOfInterface(rv)
		if okc {
			saw[code] = true
			switch code {
			case 302:
				ok := len(ex.st) > 0
				for _, alt := range ex.st {
					if s, have := alt.facts["b:"+cmpKey("<", sSeq, iSeq).String()]; !(have && !s) {
						ok = false
					}
				}
				rr.At(w, ex.ret, "302 is returned under stored.Seq ≥ incoming.Seq", ok, "returns "+src)
			case 301:
				ok := len(ex.st) > 0
				det := ""
				for _, alt := range ex.st {
					if s, have := alt.facts[eqKey(iCas, sSeq)]; !(have && !s) {
						ok = false
						det = "path facts: {" + strings.Join(alt.Facts(), " ∧ ") + "}"
					}
				}
				rr.At(w, ex.ret, "301 is returned under incoming.Cas ≠ stored.Seq", ok, "returns "+src+" "+det)
			default:
				rr.At(w, ex.ret, "CheckIncoming returns only 301/302", false, fmt.Sprintf("returns %s (code %d)", src, code))
			}
			continue
		}
		// nil returns
		if !w.TS.Of(rv).IsConst("nil") {
			rr.At(w, ex.ret, "CheckIncoming return value understood", false, "returns "+w.TS.Of(rv).String())
			continue
		}
		for _, alt := range ex.st {
			refresh := alt.facts[eqKey(iSeq, sSeq)] && alt.Has("b", true, func(t *Term) bool { return t.Op == OpCall && strings.HasSuffix(t.Name, "bytes.Equal") })
			if refresh {
				rr.At(w, ex.ret, "accept: same seq ∧ same encoded value (refresh)", true, "")
				continue
			}
			newer, haveN := alt.facts["b:"+cmpKey("<", sSeq, iSeq).String()]
			casEq := alt.facts[eqKey(iCas, sSeq)]
			noCas := alt.facts[eqKey(constTerm("0"), iCas)]
			ok := haveN && newer && (casEq || noCas)
			why := fmt.Sprintf("stored.Seq < incoming.Seq: %v; incoming.Cas == stored.Seq: %v; incoming carries no cas: %v", haveN && newer, casEq, noCas)
			rr.At(w, ex.ret, "accept: strictly newer seq ∧ (cas matches stored seq ∨ no cas given)", ok, why+"\n  {"+strings.Join(alt.Facts(), " ∧ ")+"}")
		}
	}
	for _, c := range []int64{301, 302} {
		if !saw[c] {
			rr.Oblige(shortFuncName(a.checkIn), fmt.Sprintf("CheckIncoming can return %d", c), w.P.Pos(a.checkIn.Pos()), false, "no such return")
		}
	}
}

func c13r3(w *World, rr *RuleRun) {
	a := w.bep44()
	var wmu *types.Var
	for _, c := range w.LK.Classes {
		if strings.HasPrefix(w.LK.ClassName(c), "bep44.Wrapper.") {
			wmu = c
		}
	}
	wrapperT := w.P.NamedType("bep44", "Wrapper")
	// methods of Wrapper that invoke ≥ 2 raw store methods on some path
	ms := w.P.SSA.MethodSets.MethodSet(types.NewPointer(wrapperT))
	for i := 0; i < ms.Len(); i++ {
		f := w.P.SSA.MethodValue(ms.At(i))
		if f == nil || !w.P.IsLib(f) || f.Synthetic != "" {
			continue
		}
		isRaw := func(ins ssa.Instruction) bool {
			c := callInstrCommon(ins)
			return c != nil && c.IsInvoke() && (c.Method == a.sPut || c.Method == a.sGet || c.Method == a.sDel)
		}
		// a call of a library helper that itself performs a raw store operation (directly or through
		// further helpers, depth ≤ 3) is a store operation of this method (C13-v2: the read and the
		// checks moved into a validate() helper that takes and releases the lock on its own)
		var performs func(g *ssa.Function, depth int) bool
		performs = func(g *ssa.Function, depth int) bool {
			if g == nil || depth > 3 || !w.P.IsLib(g) || len(g.Blocks) == 0 {
				return false
			}
			for _, b := range g.Blocks {
				for _, ins := range b.Instrs {
					if isRaw(ins) {
						return true
					}
					if c := callInstrCommon(ins); c != nil && !c.IsInvoke() {
						if h := c.StaticCallee(); h != nil && h != g && performs(h, depth+1) {
							return true
						}
					}
				}
			}
			return false
		}
		isStoreCall := func(ins ssa.Instruction) bool {
			if isRaw(ins) {
				return true
			}
			if _, isGo := ins.(*ssa.Go); isGo {
				return false
			}
			c := callInstrCommon(ins)
			if c == nil || c.IsInvoke() {
				return false
			}
			h := c.StaticCallee()
			return h != nil && h != f && performs(h, 1)
		}
		maxCalls := 0
		for _, mm := range ExitCounts(f, isStoreCall) {
			if mm[1] > maxCalls {
				maxCalls = mm[1]
			}
		}
		if maxCalls < 2 {
			rr.ObligeTrivial(shortFuncName(f), "single store operation (no compound section needed)", w.P.Pos(f.Pos()), true, fmt.Sprintf("max %d raw store calls per path", maxCalls))
			continue
		}
		if wmu == nil {
			rr.Oblige(shortFuncName(f), "compound store operation inside one wrapper-owned critical section", w.P.Pos(f.Pos()), false,
				fmt.Sprintf("up to %d raw store calls on one path and bep44.Wrapper has no mutex: concurrent Put/Get on one target can interleave between the read and the write (lost update / deleted fresh item)", maxCalls))
			continue
		}
		var calls []ssa.Instruction
		for _, b := range f.Blocks {
			for _, ins := range b.Instrs {
				if isStoreCall(ins) {
					calls = append(calls, ins)
				}
			}
		}
		for _, c := range calls {
			if !isRaw(c) {
				continue // the helper's own raw calls are obliged where they stand
			}
			st := w.LK.StatesAt(wmu, c)
			rr.At(w, c, "raw store call under "+w.LK.ClassName(wmu), allHeld(st, true), "lock states "+statesString(st))
		}
		for i := 0; i+1 < len(calls); i++ {
			for j := i + 1; j < len(calls); j++ {
				if !w.LK.canReach(calls[i].Block(), instrIndex(calls[i])+1, calls[j]) {
					continue
				}
				ok, why := w.LK.SameCriticalSection(wmu, calls[i], calls[j])
				rr.At(w, calls[j], "no release of the wrapper lock between two raw store calls", ok, why)
			}
		}
	}
}

func c13r4(w *World, rr *RuleRun) {
	a := w.bep44()
	h := w.handler()
	created := w.P.Field("bep44", "Item", "created")
	exp := w.P.Field("bep44", "Wrapper", "exp")
	// Wrapper.Get: non-nil item only under created.Add(exp).After(now)
	ff := w.FE.analysisFor(a.wGet)
	n := 0
	for _, ex := range ff.exits {
		for _, alt := range ex.st {
			it := w.FE.Resolve(alt, ex.ret.Results[0])
			if it.IsConst("nil") || alt.HasKey("n", it, false) {
				continue
			}
			n++
			ok := alt.Has("b", true, func(t *Term) bool {
				if t.Op != OpCall || !strings.HasSuffix(t.Name, ".After") || len(t.Args) != 2 {
					return false
				}
				add := t.Args[0]
				return add.Op == OpCall && strings.HasSuffix(add.Name, ".Add") && hasField(add.Args[0], created) && hasField(add.Args[1], exp) && strings.Contains(t.Args[1].String(), "time.Now")
			})
			rr.At(w, ex.ret, "Wrapper.Get serves an item only if created+exp is after now", ok, "returns "+it.String())
		}
	}
	if n == 0 {
		rr.Oblige(shortFuncName(a.wGet), "Wrapper.Get serves an item only if created+exp is after now", w.P.Pos(a.wGet.Pos()), false, "no item-returning path")
	}
	// created stamped only in Wrapper.Put, and before each raw Put
	for _, st := range w.FieldWrites(w.P.LibFuncs, created) {
		rr.At(w, st, "Item.created written only by Wrapper.Put", w.withinUp(st.Parent(), a.wPut), "in "+shortFuncName(st.Parent()))
	}
	for _, site := range w.AllCallsTo(w.P.LibFuncs, a.sPut) {
		if !callInstrCommon(site).IsInvoke() || !w.withinUp(site.Parent(), a.wPut) {
			continue
		}
		ok := PrecededBy(site, func(ins ssa.Instruction) bool {
			s, isStore := ins.(*ssa.Store)
			return isStore && fieldOfAddr(s.Addr) == created && strings.Contains(w.TS.Of(s.Val).String(), "time.Now")
		})
		rr.At(w, site, "created = now stamped on every path before the raw Put", ok, "")
	}
	// conditional get: v/k/sig only if ¬(args.seq given ∧ item.seq ≤ *args.seq)
	argsSeq := w.P.Field("krpc", "MsgArgs", "Seq")
	for _, fn := range []string{"V", "K", "Sig"} {
		rf := w.P.Field("krpc", "Bep44Return", fn)
		for _, st := range w.FieldWrites(w.RegionOf(h.fn), rf) {
			w.Require(rr, st, "get sends "+strings.ToLower(fn)+" only when no seq was named or the stored seq is newer", func(alt *Alt) (bool, string) {
				if alt.Has("n", false, func(t *Term) bool { return t.Op == OpField && t.Obj == argsSeq }) {
					return true, "args.seq absent"
				}
				// ¬(item.Seq <= *args.Seq)  ==  (*args.Seq < item.Seq)
				if alt.Has("b", true, func(t *Term) bool {
					return t.Op == OpBin && t.Name == "<" && t.Args[0].Op == OpDeref && t.Args[0].Args[0].Op == OpField && t.Args[0].Args[0].Obj == argsSeq && strings.HasSuffix(t.Args[1].String(), ".Seq")
				}) {
					return true, "*args.seq < item.Seq"
				}
				return false, "value served although the requester's seq is not older"
			})
		}
	}
}

// c13r5: the Item built by the put handler takes Seq from *args.seq and Cas from args.cas (without
// them CheckIncoming compares against zero values and the CAS / ordering protection is void).
func c13r5(w *World, rr *RuleRun) {
	h := w.handler()
	itemT := w.P.NamedType("bep44", "Item")
	lit := w.literalStoresRegion(h.fn, itemT)
	argsSeq := w.P.Field("krpc", "MsgArgs", "Seq")
	argsCas := w.P.Field("krpc", "MsgArgs", "Cas")
	seq := w.TS.Of(lit["Seq"])
	rr.Oblige(shortFuncName(h.fn), "the stored item's seq is the request's seq", w.P.Pos(h.fn.Pos()), lit["Seq"] != nil && seq.Op == OpDeref && isFieldTerm(seq.Args[0], argsSeq), "Seq ← "+trunc(seq.String(), 100))
	cas := w.TS.Of(lit["Cas"])
	rr.Oblige(shortFuncName(h.fn), "the stored item's cas is the request's cas", w.P.Pos(h.fn.Pos()), lit["Cas"] != nil && isFieldTerm(cas, argsCas), "Cas ← "+trunc(cas.String(), 100))
}

// c13r6: expiry and version checks live in the wrapper; they hold for the server only if the raw
// store cannot be reached around it.
func c13r6(w *World, rr *RuleRun) {
	a := w.bep44()
	w.checkRawStoreFlow(rr)
	for _, m := range []struct {
		f    *types.Func
		name string
	}{{a.sGet, "Get"}, {a.sPut, "Put"}, {a.sDel, "Del"}} {
		n := 0
		for _, site := range w.AllCallsTo(w.P.LibFuncs, m.f) {
			if !callInstrCommon(site).IsInvoke() {
				continue
			}
			n++
			ok := w.withinUp(site.Parent(), a.wGet) || w.withinUp(site.Parent(), a.wPut)
			rr.At(w, site, "raw Store."+m.name+" invoked only inside the Wrapper", ok, "in "+shortFuncName(site.Parent()))
		}
		if n == 0 {
			rr.ObligeTrivial("(library)", "raw Store."+m.name+" invoked only inside the Wrapper", "-", true, "no invocation")
		}
	}
}
