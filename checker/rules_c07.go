package main

import (
	"fmt"
	"go/token"
	"go/types"
	"strings"

	"golang.org/x/tools/go/ssa"
)

func init() {
	register(&Property{
		ID:    "C07",
		Title: "A query completes only with the reply that matches it",
		Decided: "C07.1 key completeness: every key given to the transaction dispatcher (Add/Have/Pop/Delete) has both fields set on every path - RemoteAddr from Addr.String() of the peer's address (query destination in Query, datagram source in processPacket) and T from the issued id / the received t; Key has exactly these two fields and the dispatcher's map is keyed by the whole struct (a key flattened to the plain concatenation id+address is decided as a violation: not injective); the key local is not overwritten wholesale from anywhere else; " +
			"C07.2 match → pop → deliver once: Pop only under Have(k)=true for the same key in one critical section; handleResponse has one call site fed by the popped value; onResponse is stored only by Query; the unknown-key branch of processPacket reaches exit without touching transactions or the table; " +
			"C07.3 registration brackets the exchange in Query: addTransaction dominates the start of the sender, deleteTransaction post-dominates it, both under Server.mu, same key; " +
			"C07.4 ids are issued atomically from a 64-bit counter: read, increment and encoding of `next` are in one critical section of the issuer's mutex, the counter is uint64 and the id is the uvarint encoding of the value read; every outbound t comes from Issue() (the issuer is found structurally: the concrete type of transactions.DefaultIdIssuer); " +
			"C07.5 the reply hand-off cannot block or be mixed up: the channel onResponse sends on is a fresh `make(chan, constant ≥ 1)` of that very Query call; " +
			"C07.6 payload and source stay together: serve hands b[:n] and the address of one ReadFrom to processPacket synchronously (the buffer is reused by the next read).",
		NotDecided: "injectivity of the uvarint encoding (library), wrap-around of a 64-bit counter, behaviour under concrete interleavings beyond the critical-section facts.",
		Assume:     []string{"encoding/binary.PutUvarint is injective on uint64"},
		Rules: []*Rule{
			{ID: "C07.1", Doc: "dispatcher keys carry both address and transaction id", Floor: 6, Run: c07r1},
			{ID: "C07.2", Doc: "match, pop, deliver once", Floor: 5, Run: c07r2},
			{ID: "C07.3", Doc: "registration brackets the exchange", Floor: 4, Run: c07r3},
			{ID: "C07.4", Doc: "ids issued atomically from a 64-bit counter", Floor: 5, Run: c07r4},
			{ID: "C07.5", Doc: "fresh buffered reply channel per query", Floor: 2, Run: c07r5},
			{ID: "C07.6", Doc: "datagram payload and source processed together", Floor: 2, Run: c07r6},
			{ID: "C07.8", Doc: "only non-queries are looked up in the transaction table: a query that happens to carry the address and id of one of our outstanding transactions is still a query", Floor: 1, Run: c07r8},
			{ID: "C07.7", Doc: "every datagram is decoded into a fresh message: no field of an earlier datagram can survive into a later one", Floor: 1, Run: c07r7},
		},
	})
}

// localKeyFields: for a transactions.Key value operand (load of a local cell), the set of field
// names that are definitely assigned before `at`, with the stored terms.
func (w *World) localKeyFields(at ssa.Instruction, v ssa.Value) (map[string][]*Term, map[string]bool, bool) {
	// the key returned by a module helper: look at what the helper builds and returns
	if c, ok := v.(*ssa.Call); ok {
		if g := c.Common().StaticCallee(); g != nil && w.P.IsLib(g) && len(g.Blocks) > 0 {
			var rets []*ssa.Return
			eachInstr([]*ssa.Function{g}, func(_ *ssa.Function, ins ssa.Instruction) {
				if r, ok := ins.(*ssa.Return); ok {
					rets = append(rets, r)
				}
			})
			if len(rets) == 1 && len(rets[0].Results) == 1 {
				return w.localKeyFields(rets[0], rets[0].Results[0])
			}
		}
		return nil, nil, false
	}
	al := allocOfLoad(v)
	if al == nil || al.Referrers() == nil {
		return nil, nil, false
	}
	// a local that only ever holds the result of such a helper
	var whole []ssa.Value
	partial := false
	for _, r := range *al.Referrers() {
		switch x := r.(type) {
		case *ssa.Store:
			if x.Addr == ssa.Value(al) {
				whole = append(whole, x.Val)
			}
		case *ssa.FieldAddr:
			if x.Referrers() != nil {
				for _, r2 := range *x.Referrers() {
					if s2, ok := r2.(*ssa.Store); ok && s2.Addr == ssa.Value(x) {
						partial = true
					}
				}
			}
		}
	}
	if !partial && len(whole) == 1 {
		if _, isCall := whole[0].(*ssa.Call); isCall {
			return w.localKeyFields(at, whole[0])
		}
		// ... or one composite literal assigned as a whole (its temporary is the literal)
		if al2 := allocOfLoad(whole[0]); al2 != nil && al2 != al {
			return w.localKeyFields(at, whole[0])
		}
	}
	if len(whole) > 0 {
		// the local is also overwritten wholesale (by something other than the one helper result
		// above): what reaches the dispatcher is then not the literal built here
		return nil, nil, false
	}
	vals := map[string][]*Term{}
	definite := map[string]bool{}
	for _, r := range *al.Referrers() {
		fa, ok := r.(*ssa.FieldAddr)
		if !ok || fa.Referrers() == nil {
			continue
		}
		st := fa.X.Type().Underlying().(*types.Pointer).Elem().Underlying().(*types.Struct)
		name := st.Field(fa.Field).Name()
		for _, r2 := range *fa.Referrers() {
			if s, ok := r2.(*ssa.Store); ok && s.Addr == ssa.Value(fa) {
				vals[name] = append(vals[name], w.TS.Of(s.Val))
			}
		}
		fav := fa
		if at.Parent() == fa.Parent() && PrecededBy(at, func(i ssa.Instruction) bool {
			s, ok := i.(*ssa.Store)
			if !ok {
				return false
			}
			f2, ok := s.Addr.(*ssa.FieldAddr)
			return ok && f2.X == fav.X && f2.Field == fav.Field
		}) {
			definite[name] = true
		}
	}
	return vals, definite, true
}

func c07r1(w *World, rr *RuleRun) {
	keyT := w.P.NamedType("transactions", "Key")
	st, isStruct := keyT.Underlying().(*types.Struct)
	if !isStruct {
		// a flattened key: decidable in one case - the plain concatenation of the two components,
		// which cannot tell ("ab", "c") from ("a", "bc") and one component comes off the wire
		if b, isB := keyT.Underlying().(*types.Basic); isB && b.Info()&types.IsString != 0 {
			found := false
			eachInstr(w.P.LibFuncs, func(fn *ssa.Function, ins ssa.Instruction) {
				var v ssa.Value
				switch x := ins.(type) {
				case *ssa.ChangeType:
					if types.Identical(x.Type(), keyT) {
						v = x.X
					}
				case *ssa.Convert:
					if types.Identical(x.Type(), keyT) {
						v = x.X
					}
				}
				if v == nil {
					return
				}
				if bo, ok := v.(*ssa.BinOp); ok && bo.Op == token.ADD {
					_, cx := bo.X.(*ssa.Const)
					_, cy := bo.Y.(*ssa.Const)
					if !cx && !cy {
						found = true
						rr.At(w, ins, "the transaction key keeps the transaction id and the remote address apart (distinct (id, address) pairs give distinct keys)", false, "key is the plain concatenation "+trunc(w.TS.Of(v).String(), 120)+" of two variable-length strings: a prefix of the id with the rest moved into the address gives the same key")
					}
				}
			})
			if found {
				return
			}
		}
		rr.Broken("transactions.Key is neither a struct of (id, address) nor a recognised encoding: %s", keyT.Underlying())
		return
	}
	names := []string{}
	for i := 0; i < st.NumFields(); i++ {
		names = append(names, st.Field(i).Name())
	}
	rr.Oblige("transactions.Key", "Key consists of exactly the transaction id and the remote address", "-", st.NumFields() == 2 && st.Field(0).Name() == "T" && st.Field(1).Name() == "RemoteAddr", strings.Join(names, ","))
	// dispatcher map keyed by the whole Key
	txns := w.P.Field("transactions", "Dispatcher", "txns")
	mt, isMap := txns.Type().Underlying().(*types.Map)
	rr.Oblige("transactions.Dispatcher", "the dispatcher's map is keyed by the whole Key struct", "-", isMap && types.Identical(mt.Key(), keyT), txns.Type().String())
	issue := w.idIssuer().issue
	nextTID := w.P.Func("(*Server).nextTransactionID")
	msgT := w.P.Field("krpc", "Msg", "T")
	// every call of a dispatcher method / the Server wrappers with a key literal built in that function
	n := 0
	eachInstr(w.P.LibFuncs, func(fn *ssa.Function, ins ssa.Instruction) {
		c := callInstrCommon(ins)
		if c == nil || c.IsInvoke() {
			return
		}
		sc := c.StaticCallee()
		if sc == nil {
			return
		}
		name := shortFuncName(sc)
		isDisp := strings.HasPrefix(name, "(*transactions.Dispatcher[") && !strings.Contains(name, "NumActive")
		isWrap := name == "(*Server).addTransaction" || name == "(*Server).deleteTransaction"
		if !isDisp && !isWrap {
			return
		}
		// the key operand
		var kv ssa.Value
		for _, a := range c.Args {
			if types.Identical(a.Type(), keyT) {
				kv = a
			}
		}
		if kv == nil {
			return
		}
		if _, isParam := kv.(*ssa.Parameter); isParam {
			return // forwarded: checked where the key is built
		}
		vals, definite, ok := w.localKeyFields(ins, kv)
		if !ok {
			rr.At(w, ins, "dispatcher key is a literal built in the calling function", false, "key operand "+w.TS.Of(kv).String())
			return
		}
		n++
		rr.At(w, ins, "dispatcher key has both fields assigned on every path", definite["T"] && definite["RemoteAddr"], fmt.Sprintf("T assigned: %v, RemoteAddr assigned: %v", definite["T"], definite["RemoteAddr"]))
		// sources
		okRA := len(vals["RemoteAddr"]) > 0
		for _, v := range vals["RemoteAddr"] {
			if !(v.Op == OpCall && suffixName(v) == "String" && len(v.Args) == 1 && v.Args[0].Op == OpParam && relTypeString(paramType(v.Args[0])) == "Addr") {
				okRA = false
			}
		}
		okT := len(vals["T"]) > 0
		for _, v := range vals["T"] {
			fromIssue := isCall(v, nextTID) || isCall(v, issue)
			fromWire := isFieldTerm(v, msgT)
			if !fromIssue && !fromWire {
				okT = false
			}
		}
		rr.At(w, ins, "key.RemoteAddr is String() of the peer's full address (IP and port), key.T the issued / received transaction id", okRA && okT, fmt.Sprintf("RemoteAddr ← %v; T ← %v", termStrings(vals["RemoteAddr"]), termStrings(vals["T"])))
	})
	if n == 0 {
		rr.Oblige("(library)", "dispatcher keys are built somewhere", "-", false, "none found")
	}
}

func paramType(t *Term) types.Type {
	if p, ok := t.Obj.(*ssa.Parameter); ok {
		return p.Type()
	}
	return types.Typ[types.Invalid]
}

func termStrings(ts []*Term) []string {
	var out []string
	for _, t := range ts {
		out = append(out, trunc(t.String(), 80))
	}
	return out
}

// removingLookup: f is a method of the transaction dispatcher that deletes an entry of its table.
func (w *World) removingLookup(f *ssa.Function) bool {
	if f == nil || !strings.HasPrefix(shortFuncName(f), "(*transactions.Dispatcher[") {
		return false
	}
	txns := w.P.Field("transactions", "Dispatcher", "txns")
	del := false
	eachInstr([]*ssa.Function{f}, func(_ *ssa.Function, ins ssa.Instruction) {
		if c := callInstrCommon(ins); c != nil {
			if b, ok := c.Value.(*ssa.Builtin); ok && b.Name() == "delete" && len(c.Args) == 2 && fieldOfAddr(c.Args[0]) != nil && fieldOfAddr(c.Args[0]).Name() == txns.Name() {
				del = true
			}
		}
	})
	return del
}

func c07r2(w *World, rr *RuleRun) {
	w.LK.Run()
	mu := w.LK.ClassByName("Server.mu")
	pp := w.P.Func("(*Server).processPacket")
	hr := w.P.Func("(*transaction).handleResponse")
	// first the decidable wrong shape: the response handler runs on a transaction obtained by a
	// dispatcher lookup that leaves it registered - every repeated copy of the reply is then
	// delivered again (and the handler's one-slot channel blocks the third for ever)
	for _, s := range w.AllCallsTo(w.P.LibFuncs, hr) {
		v := callInstrCommon(s).Args[0]
		if ex, ok := v.(*ssa.Extract); ok {
			v = ex.Tuple
		}
		c, ok := v.(*ssa.Call)
		if !ok {
			continue
		}
		if f := c.Call.StaticCallee(); f != nil && strings.HasPrefix(shortFuncName(f), "(*transactions.Dispatcher[") && !w.removingLookup(f) {
			rr.At(w, s, "the reply is delivered to the transaction that was popped for its key", false, "receiver comes from "+shortFuncName(f)+", which leaves the transaction registered: a repeated reply is delivered again")
			return
		}
	}
	have := w.dispatcherMethod("Have")
	// every call of a dispatcher method that removes an entry and hands back its state (Pop, or a
	// fused comma-ok form of Have+Pop)
	isDisp := func(f *ssa.Function) bool {
		return f != nil && strings.HasPrefix(shortFuncName(f), "(*transactions.Dispatcher[")
	}
	yieldsState := func(f *ssa.Function) bool {
		rs := f.Signature.Results()
		if rs.Len() == 0 {
			return false
		}
		bt, isB := rs.At(0).Type().Underlying().(*types.Basic)
		return !(isB && bt.Kind() == types.Bool)
	}
	canPanic := func(f *ssa.Function) bool {
		p := false
		eachInstr([]*ssa.Function{f}, func(_ *ssa.Function, ins ssa.Instruction) {
			if _, ok := ins.(*ssa.Panic); ok {
				p = true
			}
		})
		return p
	}
	eachInstr(w.P.LibFuncs, func(_ *ssa.Function, site ssa.Instruction) {
		c := callInstrCommon(site)
		if c == nil || c.IsInvoke() {
			return
		}
		f := c.StaticCallee()
		if !isDisp(f) || !w.removingLookup(f) || !yieldsState(f) || len(c.Args) < 2 {
			return
		}
		kv := c.Args[1]
		var haveIns ssa.Instruction
		if canPanic(f) {
			w.Require(rr, site, "Pop only under Have(k)=true for the same key", func(alt *Alt) (bool, string) {
				k := w.FE.Resolve(alt, kv)
				if alt.Has("b", true, func(x *Term) bool { return isCall(x, have) && len(x.Args) == 2 && termEq(x.Args[1], k) }) {
					return true, "Have(k)"
				}
				return false, "Pop panics on an unknown key: an unsolicited datagram would crash the node"
			})
			for _, h := range w.CallsIn(site.Parent(), have, false) {
				if termEq(w.TS.Of(callInstrCommon(h).Args[1]), w.TS.Of(kv)) {
					haveIns = h
				}
			}
			if haveIns != nil {
				ok, why := w.LK.SameCriticalSection(mu, haveIns, site)
				rr.At(w, site, "Have and Pop are in one critical section of Server.mu", ok, why)
			}
		} else {
			rr.At(w, site, "Pop only under Have(k)=true for the same key", true, shortFuncName(f)+" tests and removes in one call and reports absence instead of panicking")
			rr.At(w, site, "Have and Pop are in one critical section of Server.mu", true, "one call")
		}
		if haveIns != nil || !canPanic(f) {
			st := w.LK.StatesAt(mu, site)
			rr.At(w, site, "Pop runs under the write lock", allHeld(st, true), "lock states "+statesString(st))
		}
	})
	// handleResponse: one site, receiver is the popped transaction
	sites := w.AllCallsTo(w.P.LibFuncs, hr)
	rr.Oblige(shortFuncName(hr), "handleResponse has exactly one call site", "-", len(sites) == 1, fmt.Sprintf("%d sites", len(sites)))
	for _, s := range sites {
		v := callInstrCommon(s).Args[0]
		if ex, ok := v.(*ssa.Extract); ok && ex.Index == 0 {
			v = ex.Tuple
		}
		okRecv := false
		if c, ok := v.(*ssa.Call); ok {
			f := c.Call.StaticCallee()
			okRecv = isDisp(f) && w.removingLookup(f) && yieldsState(f)
		}
		rr.At(w, s, "the reply is delivered to the transaction that was popped for its key", okRecv, "receiver "+trunc(w.TS.Of(callInstrCommon(s).Args[0]).String(), 160))
		msg := w.TS.Of(callInstrCommon(s).Args[1])
		rr.At(w, s, "the delivered message is the datagram just decoded", w.withinUp(s.Parent(), pp) && msg.Op == OpDeref && msg.Args[0].Op == OpLocal, "message "+trunc(msg.String(), 100))
	}
	// onResponse stored only by Query
	onResp := w.P.Field("", "transaction", "onResponse")
	q := w.P.Func("(*Server).Query")
	for _, ins := range w.FieldWrites(w.P.LibFuncs, onResp) {
		rr.At(w, ins, "transaction.onResponse is set only by Query", w.withinUp(ins.Parent(), q), "in "+shortFuncName(ins.Parent()))
	}
	// unknown-key branch: from the Have=false edge to exit nothing but logging
	var presence []ssa.Value
	for _, h := range w.CallsIn(pp, have, false) {
		if hv, _ := h.(ssa.Value); hv != nil {
			presence = append(presence, hv)
		}
	}
	eachInstr([]*ssa.Function{pp}, func(_ *ssa.Function, ins ssa.Instruction) {
		if ex, ok := ins.(*ssa.Extract); ok && ex.Index == 1 {
			if c, ok := ex.Tuple.(*ssa.Call); ok && isDisp(c.Call.StaticCallee()) {
				presence = append(presence, ex)
			}
		}
	})
	for _, hv := range presence {
		if hv.Referrers() == nil {
			continue
		}
		for _, r := range *hv.Referrers() {
			var ifi *ssa.If
			neg := false
			switch x := r.(type) {
			case *ssa.If:
				ifi = x
			case *ssa.UnOp:
				if x.Op == token.NOT && x.Referrers() != nil {
					for _, r2 := range *x.Referrers() {
						if i2, ok := r2.(*ssa.If); ok {
							ifi, neg = i2, true
						}
					}
				}
			}
			if ifi == nil {
				continue
			}
			// successor taken when Have is false
			idx := 1
			if neg {
				idx = 0
			}
			start := ifi.Block().Succs[idx]
			bad := ""
			seen := map[*ssa.BasicBlock]bool{}
			var walk func(b *ssa.BasicBlock)
			walk = func(b *ssa.BasicBlock) {
				if seen[b] || bad != "" {
					return
				}
				seen[b] = true
				for _, ins := range b.Instrs {
					if c := callInstrCommon(ins); c != nil {
						if _, isDefer := ins.(*ssa.Defer); isDefer {
							continue
						}
						o := calleeObj(c)
						name := ""
						if o != nil {
							name = o.Name()
						}
						switch name {
						case "Printf", "Levelf", "logger", "Add", "String", "Sprintf", "WithDefaultLevel":
						default:
							if _, isB := c.Value.(*ssa.Builtin); !isB {
								bad = instrString(ins) + " at " + w.P.InstrPos(ins)
							}
						}
					}
				}
				for _, s := range b.Succs {
					walk(s)
				}
			}
			walk(start)
			rr.At(w, ifi, "a datagram matching no outstanding query is dropped: only logging between the failed match and exit", bad == "", bad)
		}
	}
}

func c07r3(w *World, rr *RuleRun) {
	w.LK.Run()
	mu := w.LK.ClassByName("Server.mu")
	q := w.P.Func("(*Server).Query")
	addT := w.P.Func("(*Server).addTransaction")
	delT := w.P.Func("(*Server).deleteTransaction")
	sender := w.P.Func("(*Server).transactionQuerySender")
	adds := w.callsLifted(q, addT)
	rr.Oblige(shortFuncName(q), "Query registers its transaction exactly once", w.P.Pos(q.Pos()), len(adds) == 1, fmt.Sprintf("%d addTransaction calls", len(adds)))
	for _, lc := range adds {
		a := lc.Root
		st := w.LK.StatesAt(mu, lc.Inner)
		rr.At(w, lc.Inner, "registration runs under Server.mu (write)", allHeld(st, true), "lock states "+statesString(st))
		key := w.argAtRoot(lc, 1)
		// deregistration post-dominates (directly, or inside a folded helper called on the way out)
		dels := w.callsLifted(q, delT)
		ok, wit := MustPass(a, func(i ssa.Instruction) bool {
			for _, d := range dels {
				if d.Root == i && termEq(w.argAtRoot(d, 1), key) {
					return true
				}
			}
			return false
		})
		det := ""
		if wit != nil {
			det = "exit without deregistration at " + w.P.InstrPos(wit)
		}
		rr.At(w, a, "every path from registration to return deregisters the same key", ok, det)
		// the sender goroutine starts only after registration
		for _, b := range q.Blocks {
			for _, ins := range b.Instrs {
				g, isGo := ins.(*ssa.Go)
				if !isGo {
					continue
				}
				starts := false
				for _, e := range w.CG.SiteOut[g] {
					if len(w.CallsIn(e.Callee, sender, true)) > 0 {
						starts = true
					}
				}
				if !starts {
					continue
				}
				pre := PrecededBy(g, func(i ssa.Instruction) bool { return i == a })
				rr.At(w, g, "the first send happens after the transaction is registered (a fast reply cannot be lost)", pre, "")
			}
		}
	}
	for _, lc := range w.callsLifted(q, delT) {
		d := lc.Inner
		st := w.LK.StatesAt(mu, d)
		rr.At(w, d, "deregistration runs under Server.mu (write)", allHeld(st, true), "lock states "+statesString(st))
	}
}

// idIssuer finds the transaction-id issuer structurally: the concrete type of the package-level
// transactions.DefaultIdIssuer, its Issue method, the integer field that method advances (the
// counter) and, if there is one, the byte-array field it encodes into (C07-v1 renamed the type).
type idIssuerAnchors struct {
	typ   *types.Named
	issue *ssa.Function
	next  *types.Var
	buf   *types.Var // may be nil
}

func (w *World) idIssuer() *idIssuerAnchors {
	g := w.P.Global("transactions", "DefaultIdIssuer")
	t := g.Type().(*types.Pointer).Elem()
	nt, ok := t.(*types.Named)
	if !ok {
		broken("transactions.DefaultIdIssuer has no named concrete type (%s): the issuer cannot be identified", t)
	}
	a := &idIssuerAnchors{typ: nt}
	a.issue = w.P.Func("(*" + "transactions." + nt.Obj().Name() + ").Issue")
	st, ok := nt.Underlying().(*types.Struct)
	if !ok {
		broken("id issuer %s is not a struct", nt)
	}
	eachInstr([]*ssa.Function{a.issue}, func(_ *ssa.Function, ins ssa.Instruction) {
		if sto, ok := ins.(*ssa.Store); ok {
			if fv := fieldOfAddr(sto.Addr); fv != nil {
				if b, isB := fv.Type().Underlying().(*types.Basic); isB && b.Info()&types.IsInteger != 0 {
					a.next = fv
				}
			}
		}
	})
	for i := 0; i < st.NumFields(); i++ {
		if arr, isArr := st.Field(i).Type().Underlying().(*types.Array); isArr {
			if b, isB := arr.Elem().Underlying().(*types.Basic); isB && b.Kind() == types.Uint8 {
				a.buf = st.Field(i)
			}
		}
	}
	if a.next == nil {
		broken("id issuer %s: Issue advances no integer field", nt)
	}
	return a
}

func c07r4(w *World, rr *RuleRun) {
	w.LK.Run()
	ia := w.idIssuer()
	issue, next, buf := ia.issue, ia.next, ia.buf
	var imu *types.Var
	for _, c := range w.LK.Classes {
		if strings.Contains(w.LK.ClassName(c), ia.typ.Obj().Name()+".") {
			imu = c
		}
	}
	if imu == nil {
		rr.Oblige(shortFuncName(issue), "the id issuer has a mutex", w.P.Pos(issue.Pos()), false, "no mutex class")
		return
	}
	b, isBasic := next.Type().Underlying().(*types.Basic)
	rr.Oblige("transactions."+ia.typ.Obj().Name(), "the id counter is a 64-bit unsigned integer", "-", isBasic && b.Kind() == types.Uint64, next.Type().String())
	w.GuardedBy(rr, w.P.LibFuncs, next, imu, ia.typ.Obj().Name(), nil)
	if buf != nil {
		w.GuardedBy(rr, w.P.LibFuncs, buf, imu, ia.typ.Obj().Name(), nil)
	}
	// returned id = string(buf[:PutUvarint(buf[:], next)]) with next read before the increment
	for _, bb := range issue.Blocks {
		for _, ins := range bb.Instrs {
			ret, ok := ins.(*ssa.Return)
			if !ok || len(ret.Results) != 1 {
				continue
			}
			v := w.TS.Of(ret.Results[0])
			okEnc := false
			det := "returns " + trunc(v.String(), 200)
			if v.Op == OpConv && len(v.Args) == 1 && v.Args[0].Op == OpSlice {
				sl := v.Args[0]
				hi := sl.Args[2]
				if buf != nil && isFieldTerm(sl.Args[0], buf) && hi.Op == OpCall && suffixName(hi) == "PutUvarint" && len(hi.Args) == 2 && isFieldTerm(hi.Args[1], next) {
					okEnc = true
				}
			}
			rr.At(w, ins, "the id is the uvarint encoding of the counter value", okEnc, det)
		}
	}
	// increment by one, after the read that is encoded, same critical section
	var put, inc ssa.Instruction
	eachInstr([]*ssa.Function{issue}, func(_ *ssa.Function, ins ssa.Instruction) {
		if c := callInstrCommon(ins); c != nil {
			if o := calleeObj(c); o != nil && o.Name() == "PutUvarint" {
				put = ins
			}
		}
		if st, ok := ins.(*ssa.Store); ok && fieldOfAddr(st.Addr) == next {
			v := w.TS.Of(st.Val)
			if v.Op == OpBin && v.Name == "+" && isFieldTerm(v.Args[0], next) && v.Args[1].IsConst("1") {
				inc = ins
			}
		}
	})
	if put == nil || inc == nil {
		rr.Oblige(shortFuncName(issue), "Issue encodes the counter and increments it by one", w.P.Pos(issue.Pos()), false, fmt.Sprintf("encode found: %v, increment found: %v", put != nil, inc != nil))
	} else {
		ok, why := w.LK.SameCriticalSection(imu, put, inc)
		rr.At(w, inc, "the counter is read, encoded and incremented in one critical section", ok, why)
		post, _ := MustPass(put, func(i ssa.Instruction) bool { return i == inc })
		rr.At(w, inc, "every issued id is followed by an increment (no id is issued twice)", post, "")
	}
	// every outbound t comes from Issue()
	mqb := w.P.Func("(*Server).makeQueryBytes")
	nextTID := w.P.Func("(*Server).nextTransactionID")
	for _, e := range w.CG.CallersOf(mqb) {
		if !w.P.IsLib(e.Caller) {
			continue
		}
		c := callInstrCommon(e.Site)
		tv := c.Args[len(c.Args)-1]
		t := w.TS.Of(tv)
		fresh := isCall(t, nextTID) || isCall(t, issue)
		if !fresh {
			// the id read back from a key that a registration helper built and returned
			if ts := w.fieldThroughHelper(tv); len(ts) > 0 {
				fresh = true
				for _, x := range ts {
					if !isCall(x, nextTID) && !isCall(x, issue) {
						fresh = false
					}
				}
			}
		}
		rr.At(w, e.Site, "the t of an outbound query is a freshly issued id", fresh, "t ← "+trunc(t.String(), 120))
	}
	for _, bb := range nextTID.Blocks {
		for _, ins := range bb.Instrs {
			if ret, ok := ins.(*ssa.Return); ok {
				v := w.TS.Of(ret.Results[0])
				rr.At(w, ins, "nextTransactionID returns Issue()", isCall(v, issue), "returns "+trunc(v.String(), 120))
			}
		}
	}
}

func c07r5(w *World, rr *RuleRun) {
	q := w.P.Func("(*Server).Query")
	onResp := w.P.Field("", "transaction", "onResponse")
	n := 0
	for _, ins := range w.FieldWrites(w.P.LibFuncs, onResp) {
		st, ok := ins.(*ssa.Store)
		if !ok {
			continue
		}
		for _, cl := range w.CG.FuncsOf(st.Val) {
			for _, b := range cl.Blocks {
				for _, si := range b.Instrs {
					snd, ok := si.(*ssa.Send)
					if !ok {
						continue
					}
					n++
					// the channel operand resolves to a MakeChan of the enclosing Query call
					ch := w.TS.Of(snd.Chan)
					var mk *ssa.MakeChan
					if ch.Op == OpOpaque {
						mk, _ = ch.Obj.(*ssa.MakeChan)
					}
					okFresh := mk != nil && mk.Parent() == q && !blockInCycle(mk.Block())
					capOK := false
					capS := "?"
					if mk != nil {
						if c, isC := ConstInt(mk.Size); isC {
							capS = fmt.Sprint(c)
							capOK = c >= 1
						}
					}
					rr.At(w, si, "the reply is handed over on a channel created by this very Query call", okFresh, "channel "+trunc(ch.String(), 100))
					rr.At(w, si, "the reply channel has constant capacity ≥ 1 (the delivering goroutine never blocks)", capOK, "capacity "+capS)
				}
			}
		}
	}
	if n == 0 {
		rr.Oblige(shortFuncName(q), "onResponse hands the reply over on a channel", w.P.Pos(q.Pos()), false, "no send found in the onResponse closure")
	}
}

func c07r6(w *World, rr *RuleRun) {
	pp := w.P.Func("(*Server).processPacket")
	readFrom := w.P.ExtMethod("net", "PacketConn", "ReadFrom")
	for _, e := range w.CG.CallersOf(pp) {
		if !w.P.IsLib(e.Caller) {
			continue
		}
		rr.At(w, e.Site, "processPacket runs synchronously in the read loop (the shared read buffer is not reused before the datagram is consumed)", e.Mode == ModeSync, "call mode "+e.Mode.String())
		c := callInstrCommon(e.Site)
		b := w.TS.Of(c.Args[1])
		a := w.TS.Of(c.Args[2])
		// b[:n] with n = ReadFrom#0 ; NewAddr(ReadFrom#1) of the same call
		var rfB, rfA *Term
		if b.Op == OpSlice {
			x, i := stripExtract(b.Args[2])
			if i == 0 && isCall(x, readFrom) {
				rfB = x
			}
		}
		if a.Op == OpCall && len(a.Args) == 1 {
			x, i := stripExtract(a.Args[0])
			if i == 1 && isCall(x, readFrom) {
				rfA = x
			}
		}
		rr.At(w, e.Site, "payload length and source address come from the same ReadFrom", rfB != nil && rfA != nil && termEq(rfB, rfA), "payload "+trunc(b.String(), 100)+" source "+trunc(a.String(), 100))
	}
}

// fieldThroughHelper: v loads field f of a local struct whose only assignment is the result of a
// module helper; returns the terms the helper stores into f of the value it returns.
func (w *World) fieldThroughHelper(v ssa.Value) []*Term {
	var fa *ssa.FieldAddr
	switch x := v.(type) {
	case *ssa.UnOp:
		fa, _ = x.X.(*ssa.FieldAddr)
		src := x.X
		if fv, ok := src.(*ssa.FreeVar); ok {
			if b, ok := w.TS.fvBind[fv]; ok {
				src = b
			}
		}
		if al, ok := src.(*ssa.Alloc); ok && fa == nil {
			// single-assignment local holding the loaded field
			if al.Referrers() != nil {
				for _, r := range *al.Referrers() {
					if st, ok := r.(*ssa.Store); ok && st.Addr == ssa.Value(al) {
						return w.fieldThroughHelper(st.Val)
					}
				}
			}
			return nil
		}
	case *ssa.Field:
		if c, ok := x.X.(*ssa.Call); ok {
			vals, _, ok := w.localKeyFields(c, c)
			if ok {
				st := x.X.Type().Underlying().(*types.Struct)
				return vals[st.Field(x.Field).Name()]
			}
		}
		return nil
	}
	if fa == nil {
		return nil
	}
	al, ok := fa.X.(*ssa.Alloc)
	if !ok || al.Referrers() == nil {
		return nil
	}
	for _, r := range *al.Referrers() {
		if st, ok := r.(*ssa.Store); ok && st.Addr == ssa.Value(al) {
			if c, ok := st.Val.(*ssa.Call); ok {
				vals, _, ok := w.localKeyFields(c, c)
				if ok {
					stt := al.Type().Underlying().(*types.Pointer).Elem().Underlying().(*types.Struct)
					return vals[stt.Field(fa.Field).Name()]
				}
			}
		}
	}
	return nil
}

// c07r7: bencode.Unmarshal leaves absent keys untouched, so the decode target must start from the
// zero value for every datagram: a local of the function that decodes, not a parameter, field or
// captured variable that outlives the call.
func c07r7(w *World, rr *RuleRun) {
	pp := w.P.Func("(*Server).processPacket")
	unm := w.P.ExtFunc("github.com/anacrolix/torrent/bencode", "Unmarshal")
	msgT := w.P.NamedType("krpc", "Msg")
	n := 0
	for _, f := range w.regionFuncs(pp) {
		for _, site := range w.CallsIn(f, unm, false) {
			c := callInstrCommon(site)
			if len(c.Args) != 2 {
				continue
			}
			v := c.Args[1]
			if mi, ok := v.(*ssa.MakeInterface); ok {
				v = mi.X
			}
			pt, ok := v.Type().Underlying().(*types.Pointer)
			if !ok || !types.Identical(pt.Elem(), msgT) {
				continue
			}
			n++
			al, isAlloc := v.(*ssa.Alloc)
			fresh := isAlloc && al.Parent() == site.Parent()
			// and not written before the decode (a literal with preset fields would be fine, a reused one not)
			rr.At(w, site, "the datagram is decoded into a fresh krpc.Msg local to the decoding call", fresh, "target "+trunc(w.TS.Of(c.Args[1]).String(), 80))
		}
	}
	if n == 0 {
		rr.Oblige(shortFuncName(pp), "the datagram is decoded into a fresh krpc.Msg local to the decoding call", w.P.Pos(pp.Pos()), false, "no bencode.Unmarshal into a krpc.Msg on the packet path")
	}
}

// c07r8: the transaction lookup in the packet path happens only for messages that are not queries.
func c07r8(w *World, rr *RuleRun) {
	pp := w.P.Func("(*Server).processPacket")
	msgY := w.P.Field("krpc", "Msg", "Y")
	n := 0
	for _, f := range w.regionFuncs(pp) {
		eachInstr([]*ssa.Function{f}, func(_ *ssa.Function, ins ssa.Instruction) {
			c := callInstrCommon(ins)
			if c == nil || c.StaticCallee() == nil {
				return
			}
			name := shortFuncName(c.StaticCallee())
			// every dispatcher method that looks a key up (all but the counter)
			if !strings.HasPrefix(name, "(*transactions.Dispatcher[") || strings.Contains(name, "NumActive") || len(c.Args) < 2 {
				return
			}
			n++
			w.Require(rr, ins, "the transaction table is consulted only for a message that is not a query", func(alt *Alt) (bool, string) {
				if alt.Has("b", false, func(x *Term) bool {
					return x.Op == OpBin && x.Name == "==" && ((isFieldTerm(x.Args[0], msgY) && x.Args[1].IsConst(`"q"`)) || (isFieldTerm(x.Args[1], msgY) && x.Args[0].IsConst(`"q"`)))
				}) {
					return true, `y ≠ "q"`
				}
				return false, `no (y ≠ "q") fact: a query can be swallowed as the response to an outstanding transaction`
			})
		})
	}
	if n == 0 {
		rr.Oblige(shortFuncName(pp), "the transaction table is consulted only for a message that is not a query", w.P.Pos(pp.Pos()), false, "no dispatcher lookup on the packet path")
	}
}
