package main

import (
	"fmt"
	"go/token"
	"go/types"
	"sort"
	"strings"

	"golang.org/x/tools/go/ssa"
)

func init() {
	register(&Property{
		ID:    "C03",
		Title: "Lookups terminate, and only when nothing closer is left to ask",
		Decided: "C03.1 condition-variable protocol for every chansync.BroadcastCond field (Operation.cond, bucket.changed): the wake-up channel is obtained with Signaled() while the guarding mutex is held, in the same critical section as every read of waiter-visible state that leads to it, and is awaited only with that mutex released; " +
			"C03.2 every write of a waiter-visible field (outstanding, unqueried, closest) outside the waiting loop's own call tree is followed on every path, within its goroutine, by a Broadcast on the condition; the release of the in-flight slot (outstanding--) is the last waiter-visible effect of a query goroutine; " +
			"C03.3 the stalled signal is armed only under outstanding = 0 ∧ (no candidate qualifies ∨ Alpha = 0), evaluated in the critical section that takes the wake-up channel; " +
			"C03.5 the candidate predicate: haveQuery() is false only when the frontier is empty, or the result set is full and the nearest candidate has no ID or is strictly farther than the farthest member (distance of candidate ID vs distance of Farthest().ID to the lookup target, compared with Cmp); it is true only when the frontier is non-empty; the candidate examined is the frontier's Next() element, which is also the one popped; " +
			"C03.4 Stop completes: stopped.Set() is deferred at the top of the stop goroutine, which leaves its loop only under outstanding = 0; every started query goroutine decrements outstanding on every path (deferred), and outstanding is incremented before the goroutine is started. C03.11 every contact named in a reply is offered to the frontier: after DoQuery returns both contact lists of the result reach AddNodes on every path, the converter and AddNodes step through their input element by element (no reslice, no branch besides the loop test), and the library adaptor passes the reply lists on whole.",
		NotDecided: "finiteness of the query sequence (needs C04.3 plus a finite address universe), the arithmetic of the stall predicate inside haveQuery ('no farther than the farthest member', value level), scheduler fairness and timing.",
		Assume: []string{
			"chansync.BroadcastCond: Signaled() returns a channel closed by the next Broadcast(); LevelTrigger.Signal() returns the channel observers receive from",
		},
		Rules: []*Rule{
			{ID: "C03.1", Doc: "wake-up channel taken under the lock, awaited outside it", Floor: 8, Run: c03r1},
			{ID: "C03.2", Doc: "waiter-visible writes are broadcast; in-flight slot released last", Floor: 5, Run: c03r2},
			{ID: "C03.3", Doc: "stalled armed only when nothing is in flight and nothing qualifies", Floor: 2, Run: c03r3},
			{ID: "C03.4", Doc: "Stop completes", Floor: 5, Run: c03r4},
			{ID: "C03.5", Doc: "who may be left unqueried at stall", Floor: 4, Run: c03r5},
			{ID: "C03.10", Doc: "a learned contact is kept out of the frontier only because it was already queried or the node filter rejected it, and leaves the frontier only by being popped for its query", Floor: 3, Run: c03r10},
			{ID: "C03.11", Doc: "every contact named in a reply is offered to the frontier: both lists of the query result reach AddNodes on every path, through element-by-element conversion and iteration (no cap, no filter on the way)", Floor: 5, Run: c03r11},
			{ID: "C03.9", Doc: "an address is marked as queried only when its query is started: every insertion into the queried set is followed, on every path, by the start of the query goroutine", Floor: 1, Run: c03r9},
			{ID: "C03.8", Doc: "the run loop goes to sleep only after re-testing whether another query can be started: between starting a query and the wait it always re-evaluates outstanding < Alpha", Floor: 1, Run: c03r8},
			{ID: "C03.7", Doc: "the frontier's order is total on distinct contacts, so no learned contact is dropped as a duplicate of another (shared with C18.3)", Floor: 4, Run: c18r3},
			{ID: "C03.6", Doc: "no address is queried twice (finiteness of the query sequence; shared with C04.3)", Floor: 3, Run: c04r3},
		},
	})
}

// ownerFieldsOf: non-synchronisation fields of the struct that owns cond.
func (w *World) ownerStructOf(fv *types.Var) (*types.Struct, string) {
	for _, pk := range w.P.Pkgs {
		sc := pk.Types.Scope()
		for _, n := range sc.Names() {
			tn, ok := sc.Lookup(n).(*types.TypeName)
			if !ok {
				continue
			}
			st, ok := tn.Type().Underlying().(*types.Struct)
			if !ok {
				continue
			}
			for i := 0; i < st.NumFields(); i++ {
				if st.Field(i) == fv {
					return st, tn.Name()
				}
			}
		}
	}
	return nil, ""
}

func isSyncType(t types.Type) bool {
	n, ok := types.Unalias(t).(*types.Named)
	if !ok || n.Obj().Pkg() == nil {
		return false
	}
	p := n.Obj().Pkg().Path()
	return p == "sync" || strings.HasSuffix(p, "anacrolix/sync") || strings.HasSuffix(p, "anacrolix/chansync") || p == "sync/atomic"
}

// stateFields: the owner's fields that carry state (everything but mutexes/conds/events).
func stateFields(st *types.Struct) map[*types.Var]bool {
	out := map[*types.Var]bool{}
	for i := 0; i < st.NumFields(); i++ {
		f := st.Field(i)
		if !isSyncType(f.Type()) {
			out[f] = true
		}
	}
	return out
}

// waiterReads: instructions of fn (not its closures) that read state fields of the owner, directly
// or through synchronous module callees, and from which site is reachable.
func (w *World) waiterReads(fn *ssa.Function, fields map[*types.Var]bool, site ssa.Instruction, le *LockEngine) []ssa.Instruction {
	var out []ssa.Instruction
	for _, b := range fn.Blocks {
		for i, ins := range b.Instrs {
			if ins == site {
				continue
			}
			if fv := w.readsAnyField(ins, fields); fv != nil {
				// decisive reads: those executed on every path to the site (they dominate it)
				dom := (b == site.Block() && i < instrIndex(site)) || (b != site.Block() && b.Dominates(site.Block()))
				if dom && le.canReach(b, i+1, site) {
					out = append(out, ins)
				}
			}
		}
	}
	return out
}

// channelUses: receives / select states that wait on the channel value ch.
func channelWaits(ch ssa.Value) []ssa.Instruction {
	var out []ssa.Instruction
	seen := map[ssa.Value]bool{}
	var visit func(v ssa.Value)
	visit = func(v ssa.Value) {
		if seen[v] || v.Referrers() == nil {
			return
		}
		seen[v] = true
		for _, r := range *v.Referrers() {
			switch x := r.(type) {
			case *ssa.UnOp:
				if x.Op == token.ARROW {
					out = append(out, x)
				}
			case *ssa.Select:
				out = append(out, x)
			case *ssa.Phi:
				visit(x)
			case *ssa.ChangeType:
				visit(x)
			case *ssa.MakeInterface:
				visit(x)
			case *ssa.Store:
				// stored into a local cell: follow loads of the cell
				if al, ok := x.Addr.(*ssa.Alloc); ok && al.Referrers() != nil {
					for _, r2 := range *al.Referrers() {
						if ld, ok := r2.(*ssa.UnOp); ok && ld.Op == token.MUL {
							visit(ld)
						}
					}
				}
			}
		}
	}
	visit(ch)
	return out
}

func c03r1(w *World, rr *RuleRun) {
	w.LK.Run()
	conds := w.broadcastCondFields()
	var names []string
	for _, cond := range conds {
		st, owner := w.ownerStructOf(cond)
		cname := owner + "." + cond.Name()
		names = append(names, cname)
		class, why := w.guardClassOf(cond)
		if class == nil {
			rr.Oblige(cname, "condition has one guarding mutex (held at every Broadcast)", "-", false, why)
			continue
		}
		rr.Oblige(cname, "condition has one guarding mutex (held at every Broadcast)", "-", true, "guarded by "+w.LK.ClassName(class))
		fields := stateFields(st)
		for _, sig := range w.condCalls(cond, "Signaled") {
			held := w.LK.StatesAt(class, sig)
			rr.At(w, sig, cname+".Signaled() is called with "+w.LK.ClassName(class)+" held", allHeld(held, false), "lock states "+statesString(held))
			// every read of waiter-visible state that leads here is in the same critical section
			fn := sig.Parent()
			for _, r := range w.waiterReads(fn, fields, sig, w.LK) {
				ok, why := w.LK.SameCriticalSection(class, r, sig)
				rr.At(w, r, "state read leading to "+cname+".Signaled() is in the same critical section", ok, why)
			}
			// the returned channel is awaited only with the lock released
			v, _ := sig.(ssa.Value)
			waits := channelWaits(v)
			if len(waits) == 0 {
				rr.At(w, sig, "the wake-up channel of "+cname+" is awaited", false, "no receive/select on the channel returned by Signaled()")
			}
			for _, wt := range waits {
				stt := w.LK.StatesAt(class, wt)
				ok := len(stt) == 1 && stt[LS0]
				rr.At(w, wt, "wake-up channel of "+cname+" awaited with "+w.LK.ClassName(class)+" released", ok, "lock states "+statesString(stt))
				ok2, why2 := w.LK.releasedBetween(class, sig, wt)
				rr.At(w, wt, "the lock is released only after Signaled() (between taking the channel and waiting on it)", ok2, why2)
			}
		}
	}
	rr.rep.Extra["broadcast_conditions"] = names
}

// releasedBetween: every path from a to b passes a release of the class (so a ran while the lock was
// held and the release came afterwards).
func (le *LockEngine) releasedBetween(c *types.Var, a, b ssa.Instruction) (bool, string) {
	if a.Parent() != b.Parent() {
		return false, "different functions"
	}
	// search from a to b avoiding releases; reaching b means a path without release
	seen := map[*ssa.BasicBlock]bool{}
	found := false
	var walk func(blk *ssa.BasicBlock, idx int)
	walk = func(blk *ssa.BasicBlock, idx int) {
		for i := idx; i < len(blk.Instrs); i++ {
			ins := blk.Instrs[i]
			if ins == b {
				found = true
				return
			}
			if le.releasesClass(c, ins) {
				return
			}
		}
		for _, s := range blk.Succs {
			if !seen[s] {
				seen[s] = true
				walk(s, 0)
			}
		}
	}
	walk(a.Block(), instrIndex(a)+1)
	if found {
		return false, "a path from Signaled() to the wait does not release the lock"
	}
	return true, "every path releases the lock in between"
}

func c03r2(w *World, rr *RuleRun) {
	t := w.trav()
	w.LK.Run()
	waiterFields := map[*types.Var]bool{t.outstanding: true, t.unqueried: true, t.closest: true}
	// the waiting loop's own call tree (synchronous), where writes need no broadcast
	own := w.CG.Reach([]*ssa.Function{t.run}, func(e *Edge) bool { return e.Mode != ModeGo })
	isB := func(ins ssa.Instruction) bool { return w.isBroadcastOn(ins, t.cond, 0) }
	var broadcastAfter func(site ssa.Instruction, depth int, trail []string) (bool, string)
	broadcastAfter = func(site ssa.Instruction, depth int, trail []string) (bool, string) {
		fn := site.Parent()
		trail = append(trail, shortFuncName(fn))
		if isB(site) {
			return true, "broadcast at the site"
		}
		if ok, _ := MustPass(site, isB); ok {
			return true, "followed by Broadcast in " + shortFuncName(fn)
		}
		if depth > 4 {
			return false, "no Broadcast within 4 call levels: " + strings.Join(trail, " ← ")
		}
		callers := 0
		for _, e := range w.CG.CallersOf(fn) {
			if e.Callback || !w.P.IsLib(e.Caller) {
				continue
			}
			callers++
			if e.Mode == ModeGo {
				return false, "goroutine " + shortFuncName(fn) + " ends without Broadcast after the write: " + strings.Join(trail, " ← ")
			}
			if _, inOwn := own[e.Caller]; inOwn && e.Caller != fn {
				continue // executed by the waiting loop itself
			}
			if ok, why := broadcastAfter(e.Site, depth+1, trail); !ok {
				return false, why
			}
		}
		if callers == 0 {
			return false, "entry point " + shortFuncName(fn) + " returns without Broadcast after the write"
		}
		return true, "every caller broadcasts afterwards (" + strings.Join(trail, " ← ") + ")"
	}
	var fvs []*types.Var
	for fv := range waiterFields {
		fvs = append(fvs, fv)
	}
	sort.Slice(fvs, func(i, j int) bool { return fvs[i].Name() < fvs[j].Name() })
	for _, fv := range fvs {
		for _, a := range w.FieldAccesses(w.P.LibFuncs, fv) {
			if !a.Write || a.Fresh {
				continue
			}
			fn := a.Ins.Parent()
			if _, inOwn := own[fn]; inOwn {
				rr.ObligeTrivialAt(w, a.Ins, "write of Operation."+fv.Name()+" by the waiting loop's own call tree", true, "no wake-up needed: the writer is the waiter")
				continue
			}
			ok, why := broadcastAfter(a.Ins, 0, nil)
			rr.At(w, a.Ins, "write of Operation."+fv.Name()+" is followed by cond.Broadcast() on every path of its goroutine", ok, why)
		}
	}
	// the in-flight slot is released last: after a decrement of outstanding nothing in the same goroutine
	// writes another waiter-visible field
	others := map[*types.Var]bool{t.unqueried: true, t.closest: true}
	var nothingAfter func(site ssa.Instruction, viaDefer bool, depth int) (bool, string)
	nothingAfter = func(site ssa.Instruction, viaDefer bool, depth int) (bool, string) {
		fn := site.Parent()
		if !viaDefer {
			for _, ins := range instrsAfter(site) {
				if ins == site {
					continue
				}
				if fv := w.writesAnyField(ins, others); fv != nil {
					return false, fmt.Sprintf("%s may write Operation.%s after the slot was released (%s)", shortFuncName(fn), fv.Name(), w.P.InstrPos(ins))
				}
			}
		} else {
			// deferred call: runs at exit; defers registered before it run after it
			for _, b := range fn.Blocks {
				for _, ins := range b.Instrs {
					d, ok := ins.(*ssa.Defer)
					if !ok || ssa.Instruction(d) == site {
						continue
					}
					if b == site.Block() && instrIndex(d) > instrIndex(site) {
						continue
					}
					if b != site.Block() && !b.Dominates(site.Block()) {
						continue
					}
					if fv := w.writesAnyField(d, others); fv != nil {
						return false, fmt.Sprintf("a defer registered earlier in %s writes Operation.%s after the slot was released", shortFuncName(fn), fv.Name())
					}
				}
			}
		}
		if depth > 4 {
			return true, ""
		}
		for _, e := range w.CG.CallersOf(fn) {
			if e.Callback || e.Mode == ModeGo || !w.P.IsLib(e.Caller) {
				continue
			}
			if ok, why := nothingAfter(e.Site, e.Mode == ModeDefer, depth+1); !ok {
				return false, why
			}
		}
		return true, "no later write of unqueried/closest in the goroutine"
	}
	for _, a := range w.FieldAccesses(w.P.LibFuncs, t.outstanding) {
		st, ok := a.Ins.(*ssa.Store)
		if !ok || a.Fresh {
			continue
		}
		v := w.TS.Of(st.Val)
		if !(v.Op == OpBin && v.Name == "-" && isFieldTerm(v.Args[0], t.outstanding)) {
			continue
		}
		ok2, why := nothingAfter(a.Ins, false, 0)
		rr.At(w, a.Ins, "outstanding-- is the last waiter-visible effect of the query goroutine", ok2, why)
	}
}

func c03r3(w *World, rr *RuleRun) {
	t := w.trav()
	w.LK.Run()
	haveQuery := w.P.Func("(*traversal.Operation).haveQuery")
	n := 0
	eachInstr(w.P.LibFuncs, func(fn *ssa.Function, ins ssa.Instruction) {
		c := callInstrCommon(ins)
		if c == nil || c.IsInvoke() || len(c.Args) == 0 || !isChansyncMethod(c, "LevelTrigger", "Signal") || fieldOfAddr(c.Args[0]) != t.stalled {
			return
		}
		v, isV := ins.(ssa.Value)
		if !isV {
			return // deferred close(Signal()) etc.
		}
		// is the channel sent on in a select?
		sent := false
		for _, wt := range channelWaits(v) {
			if sel, ok := wt.(*ssa.Select); ok {
				for _, s := range sel.States {
					if s.Dir == types.SendOnly {
						sent = true
					}
				}
			}
		}
		if !sent {
			return
		}
		n++
		w.Require(rr, ins, "stalled is armed only under outstanding = 0 ∧ (haveQuery() = false ∨ Alpha = 0)", func(alt *Alt) (bool, string) {
			zero := alt.Has("b", true, func(x *Term) bool {
				return x.Op == OpBin && x.Name == "==" && ((x.Args[0].IsConst("0") && isFieldTerm(x.Args[1], t.outstanding)) || (x.Args[1].IsConst("0") && isFieldTerm(x.Args[0], t.outstanding)))
			})
			noQuery := alt.Has("b", false, func(x *Term) bool { return isCall(x, haveQuery) })
			alpha0 := alt.Has("b", true, func(x *Term) bool {
				return x.Op == OpBin && x.Name == "==" && ((x.Args[0].IsConst("0") && isFieldTerm(x.Args[1], t.alpha)) || (x.Args[1].IsConst("0") && isFieldTerm(x.Args[0], t.alpha)))
			})
			if !zero {
				return false, "no outstanding == 0 fact: queries may still be in flight when the lookup reports stalled"
			}
			if !noQuery && !alpha0 {
				return false, "neither haveQuery() = false nor Alpha == 0: a qualifying candidate may be left unqueried"
			}
			return true, fmt.Sprintf("outstanding=0, haveQuery=false:%v, Alpha=0:%v", noQuery, alpha0)
		})
		// same critical section as the wake-up channel
		for _, sig := range w.condCalls(t.cond, "Signaled") {
			if sig.Parent() != fn {
				continue
			}
			ok, why := w.LK.SameCriticalSection(t.mu, ins, sig)
			if !ok {
				// the wake-up channel may equally be taken first
				ok, why = w.LK.SameCriticalSection(t.mu, sig, ins)
			}
			rr.At(w, ins, "the stall decision and cond.Signaled() are in one critical section", ok, why)
		}
		st, _ := w.ownerStructOf(t.cond)
		for _, r := range w.waiterReads(fn, stateFields(st), ins, w.LK) {
			ok, why := w.LK.SameCriticalSection(t.mu, r, ins)
			if !ok {
				rr.At(w, r, "state read leading to the stall decision is in the same critical section", false, why)
			}
		}
	})
	if n == 0 {
		rr.Oblige("traversal", "a stalled signal offered in a select exists", "-", false, "no LevelTrigger.Signal() of Operation.stalled flows into a select send")
	}
}

func c03r4(w *World, rr *RuleRun) {
	t := w.trav()
	// Stop: the goroutine that waits for outstanding == 0 sets stopped on every exit (deferred)
	isSet := func(fv *types.Var) func(ssa.Instruction) bool {
		return func(ins ssa.Instruction) bool {
			c := callInstrCommon(ins)
			return c != nil && !c.IsInvoke() && len(c.Args) > 0 && isChansyncMethod(c, "SetOnce", "Set") && fieldOfAddr(c.Args[0]) == fv
		}
	}
	var setters []ssa.Instruction
	eachInstr(w.P.LibFuncs, func(fn *ssa.Function, ins ssa.Instruction) {
		if isSet(t.stopped)(ins) {
			setters = append(setters, ins)
		}
	})
	if len(setters) == 0 {
		rr.Oblige("traversal", "stopped.Set() exists", "-", false, "no call")
	}
	for _, s := range setters {
		fn := s.Parent()
		first := fn.Blocks[0].Instrs[0]
		ok := isSet(t.stopped)(first)
		if !ok {
			ok, _ = MustPass(first, isSet(t.stopped))
		}
		rr.At(w, s, "stopped.Set() is reached on every exit of the stop goroutine", ok, "in "+shortFuncName(fn))
		// leaves only under outstanding == 0
		ff := w.FE.analysisFor(fn)
		for _, ex := range ff.exits {
			okz := len(ex.st) > 0
			for _, alt := range ex.st {
				if !alt.Has("b", true, func(x *Term) bool {
					return x.Op == OpBin && x.Name == "==" && ((x.Args[0].IsConst("0") && isFieldTerm(x.Args[1], t.outstanding)) || (x.Args[1].IsConst("0") && isFieldTerm(x.Args[0], t.outstanding)))
				}) {
					okz = false
				}
			}
			rr.At(w, ex.ret, "the stop goroutine finishes only under outstanding = 0", okz, "exit facts "+trunc(ex.st.String(), 200))
		}
		// started exactly when stopping is first set
		for _, e := range w.CG.CallersOf(fn) {
			if e.Mode != ModeGo {
				continue
			}
			w.Require(rr, e.Site, "the stop goroutine is started once, by the caller that set stopping", func(alt *Alt) (bool, string) {
				if alt.Has("b", true, func(x *Term) bool { return x.Op == OpCall && suffixName(x) == "Set" && hasFieldAnywhere(x, t.stopping) }) {
					return true, "stopping.Set() = true"
				}
				return false, "not guarded by stopping.Set()"
			})
		}
	}
	// increments precede the go; the started goroutine decrements on every path
	isDec := func(ins ssa.Instruction) bool {
		var check func(ins ssa.Instruction, d int) bool
		check = func(ins ssa.Instruction, d int) bool {
			if st, ok := ins.(*ssa.Store); ok && fieldOfAddr(st.Addr) == t.outstanding {
				v := w.TS.Of(st.Val)
				return v.Op == OpBin && v.Name == "-" && isFieldTerm(v.Args[0], t.outstanding) && v.Args[1].IsConst("1")
			}
			if d > 2 {
				return false
			}
			if c := callInstrCommon(ins); c != nil {
				if _, isGo := ins.(*ssa.Go); isGo {
					return false
				}
				es := w.CG.SiteOut[ins]
				if len(es) != 1 {
					return false
				}
				g := es[0].Callee
				if len(g.Blocks) == 0 {
					return false
				}
				first := g.Blocks[0].Instrs[0]
				if check(first, d+1) {
					return true
				}
				ok, _ := MustPass(first, func(i ssa.Instruction) bool { return check(i, d+1) })
				return ok
			}
			return false
		}
		return check(ins, 0)
	}
	incs := 0
	for _, a := range w.FieldAccesses(w.P.LibFuncs, t.outstanding) {
		st, ok := a.Ins.(*ssa.Store)
		if !ok || a.Fresh {
			continue
		}
		v := w.TS.Of(st.Val)
		if !(v.Op == OpBin && v.Name == "+" && isFieldTerm(v.Args[0], t.outstanding)) {
			continue
		}
		incs++
		rr.At(w, a.Ins, "outstanding is incremented by exactly one", v.Args[1].IsConst("1"), "stored "+v.String())
		// a goroutine is started afterwards on every path, and it decrements on every path
		var goIns ssa.Instruction
		okGo, _ := MustPass(a.Ins, func(i ssa.Instruction) bool {
			if _, isGo := i.(*ssa.Go); isGo {
				goIns = i
				return true
			}
			return false
		})
		rr.At(w, a.Ins, "every increment of outstanding is followed by the start of a query goroutine", okGo, "")
		if goIns != nil {
			for _, e := range w.CG.SiteOut[goIns] {
				g := e.Callee
				first := g.Blocks[0].Instrs[0]
				ok := isDec(first)
				if !ok {
					ok, _ = MustPass(first, isDec)
				}
				rr.At(w, goIns, "the query goroutine releases its slot (outstanding--) on every path", ok, "goroutine "+shortFuncName(g))
			}
		}
	}
	if incs == 0 {
		rr.Oblige("traversal", "outstanding is incremented somewhere", "-", false, "no increment found")
	}
}

// c03r5: the shape of the stall predicate (who may be left unqueried).
func c03r5(w *World, rr *RuleRun) {
	t := w.trav()
	hq := w.P.Func("(*traversal.Operation).haveQuery")
	idF := w.P.Field("types", "AddrMaybeId", "Id")
	target := w.P.Field("traversal", "Operation", "targetInt160")
	isLenZero := func(x *Term) bool {
		if x.Op != OpBin || x.Name != "==" {
			return false
		}
		for i := 0; i < 2; i++ {
			if x.Args[i].IsConst("0") && x.Args[1-i].Op == OpCall && suffixName(x.Args[1-i]) == "Len" && hasFieldAnywhere(x.Args[1-i], t.unqueried) {
				return true
			}
		}
		return false
	}
	// candidate term: closestUnqueried(op) or Next(op.unqueried)
	isCand := func(x *Term) bool {
		if x.Op != OpCall {
			return false
		}
		if suffixName(x) == "Next" && hasFieldAnywhere(x, t.unqueried) {
			return true
		}
		if g := w.FE.calleeFunc(x); g != nil {
			// helper returning Next(op.unqueried)
			for _, b := range g.Blocks {
				for _, ins := range b.Instrs {
					if ret, ok := ins.(*ssa.Return); ok && len(ret.Results) == 1 {
						rt := w.TS.Of(ret.Results[0])
						if rt.Op == OpCall && suffixName(rt) == "Next" && hasFieldAnywhere(rt, t.unqueried) {
							return true
						}
					}
				}
			}
		}
		return false
	}
	candDist := func(x *Term) bool { // Distance(cand.Id.Value, target)
		return x.Op == OpCall && suffixName(x) == "Distance" && len(x.Args) == 2 && hasFieldAnywhere(x.Args[1], target) &&
			hasFieldAnywhere(x.Args[0], idF) && strings.Contains(x.Args[0].String(), ".Value") && anySub(x.Args[0], isCand)
	}
	farDist := func(x *Term) bool { // Distance(Int160(Farthest(closest).ID), target)
		return x.Op == OpCall && suffixName(x) == "Distance" && len(x.Args) == 2 && hasFieldAnywhere(x.Args[1], target) &&
			anySub(x.Args[0], func(y *Term) bool {
				return isCall(y, t.farthest) && len(y.Args) == 1 && isFieldTerm(y.Args[0], t.closest)
			})
	}
	farther := func(alt *Alt) bool { // 0 < Cmp(candDist, farDist)  or  Cmp(farDist, candDist) < 0
		return alt.Has("b", true, func(x *Term) bool {
			if x.Op != OpBin || x.Name != "<" {
				return false
			}
			if x.Args[0].IsConst("0") {
				if a, b, ok := threeWay(x.Args[1]); ok && candDist(a) && farDist(b) {
					return true
				}
			}
			if x.Args[1].IsConst("0") {
				if a, b, ok := threeWay(x.Args[0]); ok && farDist(a) && candDist(b) {
					return true
				}
			}
			return false
		})
	}
	full := func(alt *Alt) bool {
		return alt.Has("b", true, func(x *Term) bool { return isCall(x, t.full) && len(x.Args) == 1 && isFieldTerm(x.Args[0], t.closest) })
	}
	noID := func(alt *Alt) bool {
		return alt.Has("b", false, func(x *Term) bool {
			return x.Op == OpField && x.Name == "Ok" && isFieldTerm(x.Args[0], idF) && anySub(x, isCand)
		})
	}
	sumF := w.FE.Summary(hq, 0, "false", 0)
	if len(sumF) == 0 {
		rr.Oblige(shortFuncName(hq), "haveQuery can report that no candidate qualifies", w.P.Pos(hq.Pos()), false, "empty false-class")
	}
	for i, alt := range sumF {
		var ok bool
		var why string
		switch {
		case alt.Has("b", true, isLenZero):
			ok, why = true, "frontier empty"
		case full(alt) && noID(alt):
			ok, why = true, "result set full and the nearest candidate has no ID"
		case full(alt) && farther(alt):
			ok, why = true, "result set full and the nearest candidate is strictly farther than the farthest member"
		default:
			why = "a candidate may be declared unqualified outside the three allowed cases: {" + trunc(strings.Join(alt.Facts(), " ∧ "), 500) + "}"
		}
		rr.Oblige(shortFuncName(hq), fmt.Sprintf("haveQuery()=false case %d is one of: frontier empty / full ∧ no ID / full ∧ strictly farther", i+1), w.P.Pos(hq.Pos()), ok, why)
	}
	sumT := w.FE.Summary(hq, 0, "true", 0)
	for i, alt := range sumT {
		ok := alt.Has("b", false, isLenZero)
		rr.Oblige(shortFuncName(hq), fmt.Sprintf("haveQuery()=true case %d implies a non-empty frontier", i+1), w.P.Pos(hq.Pos()), ok, "{"+trunc(strings.Join(alt.Facts(), " ∧ "), 300)+"}")
	}
	// the element popped for querying is the same Next() element, and it is deleted from the frontier
	pop := w.P.FuncOpt("(*traversal.Operation).popClosestUnqueried")
	if pop != nil {
		for _, b := range pop.Blocks {
			for _, ins := range b.Instrs {
				ret, ok := ins.(*ssa.Return)
				if !ok || len(ret.Results) != 1 {
					continue
				}
				rt := w.TS.Of(ret.Results[0])
				rr.At(w, ins, "the popped candidate is the frontier's nearest element (Next)", isCand(rt), "returns "+trunc(rt.String(), 160))
				del := PrecededBy(ins, func(i ssa.Instruction) bool {
					st, ok := i.(*ssa.Store)
					if !ok || fieldOfAddr(st.Addr) != t.unqueried {
						return false
					}
					v := w.TS.Of(st.Val)
					return v.Op == OpCall && suffixName(v) == "Delete" && len(v.Args) == 2 && termEq(v.Args[1], rt)
				})
				rr.At(w, ins, "the popped candidate is removed from the frontier", del, "")
			}
		}
	}
}

func anySub(t *Term, pred func(*Term) bool) bool {
	found := false
	t.Walk(func(x *Term) bool {
		if pred(x) {
			found = true
		}
		return !found
	})
	return found
}

// c03r8: progress. A lookup that has a free slot and a candidate must start a query rather than
// wait: every path from a startQuery call to the blocking wait of the run loop passes the test of
// outstanding < Alpha again (slots are counted by the state, not by a number computed before the
// loop - a skipped duplicate address does not use one up).
func c03r8(w *World, rr *RuleRun) {
	t := w.trav()
	w.LK.Run()
	run := w.P.Func("(*traversal.Operation).run")
	sq := w.P.Func("(*traversal.Operation).startQuery")
	var wait ssa.Instruction
	var guards []ssa.Instruction
	eachInstr([]*ssa.Function{run}, func(_ *ssa.Function, ins ssa.Instruction) {
		if sel, ok := ins.(*ssa.Select); ok && sel.Blocking {
			wait = ins
		}
		if iff, ok := ins.(*ssa.If); ok {
			for _, at := range w.FE.decompose(w.TS.Of(iff.Cond), true) {
				if at.term != nil && at.term.Op == OpBin && at.term.Name == "<" && isFieldTerm(at.term.Args[0], t.outstanding) && isFieldTerm(at.term.Args[1], t.alpha) {
					guards = append(guards, ins)
				}
			}
		}
	})
	if wait == nil {
		rr.Broken("the run loop has no blocking wait")
		return
	}
	sites := w.CallsIn(run, sq, false)
	if len(sites) == 0 {
		rr.Oblige(shortFuncName(run), "the run loop starts queries", w.P.Pos(run.Pos()), false, "no startQuery call")
	}
	for _, s := range sites {
		ok := len(guards) > 0
		det := "no test of outstanding < Alpha in the run loop"
		if ok {
			// can the wait be reached from just after the call while avoiding every guard?
			reach := reachAvoidingAll(s.Block(), instrIndex(s)+1, wait, guards)
			ok = !reach
			det = ""
			if reach {
				det = "the wait is reachable from this startQuery call without re-testing outstanding < Alpha: free slots are not re-counted from the state"
			}
		}
		rr.At(w, s, "after starting a query the loop re-tests outstanding < Alpha before it can wait", ok, det)
	}
}

func reachAvoidingAll(blk *ssa.BasicBlock, idx int, target ssa.Instruction, avoid []ssa.Instruction) bool {
	av := map[ssa.Instruction]bool{}
	for _, a := range avoid {
		av[a] = true
	}
	seen := map[*ssa.BasicBlock]bool{}
	found := false
	var walk func(b *ssa.BasicBlock, from int)
	walk = func(b *ssa.BasicBlock, from int) {
		if found {
			return
		}
		for i := from; i < len(b.Instrs); i++ {
			if b.Instrs[i] == target {
				found = true
				return
			}
			if av[b.Instrs[i]] {
				return
			}
		}
		for _, s := range b.Succs {
			if !seen[s] {
				seen[s] = true
				walk(s, 0)
			}
		}
	}
	walk(blk, idx)
	return found
}

// c03r9: "every contact it has learned that passes the node filter has been queried": the queried
// set is what keeps a contact from being queried (again), so nothing may enter it except on the
// way to its query - not a contact the filter rejected under another ID, not a skipped duplicate.
func c03r9(w *World, rr *RuleRun) {
	t := w.trav()
	n := 0
	eachInstr(w.P.LibFuncs, func(fn *ssa.Function, ins ssa.Instruction) {
		mu, ok := ins.(*ssa.MapUpdate)
		if !ok || fieldOfAddr(mu.Map) != t.queried {
			return
		}
		n++
		// lift through single-site synchronous helpers (markQueried) to the function that goes on to query
		var at ssa.Instruction = ins
		okAll := true
		det := ""
		for depth := 0; depth < 3; depth++ {
			f := at.Parent()
			isQueryGo := func(i ssa.Instruction) bool {
				g, isGo := i.(*ssa.Go)
				if !isGo {
					return false
				}
				for _, e := range w.CG.SiteOut[g] {
					for _, dq := range w.doQuerySites(t) {
						if dq.Parent() == e.Callee || w.liftSyncHelper(dq.Parent()) == e.Callee {
							return true
						}
					}
				}
				return false
			}
			hasGo := false
			eachInstr([]*ssa.Function{f}, func(_ *ssa.Function, i2 ssa.Instruction) {
				if isQueryGo(i2) {
					hasGo = true
				}
			})
			if hasGo {
				ok, wit := MustPass(at, isQueryGo)
				okAll = ok
				if wit != nil {
					det = "the function can return at " + w.P.InstrPos(wit) + " with the address marked but no query started"
				}
				break
			}
			// continue at the only call site
			var es []*Edge
			for _, e := range w.CG.CallersOf(enclosingNamed(f)) {
				if !e.Callback && w.P.IsLib(e.Caller) {
					es = append(es, e)
				}
			}
			if f.Parent() != nil || len(es) == 0 {
				okAll, det = false, "marked in "+shortFuncName(f)+", which never starts a query"
				break
			}
			// every call site must lead to the query
			if len(es) > 1 {
				okAll, det = false, fmt.Sprintf("%s has %d call sites; each would have to start a query", shortFuncName(f), len(es))
				for _, e := range es {
					_ = e
				}
				break
			}
			at = es[0].Site
		}
		rr.At(w, ins, "marking an address as queried is followed by the start of its query", okAll, det)
	})
	if n == 0 {
		rr.Oblige("traversal", "marking an address as queried is followed by the start of its query", "-", false, "no insertion into the queried set")
	}
}

// c03r10: "every contact it has learned that passes the node filter has been queried" needs the
// frontier to accept every such contact and to lose one only to startQuery. Any other refusal (a
// second "already pending" set keyed by address, a cap) or removal (shedding the farthest) makes
// contacts vanish unqueried.
func c03r10(w *World, rr *RuleRun) {
	t := w.trav()
	// (1) refusals of the insertion routine: the function that stores op.unqueried = unqueried.Add(x)
	n := 0
	eachInstr(w.P.LibFuncs, func(fn *ssa.Function, ins ssa.Instruction) {
		st, ok := ins.(*ssa.Store)
		if !ok || fieldOfAddr(st.Addr) != t.unqueried {
			return
		}
		v := w.TS.Of(st.Val)
		if v.Op != OpCall || !(suffixName(v) == "Add") {
			return
		}
		n++
		f := enclosingNamed(fn)
		fa := w.FE.analysisFor(f)
		errT := types.Universe.Lookup("error").Type()
		res := f.Signature.Results()
		if res.Len() == 0 || !types.Identical(res.At(res.Len()-1).Type(), errT) {
			return
		}
		for _, ex := range fa.exits {
			if len(ex.ret.Results) != res.Len() {
				continue
			}
			bad := ""
			seen := false
			for _, alt := range ex.st {
				rv := w.FE.Resolve(alt, ex.ret.Results[res.Len()-1])
				if rv.IsConst("nil") {
					continue
				}
				seen = true
				queried := alt.Has("b", true, func(x *Term) bool {
					cc, i := stripExtract(x)
					return i == 1 && cc.Op == OpLookup && isFieldTerm(cc.Args[0], t.queried)
				})
				filtered := alt.Has("b", false, func(x *Term) bool { _, ok := dynThrough(x, t.nodeFilter); return ok })
				if !queried && !filtered {
					bad = "refused although neither already queried nor rejected by the filter: {" + trunc(strings.Join(alt.Facts(), " ∧ "), 200) + "}"
				}
			}
			if seen {
				rr.At(w, ex.ret, "the frontier refuses a contact only if it was already queried or the filter rejected it", bad == "", bad)
			}
		}
	})
	if n == 0 {
		rr.Oblige("traversal", "the frontier has an insertion routine", "-", false, "no unqueried = unqueried.Add(x)")
	}
	// (2) removals: only the pop that feeds startQuery
	sq := w.P.Func("(*traversal.Operation).startQuery")
	nDel := 0
	eachInstr(w.P.LibFuncs, func(fn *ssa.Function, ins ssa.Instruction) {
		st, ok := ins.(*ssa.Store)
		if !ok || fieldOfAddr(st.Addr) != t.unqueried {
			return
		}
		v := w.TS.Of(st.Val)
		// a method applied to the current frontier (Delete, or anything else that is not Add); the
		// initial value stored by the constructor is not a removal
		if v.Op != OpCall || suffixName(v) == "Add" || len(v.Args) == 0 || !isFieldTerm(v.Args[0], t.unqueried) {
			return
		}
		nDel++
		f := enclosingNamed(fn)
		okPop := f == sq || w.withinUp(f, sq)
		rr.At(w, ins, "a contact leaves the frontier only by being popped for its query", okPop, "unqueried = "+trunc(v.String(), 80)+" in "+shortFuncName(f))
	})
	if nDel == 0 {
		rr.Oblige("traversal", "the frontier is consumed by startQuery", "-", false, "no removal from unqueried")
	}
}

// losslessElementwise: f maps or consumes its slice parameter element by element without dropping
// any: it never reslices the parameter, ranges over the parameter itself (index compared with
// len(param)), has no branch other than the loop test, and does its per-element work (the call or
// append given by perElem) in the loop body.
func (w *World) losslessElementwise(f *ssa.Function, perElem func(ssa.Instruction) bool) (bool, string) {
	if f == nil || len(f.Blocks) == 0 {
		return false, "no body"
	}
	var param *ssa.Parameter
	for _, p := range f.Params {
		if _, ok := p.Type().Underlying().(*types.Slice); ok {
			param = p
		}
	}
	if param == nil {
		return false, "no slice parameter"
	}
	ranged := false
	why := ""
	var hdr *ssa.BasicBlock
	var workBlocks []*ssa.BasicBlock
	noteRange := func(idx ssa.Value) {
		if !isRangeIndex(idx, param) {
			return
		}
		ranged = true
		// the loop test: idx < len(param) feeding an If
		if bo, ok := idx.(*ssa.BinOp); ok && bo.Referrers() != nil {
			for _, r := range *bo.Referrers() {
				if cmp, ok := r.(*ssa.BinOp); ok && cmp.Op == token.LSS && cmp.Referrers() != nil {
					for _, r2 := range *cmp.Referrers() {
						if ifi, ok := r2.(*ssa.If); ok {
							hdr = ifi.Block()
						}
					}
				}
			}
		}
	}
	eachInstr([]*ssa.Function{f}, func(_ *ssa.Function, ins ssa.Instruction) {
		switch x := ins.(type) {
		case *ssa.Slice:
			if x.X == ssa.Value(param) {
				why = "reslices its input (" + w.TS.Of(x).String() + "): elements beyond the window are dropped"
			}
		case *ssa.IndexAddr:
			if x.X == ssa.Value(param) {
				noteRange(x.Index)
			}
		case *ssa.Index:
			if x.X == ssa.Value(param) {
				noteRange(x.Index)
			}
		}
		if perElem(ins) {
			workBlocks = append(workBlocks, ins.Block())
		}
		// filling slot i of make(T, len(input)) while ranging over the input is a per-element step too
		if ia, ok := ins.(*ssa.IndexAddr); ok {
			if mk, isMk := ia.X.(*ssa.MakeSlice); isMk && isRangeIndex(ia.Index, param) {
				if lc, isCall := mk.Len.(*ssa.Call); isCall {
					if bi, isB := lc.Call.Value.(*ssa.Builtin); isB && bi.Name() == "len" && len(lc.Call.Args) == 1 && lc.Call.Args[0] == ssa.Value(param) {
						workBlocks = append(workBlocks, ins.Block())
					}
				}
			}
		}
	})
	switch {
	case why != "":
		return false, why
	case !ranged || hdr == nil || len(hdr.Succs) != 2:
		return false, "does not range over the whole of its input"
	case len(workBlocks) == 0:
		return false, "no per-element work found in the loop"
	}
	body, exit := hdr.Succs[0], hdr.Succs[1]
	// the per-element step is taken on every iteration: it dominates every back edge
	for _, p := range hdr.Preds {
		if !body.Dominates(p) {
			continue // entry edge
		}
		dom := false
		for _, wb := range workBlocks {
			if wb.Dominates(p) {
				dom = true
			}
		}
		if !dom {
			return false, "an iteration can go round without the per-element step: some elements can be skipped"
		}
	}
	// and the loop is left only by running out of elements
	for _, p := range exit.Preds {
		if p != hdr && body.Dominates(p) {
			return false, "can break out of the loop before the input is used up"
		}
	}
	for _, b := range f.Blocks {
		if len(b.Instrs) == 0 || (f.Recover != nil && (b == f.Recover || f.Recover.Dominates(b))) {
			continue
		}
		if _, isRet := b.Instrs[len(b.Instrs)-1].(*ssa.Return); isRet && !exit.Dominates(b) {
			return false, "can return from inside the loop, before the input is used up"
		}
	}
	return true, "ranges over its input, one unconditional step per element"
}

// c03r11: every contact named in a reply is offered to the frontier. After DoQuery returns, every
// path of the query goroutine hands both contact lists of the result (Nodes and Nodes6) to AddNodes,
// through a converter that maps element by element; AddNodes offers every element to
// addNodeLocked (whose refusals C03.10 enumerates). A cap or filter anywhere on this chain keeps
// contacts from ever being asked: the lookup stalls without them and the result is not the K closest.
func c03r11(w *World, rr *RuleRun) {
	t := w.trav()
	addNodes := w.P.Func("(*traversal.Operation).AddNodes")
	addLocked := w.P.Func("(*traversal.Operation).addNodeLocked")
	qr := w.P.NamedType("traversal", "QueryResult").Underlying().(*types.Struct)
	var listFields []*types.Var
	for i := 0; i < qr.NumFields(); i++ {
		if sl, ok := qr.Field(i).Type().Underlying().(*types.Slice); ok && strings.HasSuffix(sl.Elem().String(), "krpc.NodeInfo") {
			listFields = append(listFields, qr.Field(i))
		}
	}
	rr.Oblige("traversal.QueryResult", "the query result carries contact lists", "-", len(listFields) >= 2, fmt.Sprintf("%d []krpc.NodeInfo fields", len(listFields)))
	isAppend := func(ins ssa.Instruction) bool {
		if c := callInstrCommon(ins); c != nil {
			if b, ok := c.Value.(*ssa.Builtin); ok && b.Name() == "append" {
				return true
			}
		}
		return false
	}
	for _, dq0 := range w.doQuerySites(t) {
		// the instruction whose value is the query result in the goroutine's own function: the
		// DoQuery call, or the call of an extracted helper that returns DoQuery's result
		dq, res := w.liftResultSite(dq0)
		fn := dq.Parent()
		for _, lf := range listFields {
			lf := lf
			var sites []ssa.Instruction
			for _, site := range w.CallsIn(fn, addNodes, false) {
				for _, a := range w.ArgTerms(site, 1) {
					// conv(res.F) or res.F itself
					src := a
					if src.Op == OpCall && len(src.Args) == 1 {
						if g, _ := src.Obj.(*ssa.Function); g != nil && w.P.IsLib(g) {
							src = src.Args[0]
						} else if o, _ := a.Obj.(*types.Func); o != nil && o.Pkg() != nil && strings.HasPrefix(o.Pkg().Path(), modPath) {
							src = src.Args[0]
						}
					}
					if isFieldTerm(src, lf) && src.Args[0].Contains(res) || isFieldTerm(src, lf) && termEq(src.Args[0], res) {
						sites = append(sites, site)
					}
				}
			}
			if len(sites) == 0 {
				rr.At(w, dq, "the reply's "+lf.Name()+" list is handed to AddNodes", false, "no AddNodes call takes (a conversion of) the query result's "+lf.Name())
				continue
			}
			set := map[ssa.Instruction]bool{}
			for _, s := range sites {
				set[s] = true
			}
			ok, wit := MustPass(dq, func(i ssa.Instruction) bool { return set[i] })
			det := ""
			if !ok && wit != nil {
				det = "the goroutine can end at " + w.P.Pos(wit.Pos()) + " without offering them"
			}
			rr.At(w, dq, "the reply's "+lf.Name()+" list is handed to AddNodes on every path after the query returns", ok, det)
			// the converter on the way
			for _, s := range sites {
				if c, isCall := callInstrCommon(s).Args[1].(*ssa.Call); isCall {
					if g := c.Call.StaticCallee(); g != nil && w.P.IsLib(g) {
						okc, whyc := w.losslessElementwise(g, isAppend)
						rr.At(w, s, "the conversion of the reply's "+lf.Name()+" keeps every contact", okc, shortFuncName(g)+": "+whyc)
					}
				}
			}
		}
	}
	// the library's own callbacks build the query result from the reply through one adaptor: it
	// passes the reply's lists on as they are
	if tq := w.P.FuncOpt("(QueryResult).TraversalQueryResult"); tq != nil {
		for _, lf := range listFields {
			rf := w.P.Field("krpc", "Return", lf.Name())
			n := 0
			for _, ins := range w.FieldWrites([]*ssa.Function{tq}, lf) {
				st, ok := ins.(*ssa.Store)
				if !ok {
					continue
				}
				n++
				v := w.TS.Of(st.Val)
				rr.At(w, ins, "the adaptor passes the reply's "+lf.Name()+" list on whole", isFieldTerm(v, rf), "stores "+trunc(v.String(), 100))
			}
			if n == 0 {
				rr.Oblige(shortFuncName(tq), "the adaptor passes the reply's "+lf.Name()+" list on whole", w.P.Pos(tq.Pos()), false, "never assigned")
			}
		}
	}
	okA, whyA := w.losslessElementwise(addNodes, func(ins ssa.Instruction) bool {
		c := callInstrCommon(ins)
		return c != nil && c.StaticCallee() == addLocked
	})
	rr.Oblige(shortFuncName(addNodes), "AddNodes offers every element of its argument to the frontier", w.P.Pos(addNodes.Pos()), okA, whyA)
}

// liftResultSite: starting from a call whose value is of interest, climb through unexported helpers
// with a single synchronous call site that return exactly that value; returns the call instruction
// in the outermost such caller and the term of its value there.
func (w *World) liftResultSite(call *ssa.Call) (ssa.Instruction, *Term) {
	var site ssa.Instruction = call
	resT := w.TS.Of(call)
	for depth := 0; depth < 3; depth++ {
		f := site.Parent()
		if f.Parent() != nil || f.Object() == nil || f.Object().Exported() {
			break
		}
		var es []*Edge
		for _, e := range w.CG.CallersOf(f) {
			if !e.Callback {
				es = append(es, e)
			}
		}
		if len(es) != 1 || es[0].Mode != ModeSync {
			break
		}
		returnsRes := true
		eachInstr([]*ssa.Function{f}, func(_ *ssa.Function, ins ssa.Instruction) {
			if r, ok := ins.(*ssa.Return); ok {
				if len(r.Results) != 1 || !termEq(w.TS.Of(r.Results[0]), resT) {
					returnsRes = false
				}
			}
		})
		cv, isVal := es[0].Site.(ssa.Value)
		if !returnsRes || !isVal {
			break
		}
		site, resT = es[0].Site, w.TS.Of(cv)
	}
	return site, resT
}
