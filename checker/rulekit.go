package main

// Helpers shared by the per-property rule files.

import (
	"fmt"
	"go/constant"
	"go/token"
	"go/types"
	"sort"
	"strings"

	"golang.org/x/tools/go/ssa"
)

// ---- term construction / matching -----------------------------------------------------------------

func (w *World) ParamTerm(fn *ssa.Function, name string) *Term {
	for _, p := range fn.Params {
		if p.Name() == name {
			return w.TS.Of(p)
		}
	}
	// captured variable of a closure: resolve through free vars
	for _, fv := range fn.FreeVars {
		if fv.Name() == name {
			t := w.TS.Of(fv)
			// a captured cell: the value is its deref
			if _, isPtr := fv.Type().Underlying().(*types.Pointer); isPtr {
				return normalizeTerm(&Term{Op: OpDeref, Args: []*Term{t}})
			}
			return t
		}
	}
	broken("function %s has no parameter/free variable %q", shortFuncName(fn), name)
	return nil
}

func FieldTerm(base *Term, fv *types.Var) *Term {
	return normalizeTerm(&Term{Op: OpField, Name: fv.Name(), Obj: fv, Args: []*Term{base}})
}

func termEq(a, b *Term) bool { return a != nil && b != nil && a.String() == b.String() }

// isCall reports whether t is a call of the function/method object obj (types.Func or *ssa.Function).
func isCall(t *Term, obj interface{}) bool {
	if t == nil || t.Op != OpCall {
		return false
	}
	if t.Obj == obj {
		return true
	}
	if f, ok := t.Obj.(*types.Func); ok {
		if o, ok := obj.(*types.Func); ok && f.Origin() == o {
			return true
		}
		if sf, ok := obj.(*ssa.Function); ok && sf.Object() == f {
			return true
		}
	}
	if sf, ok := t.Obj.(*ssa.Function); ok {
		if o, ok := obj.(*types.Func); ok && sf.Object() == o {
			return true
		}
	}
	return false
}

// isCallNamed matches a call term by the callee's short name (for external API table entries).
func isCallNamed(t *Term, name string) bool {
	return t != nil && t.Op == OpCall && t.Name == name
}

// fieldPathEndsWith: t is a field selection chain whose last fields are the given vars (outermost
// last), e.g. (.., A, Token) matches X.A.Token for any X. Returns the base term X.
func fieldChain(t *Term, vars ...*types.Var) (*Term, bool) {
	cur := t
	for i := len(vars) - 1; i >= 0; i-- {
		if cur == nil || cur.Op != OpField || cur.Obj != vars[i] {
			return nil, false
		}
		cur = cur.Args[0]
	}
	return cur, true
}

// stripExtract: for "call#i" returns (call, i).
func stripExtract(t *Term) (*Term, int) {
	if t != nil && t.Op == OpExtract {
		n := 0
		fmt.Sscanf(t.Name, "%d", &n)
		return t.Args[0], n
	}
	return t, -1
}

// ---- instruction enumeration ------------------------------------------------------------------------

func eachInstr(fs []*ssa.Function, f func(fn *ssa.Function, ins ssa.Instruction)) {
	for _, fn := range fs {
		for _, b := range fn.Blocks {
			for _, ins := range b.Instrs {
				f(fn, ins)
			}
		}
	}
}

// CallsIn lists call instructions (call/go/defer) inside fn (optionally including its closures)
// whose static callee / interface method is obj.
func (w *World) CallsIn(fn *ssa.Function, obj interface{}, withClosures bool) []ssa.Instruction {
	var out []ssa.Instruction
	var visit func(f *ssa.Function)
	visit = func(f *ssa.Function) {
		for _, b := range f.Blocks {
			for _, ins := range b.Instrs {
				if c := callInstrCommon(ins); c != nil && callMatches(c, obj) {
					out = append(out, ins)
				}
			}
		}
		if withClosures {
			for _, a := range f.AnonFuncs {
				visit(a)
			}
		}
	}
	visit(fn)
	return out
}

func callMatches(c *ssa.CallCommon, obj interface{}) bool {
	switch o := obj.(type) {
	case *types.Func:
		co := calleeObj(c)
		return co != nil && (co == o || co.Origin() == o)
	case *ssa.Function:
		if sc := c.StaticCallee(); sc != nil {
			return sc == o || (sc.Origin() != nil && sc.Origin() == o)
		}
	}
	return false
}

// AllCallsTo lists call instructions in the given functions whose callee is obj.
func (w *World) AllCallsTo(fs []*ssa.Function, obj interface{}) []ssa.Instruction {
	var out []ssa.Instruction
	eachInstr(fs, func(fn *ssa.Function, ins ssa.Instruction) {
		if c := callInstrCommon(ins); c != nil && callMatches(c, obj) {
			out = append(out, ins)
		}
	})
	return out
}

// FieldStores lists instructions that write the field fv: stores through its address (including
// element stores into an array/slice held in it), map updates / deletes on a map held in it.
func (w *World) FieldWrites(fs []*ssa.Function, fv *types.Var) []ssa.Instruction {
	var out []ssa.Instruction
	eachInstr(fs, func(fn *ssa.Function, ins ssa.Instruction) {
		switch ins := ins.(type) {
		case *ssa.Store:
			if fieldOfAddr(ins.Addr) == fv {
				out = append(out, ins)
			}
		case *ssa.MapUpdate:
			if fieldOfAddr(ins.Map) == fv {
				out = append(out, ins)
			}
		default:
			if c := callInstrCommon(ins); c != nil {
				if bi, ok := c.Value.(*ssa.Builtin); ok && (bi.Name() == "delete" || bi.Name() == "clear") && len(c.Args) > 0 && fieldOfAddr(c.Args[0]) == fv {
					out = append(out, ins)
				}
			}
		}
	})
	return out
}

// FieldReads lists instructions that read the field fv (loads through its address, Field
// extractions, lookups/ranges/len on a container held in it).
func (w *World) FieldReads(fs []*ssa.Function, fv *types.Var) []ssa.Instruction {
	var out []ssa.Instruction
	eachInstr(fs, func(fn *ssa.Function, ins ssa.Instruction) {
		switch ins := ins.(type) {
		case *ssa.UnOp:
			if ins.Op == token.MUL {
				if fa, ok := ins.X.(*ssa.FieldAddr); ok && fieldOfAddr(fa) == fv {
					out = append(out, ins)
				}
			}
		case *ssa.Field:
			st := ins.X.Type().Underlying().(*types.Struct)
			if st.Field(ins.Field) == fv {
				out = append(out, ins)
			}
		}
	})
	return out
}

// FieldAddrUses lists FieldAddr instructions for fv (any access path through the field: used for
// guarded-by rules where the field is a struct/array accessed in place).
func (w *World) FieldAddrs(fs []*ssa.Function, fv *types.Var) []*ssa.FieldAddr {
	var out []*ssa.FieldAddr
	eachInstr(fs, func(fn *ssa.Function, ins ssa.Instruction) {
		if fa, ok := ins.(*ssa.FieldAddr); ok {
			st := fa.X.Type().Underlying().(*types.Pointer).Elem().Underlying().(*types.Struct)
			if st.Field(fa.Field) == fv {
				out = append(out, fa)
			}
		}
	})
	return out
}

// ---- fact requirements -----------------------------------------------------------------------------

// Require evaluates φ on every alternative of the state before ins. φ returns ok and a short reason.
// The obligation holds when every alternative satisfies φ. Unreachable sites hold vacuously.
func (w *World) Require(rr *RuleRun, ins ssa.Instruction, construct string, phi func(a *Alt) (bool, string)) bool {
	st := w.FE.StateBefore(ins)
	if st == nil {
		rr.rep.Extra["unreachable_sites"] = appendStr(rr.rep.Extra["unreachable_sites"], shortFuncName(ins.Parent())+" "+construct)
		rr.ObligeTrivialAt(w, ins, construct, true, "site unreachable in the CFG")
		return true
	}
	var witness []string
	for _, a := range st {
		ok, why := phi(a)
		if !ok {
			rr.At(w, ins, construct, false, "required fact missing on a path: "+why+"\n  facts on that path: {"+strings.Join(a.Facts(), " ∧ ")+"}")
			return false
		}
		witness = append(witness, why)
	}
	rr.At(w, ins, construct, true, fmt.Sprintf("%d path alternative(s); %s", len(st), strings.Join(uniq(witness), " | ")))
	return true
}

func (rr *RuleRun) ObligeTrivialAt(w *World, ins ssa.Instruction, construct string, ok bool, detail string) {
	rr.ObligeTrivial(shortFuncName(ins.Parent()), construct, w.P.InstrPos(ins), ok, detail)
}

func appendStr(v interface{}, s string) []string {
	l, _ := v.([]string)
	return append(l, s)
}

func uniq(in []string) []string {
	seen := map[string]bool{}
	var out []string
	for _, s := range in {
		if !seen[s] {
			seen[s] = true
			out = append(out, s)
		}
	}
	sort.Strings(out)
	return out
}

// ---- constants -------------------------------------------------------------------------------------

// ConstInt returns the integer value of an SSA constant (following conversions), ok=false otherwise.
func ConstInt(v ssa.Value) (int64, bool) {
	for {
		switch x := v.(type) {
		case *ssa.Const:
			if x.Value == nil {
				return 0, true
			}
			if x.Value.Kind() == constant.Int {
				n, ok := constant.Int64Val(x.Value)
				return n, ok
			}
			return 0, false
		case *ssa.Convert:
			v = x.X
		case *ssa.ChangeType:
			v = x.X
		default:
			return 0, false
		}
	}
}

func ConstString(v ssa.Value) (string, bool) {
	if c, ok := v.(*ssa.Const); ok && c.Value != nil && c.Value.Kind() == constant.String {
		return constant.StringVal(c.Value), true
	}
	return "", false
}

// GlobalInitField: value stored into field `field` of package-level variable g by the package
// initialiser (struct literal globals are initialised field by field in init).
func (w *World) GlobalInitField(g *ssa.Global, fv *types.Var) ssa.Value {
	init := g.Pkg.Func("init")
	var val ssa.Value
	if init == nil {
		return nil
	}
	for _, b := range init.Blocks {
		for _, ins := range b.Instrs {
			st, ok := ins.(*ssa.Store)
			if !ok {
				continue
			}
			fa, ok := st.Addr.(*ssa.FieldAddr)
			if !ok || fa.X != ssa.Value(g) {
				continue
			}
			sty := fa.X.Type().Underlying().(*types.Pointer).Elem().Underlying().(*types.Struct)
			if sty.Field(fa.Field) == fv {
				val = st.Val
			}
		}
	}
	return val
}

// ---- misc --------------------------------------------------------------------------------------------

func instrString(ins ssa.Instruction) string {
	if v, ok := ins.(ssa.Value); ok {
		return v.Name() + " = " + ins.String()
	}
	return ins.String()
}

func funcNames(fs []*ssa.Function) []string {
	var out []string
	for _, f := range fs {
		out = append(out, shortFuncName(f))
	}
	sort.Strings(out)
	return out
}

// enclosingNamed returns the outermost named function containing f (closures -> parent).
func enclosingNamed(f *ssa.Function) *ssa.Function {
	for f.Parent() != nil {
		f = f.Parent()
	}
	return f
}

// within reports whether f is fn or a closure nested (transitively) inside fn.
func within(f, fn *ssa.Function) bool {
	for f != nil {
		if f == fn {
			return true
		}
		f = f.Parent()
	}
	return false
}

// ---- helper transparency ---------------------------------------------------------------------------

// rootOf: fn itself, or - when fn (or the function it is a closure of) was folded into a region -
// that region's root. Rules that name a function as "the" site of something use this so that a
// single-call-site helper extracted from it still counts as part of it.
func (w *World) rootOf(fn *ssa.Function) *ssa.Function {
	fn = enclosingNamed(fn)
	for i := 0; i < 4; i++ {
		moved := false
		for root, members := range w.Region {
			for _, m := range members {
				if m == fn {
					fn = root
					moved = true
				}
			}
		}
		if !moved {
			break
		}
	}
	return fn
}

// withinUp: fn is root, a closure of it, a helper folded into it, or an unexported function all of
// whose library callers are (transitively, up to three levels) within root.
func (w *World) withinUp(fn, root *ssa.Function) bool {
	return w.withinUpDepth(fn, root, 0)
}

func (w *World) withinUpDepth(fn, root *ssa.Function, depth int) bool {
	if within(fn, root) || w.rootOf(fn) == root {
		return true
	}
	fn = enclosingNamed(fn)
	if depth >= 3 {
		return false
	}
	if obj, ok := fn.Object().(*types.Func); !ok || obj.Exported() {
		return false
	}
	n := 0
	for _, e := range w.CG.CallersOf(fn) {
		if !w.P.IsLib(e.Caller) {
			continue
		}
		n++
		if e.Callback || !w.withinUpDepth(e.Caller, root, depth+1) {
			return false
		}
	}
	return n > 0
}

// regionFuncs: root, its folded helpers and all their closures.
func (w *World) regionFuncs(root *ssa.Function) []*ssa.Function {
	var out []*ssa.Function
	for _, f := range w.RegionOf(root) {
		out = append(out, f)
		out = append(out, allAnon(f)...)
	}
	return out
}

// CallsInRegion: call instructions to obj in root's region (closures included).
func (w *World) CallsInRegion(root *ssa.Function, obj interface{}) []ssa.Instruction {
	var out []ssa.Instruction
	for _, f := range w.RegionOf(root) {
		out = append(out, w.CallsIn(f, obj, true)...)
	}
	return out
}

func isNilConst(v ssa.Value) bool {
	c, ok := v.(*ssa.Const)
	return ok && c.IsNil()
}

// liftedCall: a call of some callee seen from a root function: Root is the instruction in the root
// (or one of its closures) - the call itself, or the call of a folded single-site helper in which
// the callee is called on every path; Inner is the actual call instruction.
type liftedCall struct {
	Root, Inner ssa.Instruction
	Helper      *ssa.Function
}

func (w *World) callsLifted(root *ssa.Function, callee interface{}) []liftedCall {
	var out []liftedCall
	for _, ins := range w.CallsIn(root, callee, true) {
		out = append(out, liftedCall{ins, ins, nil})
	}
	for _, g := range w.Region[root] {
		site := singleSite[g]
		if site == nil || g.Parent() != nil || len(g.Blocks) == 0 {
			continue
		}
		for _, ins := range w.CallsIn(g, callee, false) {
			first := g.Blocks[0].Instrs[0]
			if ok, _ := MustPass(first, func(i ssa.Instruction) bool { return i == ins }); !ok && first != ins {
				continue
			}
			// lift through nested helpers up to the root
			rootIns := site
			for depth := 0; depth < 3 && rootIns != nil && enclosingNamed(rootIns.Parent()) != root; depth++ {
				rootIns = singleSite[enclosingNamed(rootIns.Parent())]
			}
			if rootIns != nil {
				out = append(out, liftedCall{rootIns, ins, g})
			}
		}
	}
	return out
}

// argAtRoot: the idx-th argument of the inner call in the root's vocabulary: the helper's
// parameters are already bound to the root's arguments (paramBind); a value the helper builds and
// returns is the value of the helper call in the root.
func (w *World) argAtRoot(lc liftedCall, idx int) *Term {
	c := callInstrCommon(lc.Inner)
	t := w.TS.Of(c.Args[idx])
	if lc.Helper == nil {
		return t
	}
	returnsIt := false
	eachInstr([]*ssa.Function{lc.Helper}, func(_ *ssa.Function, ins ssa.Instruction) {
		if r, ok := ins.(*ssa.Return); ok && len(r.Results) == 1 && termEq(w.TS.Of(r.Results[0]), t) {
			returnsIt = true
		}
	})
	if v, ok := lc.Root.(ssa.Value); ok && returnsIt {
		return w.TS.Of(v)
	}
	return t
}

// ExpandCalls: disjunctive expansion of summary atoms. Every alternative that carries an atom
// b:g(args) / n:g(args) for a module function g is replaced by its conjunction with each
// alternative of g's summary for that class (parameters substituted by the arguments), up to
// `depth` levels. Unlike importSummary this multiplies alternatives; rules use it when the
// disjunction inside a delegating helper matters.
func (w *World) ExpandCalls(d DNF, depth int, keep func(*Term) bool) DNF {
	for round := 0; round < depth; round++ {
		changed := false
		var out DNF
		for _, a := range d {
			var key string
			for k, t := range a.terms {
				if (strings.HasPrefix(k, "b:") || strings.HasPrefix(k, "n:")) && t != nil && t.Op == OpCall {
					if g := w.FE.calleeFunc(t); g != nil && w.P.IsLib(g) && len(g.Blocks) > 0 && !(keep != nil && keep(t)) {
						if key == "" || k < key {
							key = k
						}
					}
				}
			}
			if key == "" {
				out = append(out, a)
				continue
			}
			t := a.terms[key]
			g := w.FE.calleeFunc(t)
			class := ""
			switch {
			case strings.HasPrefix(key, "b:") && a.facts[key]:
				class = "true"
			case strings.HasPrefix(key, "b:"):
				class = "false"
			case a.facts[key]:
				class = "nonnil"
			default:
				class = "nil"
			}
			sum := w.FE.Summary(g, 0, class, 0)
			if sum == nil {
				out = append(out, a)
				continue
			}
			sub := map[string]*Term{}
			for i, prm := range g.Params {
				if i < len(t.Args) {
					sub[w.TS.Of(prm).String()] = t.Args[i]
				}
			}
			changed = true
			for _, sa := range sum {
				r := a.clone()
				delete(r.facts, key)
				delete(r.terms, key)
				ok := true
				for k, v := range sa.facts {
					nt := sa.terms[k].Subst(sub)
					var ats []atom
					if strings.HasPrefix(k, "b:") {
						// renormalise: the substitution may have produced (x == true), constants, nil tests
						ats = w.FE.decompose(nt, v)
					} else {
						ats = []atom{{k[:2] + nt.String(), nt, v}}
					}
					for _, at := range ats {
						if at.key == "⊥" {
							ok = false
							break
						}
						if at.term != nil && at.term.Op == OpConst && (at.term.Name == "true" || at.term.Name == "false") {
							if (at.term.Name == "true") != at.sign {
								ok = false
								break
							}
							continue
						}
						if cur, have := r.facts[at.key]; have && cur != at.sign {
							ok = false
							break
						}
						r.facts[at.key] = at.sign
						r.terms[at.key] = at.term
					}
					if !ok {
						break
					}
				}
				if ok {
					out = append(out, r)
				}
			}
		}
		d = out
		if !changed {
			break
		}
	}
	return d
}

// ArgTerms: the terms the idx-th argument of the call can denote: its static term and its
// per-path resolutions (a local or phi assigned on the way resolves to what was assigned).
func (w *World) ArgTerms(site ssa.Instruction, idx int) []*Term {
	c := callInstrCommon(site)
	if c == nil || idx >= len(c.Args) {
		return nil
	}
	out := []*Term{w.TS.Of(c.Args[idx])}
	seen := map[string]bool{out[0].String(): true}
	for _, alt := range w.FE.StateBefore(site) {
		t := w.FE.Resolve(alt, c.Args[idx])
		if !seen[t.String()] {
			seen[t.String()] = true
			out = append(out, t)
		}
	}
	return out
}
