package main

import (
	"fmt"
	"go/token"
	"go/types"
	"math"
	"strings"

	"golang.org/x/tools/go/ssa"
)

func init() {
	register(&Property{
		ID:    "C12",
		Title: "BEP 44 store never accepts or serves a forged or oversized item",
		Decided: "C12.1 the raw store's Put is invoked only inside Wrapper.Put and only after Check(i)=nil for the same item; Del only inside Wrapper.Get; the configured raw store flows only into NewWrapper; " +
			"C12.2 Check=nil implies encoded value ≤ 1000 bytes and, for mutable items, salt ≤ 64 bytes ∧ Verify(k, salt, seq, encoded v, sig) on the same item; the failing edges return 205 / 207 / 206; signer and verifier build the same buffer; " +
			"C12.3 targets hash k‖salt (mutable) or the encoded value (immutable), same predicate on both sides; C12.4 the get handler serves v, k, sig, seq of the one stored item and the put handler builds the item field-for-field from the arguments and relays the store's KRPC error; " +
			"C12.5 the client hands its caller only values dominated by hash-match or key-match ∧ Verify, and writes state shared between replies only under those facts; C12.6 Wrapper.Put returns the validator's (or the backend's) own error value on every path and the put handler sends the asserted krpc.Error, so 205/206/207 (and 301/302) reach the sender.",
		NotDecided: "ed25519 / SHA-1 correctness; 'highest seq wins' as a value-level statement over reply orders (decided structurally: accumulator start and no early exit after a mutable value); bencode re-encoding fidelity of v.",
		Rules: []*Rule{
			{ID: "C12.1", Doc: "validation dominates storage", Floor: 4, Run: c12r1},
			{ID: "C12.2", Doc: "what Check=nil means", Floor: 6, Run: c12r2},
			{ID: "C12.3", Doc: "target derivation", Floor: 4, Run: c12r3},
			{ID: "C12.4", Doc: "serving and building items", Floor: 8, Run: c12r4},
			{ID: "C12.6", Doc: "rejection codes reach the wire: Wrapper.Put hands back the validator's own error value, and the put handler sends a krpc.Error as it is", Floor: 3, Run: c12r6},
			{ID: "C12.7", Doc: "the buffer that is signed / verified is not recycled while in use (shared with C08.11)", Floor: 1, Run: cPoolLifetime},
			{ID: "C12.5", Doc: "client-side acceptance", Floor: 2, Run: c12r5},
		},
	})
}

type bep44Anchors struct {
	storeIface             *types.Interface
	sPut, sGet, sDel       *types.Func
	wPut, wGet             *ssa.Function
	check, checkIn, verify *ssa.Function
}

func (w *World) bep44() *bep44Anchors {
	a := &bep44Anchors{}
	a.storeIface = w.P.Pkg("bep44").Types.Scope().Lookup("Store").Type().Underlying().(*types.Interface)
	for i := 0; i < a.storeIface.NumMethods(); i++ {
		m := a.storeIface.Method(i)
		switch m.Name() {
		case "Put":
			a.sPut = m
		case "Get":
			a.sGet = m
		case "Del":
			a.sDel = m
		}
	}
	a.wPut = w.P.Func("(*bep44.Wrapper).Put")
	a.wGet = w.P.Func("(*bep44.Wrapper).Get")
	a.check = w.P.Func("bep44.Check")
	a.checkIn = w.P.Func("bep44.CheckIncoming")
	a.verify = w.P.Func("bep44.Verify")
	return a
}

func c12r1(w *World, rr *RuleRun) {
	a := w.bep44()
	puts := w.AllCallsTo(w.P.LibFuncs, a.sPut)
	if len(puts) == 0 {
		rr.Broken("no Store.Put invocation found")
	}
	for _, site := range puts {
		c := callInstrCommon(site)
		if !c.IsInvoke() {
			continue
		}
		rr.At(w, site, "raw Store.Put invoked only inside Wrapper.Put", w.withinUp(site.Parent(), a.wPut), "in "+shortFuncName(site.Parent()))
		item := c.Args[0]
		w.Require(rr, site, "Store.Put requires Check(i)=nil for the stored item", func(alt *Alt) (bool, string) {
			it := w.FE.Resolve(alt, item)
			if alt.Has("n", false, func(t *Term) bool { return isCall(t, a.check) && len(t.Args) == 1 && termEq(t.Args[0], it) }) {
				return true, "Check(" + it.String() + ")=nil"
			}
			return false, "no Check(i)=nil fact for " + it.String()
		})
	}
	for _, site := range w.AllCallsTo(w.P.LibFuncs, a.sDel) {
		if callInstrCommon(site).IsInvoke() {
			rr.At(w, site, "raw Store.Del invoked only inside Wrapper.Get", w.withinUp(site.Parent(), a.wGet), "in "+shortFuncName(site.Parent()))
		}
	}
	for _, site := range w.AllCallsTo(w.P.LibFuncs, a.sGet) {
		if callInstrCommon(site).IsInvoke() {
			ok := w.withinUp(site.Parent(), a.wGet) || w.withinUp(site.Parent(), a.wPut)
			rr.At(w, site, "raw Store.Get invoked only inside the Wrapper", ok, "in "+shortFuncName(site.Parent()))
		}
	}
	w.checkRawStoreFlow(rr)
	newWrapper := w.P.Func("bep44.NewWrapper")
	// Wrapper.s written only by NewWrapper
	ws := w.P.Field("bep44", "Wrapper", "s")
	for _, st := range w.FieldWrites(w.P.LibFuncs, ws) {
		rr.At(w, st, "Wrapper.s set only by NewWrapper", enclosingNamed(st.Parent()) == newWrapper, "in "+shortFuncName(st.Parent()))
	}
	// Server.store (the wrapper) written only in NewServer
	ss := w.P.Field("", "Server", "store")
	for _, st := range w.FieldWrites(w.P.LibFuncs, ss) {
		rr.At(w, st, "Server.store set only in NewServer", shortFuncName(enclosingNamed(st.Parent())) == "NewServer", "in "+shortFuncName(st.Parent()))
	}
}

func c12r2(w *World, rr *RuleRun) {
	a := w.bep44()
	itemV := w.P.Field("bep44", "Item", "V")
	itemSalt := w.P.Field("bep44", "Item", "Salt")
	itemK := w.P.Field("bep44", "Item", "K")
	itemSeq := w.P.Field("bep44", "Item", "Seq")
	itemSig := w.P.Field("bep44", "Item", "Sig")
	isMutable := w.P.Func("(*bep44.Item).IsMutable")
	iP := w.ParamTerm(a.check, "i")
	isBV := func(t *Term) bool {
		// bencode.Marshal(i.V)#0
		c, idx := stripExtract(t)
		return idx == 0 && c.Op == OpCall && strings.HasSuffix(c.Name, "bencode.Marshal") && len(c.Args) == 1 && c.Args[0].Op == OpField && c.Args[0].Obj == itemV && termEq(c.Args[0].Args[0], iP)
	}
	lenLE := func(alt *Alt, inner func(*Term) bool, limit string) bool {
		// ¬(limit < len(X))
		return alt.Has("b", false, func(t *Term) bool {
			return t.Op == OpBin && t.Name == "<" && t.Args[0].IsConst(limit) && t.Args[1].Op == OpLen && inner(t.Args[1].Args[0])
		})
	}
	isSalt := func(t *Term) bool { return t.Op == OpField && t.Obj == itemSalt && termEq(t.Args[0], iP) }
	sliceOf := func(t *Term, fv *types.Var) bool {
		return t.Op == OpSlice && t.Args[0].Op == OpField && t.Args[0].Obj == fv && termEq(t.Args[0].Args[0], iP)
	}
	sum := w.FE.Summary(a.check, 0, "nil", 0)
	if len(sum) == 0 {
		rr.Oblige(shortFuncName(a.check), "Check has a nil-returning path", w.P.Pos(a.check.Pos()), false, "no nil class")
	}
	for i, alt := range sum {
		ok := lenLE(alt, isBV, "1000")
		why := "len(encoded v) ≤ 1000: " + fmt.Sprint(ok)
		immutable := alt.Has("b", false, func(t *Term) bool { return isCall(t, isMutable) && termEq(t.Args[0], iP) })
		if !immutable {
			okSalt := lenLE(alt, isSalt, "64")
			okVer := alt.Has("b", true, func(t *Term) bool {
				if !isCall(t, a.verify) || len(t.Args) != 5 {
					return false
				}
				return sliceOf(t.Args[0], itemK) && isSalt(t.Args[1]) && t.Args[2].Op == OpField && t.Args[2].Obj == itemSeq && termEq(t.Args[2].Args[0], iP) && isBV(t.Args[3]) && sliceOf(t.Args[4], itemSig)
			})
			why += fmt.Sprintf("; mutable: len(salt) ≤ 64: %v, Verify(i.K, i.Salt, i.Seq, bv, i.Sig): %v", okSalt, okVer)
			ok = ok && okSalt && okVer
		} else {
			why += "; immutable (IsMutable=false)"
		}
		rr.Oblige(shortFuncName(a.check), fmt.Sprintf("Check=nil alternative %d implies the BEP 44 limits and signature", i+1), w.P.Pos(a.check.Pos()), ok, why+"\n  {"+strings.Join(alt.Facts(), " ∧ ")+"}")
	}
	// failing edges and their codes
	want := []struct {
		code int64
		desc string
		cond func(alt *Alt) bool
	}{
		{205, "value too big → 205", func(alt *Alt) bool {
			return alt.Has("b", true, func(t *Term) bool {
				return t.Op == OpBin && t.Name == "<" && t.Args[0].IsConst("1000") && t.Args[1].Op == OpLen && isBV(t.Args[1].Args[0])
			})
		}},
		{207, "salt too big → 207", func(alt *Alt) bool {
			return alt.Has("b", true, func(t *Term) bool {
				return t.Op == OpBin && t.Name == "<" && t.Args[0].IsConst("64") && t.Args[1].Op == OpLen && isSalt(t.Args[1].Args[0])
			})
		}},
		{206, "bad signature → 206", func(alt *Alt) bool {
			return alt.Has("b", false, func(t *Term) bool { return isCall(t, a.verify) })
		}},
	}
	found := map[int64]bool{}
	ff := w.FE.analysisFor(a.check)
	for _, ex := range ff.exits {
		rv := ex.ret.Results[0]
		code, src, okc := w.errorCodeOfInterface(rv)
		if !okc {
			continue
		}
		matched := false
		for _, wnt := range want {
			if wnt.code != code {
				continue
			}
			matched = true
			all := len(ex.st) > 0
			for _, alt := range ex.st {
				if !wnt.cond(alt) {
					all = false
				}
			}
			found[code] = found[code] || all
			rr.At(w, ex.ret, "Check: "+wnt.desc, all, "returns "+src)
		}
		if !matched {
			rr.At(w, ex.ret, "Check returns only BEP 44 validation errors", false, fmt.Sprintf("returns %s (code %d)", src, code))
		}
	}
	for _, wnt := range want {
		if !found[wnt.code] {
			rr.Oblige(shortFuncName(a.check), "Check: "+wnt.desc, w.P.Pos(a.check.Pos()), false, "no return of that error guarded by its condition")
		}
	}
	// Verify and Sign build their message with the same helper
	bts := w.P.Func("bep44.bufferToSign")
	sign := w.P.Func("bep44.Sign")
	for _, f := range []*ssa.Function{a.verify, sign} {
		cs := w.CallsIn(f, bts, false)
		ok := len(cs) == 1
		det := ""
		if ok {
			c := callInstrCommon(cs[0])
			det = fmt.Sprintf("%s(%s, %s, %s)", "bufferToSign", w.TS.Of(c.Args[0]), w.TS.Of(c.Args[1]), w.TS.Of(c.Args[2]))
			ok = w.TS.Of(c.Args[0]).String() == "saltₚ" && w.TS.Of(c.Args[1]).String() == "bvₚ" && w.TS.Of(c.Args[2]).String() == "seqₚ"
		}
		rr.Oblige(shortFuncName(f), "signer and verifier hash bufferToSign(salt, bv, seq)", w.P.Pos(f.Pos()), ok, det)
	}
}

// errorCodeOfInterface: v is an error interface made from a krpc.Error global load.
func (w *World) errorCodeOfInterface(v ssa.Value) (int64, string, bool) {
	if mi, ok := v.(*ssa.MakeInterface); ok {
		return w.errorCodeOfValue(mi.X)
	}
	return 0, "", false
}

func c12r3(w *World, rr *RuleRun) {
	itemK := w.P.Field("bep44", "Item", "K")
	itemSalt := w.P.Field("bep44", "Item", "Salt")
	itemV := w.P.Field("bep44", "Item", "V")
	putK := w.P.Field("bep44", "Put", "K")
	putSalt := w.P.Field("bep44", "Put", "Salt")
	putV := w.P.Field("bep44", "Put", "V")
	check := func(fn *ssa.Function, mutPred string, kf, sf, vf *types.Var) {
		n := 0
		eachInstr([]*ssa.Function{fn}, func(_ *ssa.Function, ins ssa.Instruction) {
			c := callInstrCommon(ins)
			if c == nil {
				return
			}
			o := calleeObj(c)
			if o == nil {
				return
			}
			isSum := o.Pkg() != nil && o.Pkg().Path() == "crypto/sha1" && o.Name() == "Sum"
			isMMT := o.Name() == "MakeMutableTarget"
			if !isSum && !isMMT {
				return
			}
			n++
			arg := c.Args[0]
			w.Require(rr, ins, "target hash input", func(alt *Alt) (bool, string) {
				mut := alt.Has("b", true, func(t *Term) bool { return strings.Contains(t.String(), mutPred) }) ||
					alt.Has("n", true, func(t *Term) bool { return t.Op == OpField && t.Obj == kf }) // Put.IsMutable inlined as K != nil
				t := w.FE.Resolve(alt, arg)
				s := t.String()
				if isMMT {
					a1 := w.FE.Resolve(alt, c.Args[1])
					if mut && hasField(t, kf) && a1.Op == OpField && a1.Obj == sf {
						return true, "mutable: MakeMutableTarget(K, Salt)"
					}
					return false, "MakeMutableTarget(" + s + ", " + a1.String() + ")"
				}
				if hasField(t, kf) && hasField(t, sf) && strings.Contains(s, "append") {
					if mut {
						return true, "mutable: sha1(K ‖ Salt)"
					}
					return false, "key hash on a path not known to be mutable"
				}
				if hasField(t, vf) && strings.Contains(s, "Marshal") && !hasField(t, kf) {
					if !mut {
						return true, "immutable: sha1(encoded V)"
					}
					return false, "value hash on a mutable path"
				}
				return false, "hash input " + s
			})
		})
		if n == 0 {
			rr.Oblige(shortFuncName(fn), "target hash present", w.P.Pos(fn.Pos()), false, "no sha1.Sum")
		}
	}
	check(w.P.Func("(*bep44.Item).Target"), "IsMutable", itemK, itemSalt, itemV)
	check(w.P.Func("(*bep44.Put).Target"), "IsMutable", putK, putSalt, putV)
	// MakeMutableTarget hashes pubKey ‖ salt
	mmt := w.P.Func("bep44.MakeMutableTarget")
	eachInstr([]*ssa.Function{mmt}, func(_ *ssa.Function, ins ssa.Instruction) {
		c := callInstrCommon(ins)
		if c == nil {
			return
		}
		if o := calleeObj(c); o != nil && o.Name() == "Sum" {
			s := w.TS.Of(c.Args[0]).String()
			rr.At(w, ins, "MakeMutableTarget hashes pubKey ‖ salt", strings.Contains(s, "pubKey") && strings.Contains(s, "saltₚ") && strings.Contains(s, "append"), s)
		}
	})
	// IsMutable: K != zero key
	im := w.P.Func("(*bep44.Item).IsMutable")
	for _, b := range im.Blocks {
		for _, ins := range b.Instrs {
			if r, ok := ins.(*ssa.Return); ok {
				s := w.TS.Of(r.Results[0]).String()
				rr.At(w, r, "Item.IsMutable ⇔ K ≠ zero key", strings.Contains(s, ".K") && strings.Contains(s, "Empty32ByteArray") && strings.Contains(s, "!="), s)
			}
		}
	}
}

func c12r4(w *World, rr *RuleRun) {
	h := w.handler()
	a := w.bep44()
	argsTarget := w.P.Field("krpc", "MsgArgs", "Target")
	// get: the served item
	gets := w.CallsInRegion(h.fn, a.wGet)
	if len(gets) != 1 {
		rr.Oblige(shortFuncName(h.fn), "get handler reads the store once", w.P.Pos(h.fn.Pos()), false, fmt.Sprintf("%d Wrapper.Get calls", len(gets)))
	}
	for _, g := range gets {
		t := w.TS.Of(callInstrCommon(g).Args[1])
		base, ok := fieldChain(t, h.msgA, argsTarget)
		rr.At(w, g, "get looks up args.target", ok && termEq(base, h.m), "key: "+t.String())
		item := &Term{Op: OpExtract, Name: "0", Args: []*Term{w.TS.Of(g.(ssa.Value))}}
		for _, fld := range []struct{ ret, item string }{{"V", "V"}, {"K", "K"}, {"Sig", "Sig"}, {"Seq", "Seq"}} {
			rf := w.P.Field("krpc", "Bep44Return", fld.ret)
			itf := w.P.Field("bep44", "Item", fld.item)
			n := 0
			for _, st := range w.FieldWrites(w.RegionOf(h.fn), rf) {
				s, isStore := st.(*ssa.Store)
				if !isStore {
					continue
				}
				n++
				v := w.TS.Of(s.Val)
				okF := false
				v.Walk(func(x *Term) bool {
					if x.Op == OpField && x.Obj == itf && termEq(x.Args[0], item) {
						okF = true
					}
					return true
				})
				rr.At(w, st, "reply field "+fld.ret+" comes from the stored item's "+fld.item, okF, fld.ret+" ← "+v.String())
			}
			if n == 0 {
				rr.Oblige(shortFuncName(h.fn), "reply field "+fld.ret+" is served", w.P.Pos(h.fn.Pos()), false, "no store to Return."+fld.ret)
			}
		}
	}
	// put: item literal built name-for-name from the arguments
	itemT := w.P.NamedType("bep44", "Item")
	lit := w.literalStoresRegion(h.fn, itemT)
	for _, f := range []string{"V", "K", "Salt", "Sig", "Cas", "Seq"} {
		v := lit[f]
		if v == nil {
			rr.Oblige(shortFuncName(h.fn), "put item field "+f+" set from the arguments", w.P.Pos(h.fn.Pos()), false, "field not set")
			continue
		}
		t := w.TS.Of(v)
		af := w.P.Field("krpc", "MsgArgs", f)
		x := t
		if x.Op == OpDeref {
			x = x.Args[0]
		}
		base, ok := fieldChain(x, h.msgA, af)
		rr.Oblige(shortFuncName(h.fn), "put item field "+f+" set from the arguments", w.P.Pos(h.fn.Pos()), ok && termEq(base, h.m), f+" ← "+t.String())
	}
	// the store's KRPC error is relayed
	for _, p := range w.CallsInRegion(h.fn, a.wPut) {
		pv := w.TS.Of(p.(ssa.Value))
		n := 0
		for _, se := range w.CallsInRegion(h.fn, h.sendError) {
			for _, e := range w.ArgTerms(se, 3) {
				if e.Contains(pv) {
					n++
					rr.At(w, se, "put relays the store's KRPC error", true, "error ← "+e.String())
					break
				}
			}
		}
		if n == 0 {
			rr.At(w, p, "put relays the store's KRPC error", false, "no sendError carries the error returned by store.Put")
		}
	}
}

func c12r5(w *World, rr *RuleRun) {
	sgt := w.P.Func("exts/getput.startGetTraversal")
	a := w.bep44()
	n := 0
	verified := func(alt *Alt) (bool, string) {
		hashEq := func(inner func(string) bool) bool {
			return alt.Has("b", true, func(t *Term) bool {
				if t.Op != OpBin || t.Name != "==" {
					return false
				}
				l, r := t.Args[0], t.Args[1]
				isSum := func(x *Term) bool {
					return x.Op == OpCall && strings.HasSuffix(x.Name, "sha1.Sum") && inner(x.String())
				}
				isTarget := func(x *Term) bool { return strings.HasPrefix(x.String(), "target") }
				return (isSum(l) && isTarget(r)) || (isSum(r) && isTarget(l))
			})
		}
		if hashEq(func(s string) bool { return !strings.Contains(s, "append") && strings.Contains(s, ".V") }) {
			return true, "sha1(v) == target"
		}
		keyOK := hashEq(func(s string) bool {
			return strings.Contains(s, "append") && strings.Contains(s, ".K") && strings.Contains(s, "salt")
		})
		verOK := alt.Has("b", true, func(t *Term) bool {
			return isCall(t, a.verify) && len(t.Args) == 5 && strings.Contains(t.Args[0].String(), ".K") && strings.HasPrefix(t.Args[1].String(), "salt") &&
				strings.Contains(t.Args[2].String(), ".Seq") && strings.Contains(t.Args[3].String(), ".V") && strings.Contains(t.Args[4].String(), ".Sig")
		})
		if keyOK && verOK {
			return true, "sha1(k ‖ salt) == target ∧ Verify(k, salt, seq, v, sig)"
		}
		return false, fmt.Sprintf("keyMatch=%v verify=%v", keyOK, verOK)
	}
	// hand-off sites: select-sends in the traversal set-up and its closures; a select-send inside a
	// module helper they call counts at each of those calls (the helper hands over what it is given)
	own := map[*ssa.Function]bool{}
	for _, f := range append([]*ssa.Function{sgt}, allAnon(sgt)...) {
		own[f] = true
	}
	hasSelectSend := func(f *ssa.Function) bool {
		found := false
		eachInstr([]*ssa.Function{f}, func(_ *ssa.Function, ins ssa.Instruction) {
			if sel, ok := ins.(*ssa.Select); ok {
				for _, st := range sel.States {
					if st.Dir == types.SendOnly {
						found = true
					}
				}
			}
		})
		return found
	}
	for f := range own {
		for _, b := range f.Blocks {
			for _, ins := range b.Instrs {
				switch x := ins.(type) {
				case *ssa.Select:
					for _, st := range x.States {
						if st.Dir == types.SendOnly {
							n++
							w.Require(rr, ins, "value handed to the caller only after hash-match or key-match ∧ Verify", verified)
						}
					}
				case *ssa.Call:
					for _, e := range w.CG.SiteOut[x] {
						if !own[e.Callee] && w.P.IsLib(e.Callee) && e.Callee.Pkg == sgt.Pkg && hasSelectSend(e.Callee) {
							n++
							w.Require(rr, ins, "value handed to the caller only after hash-match or key-match ∧ Verify", verified)
						}
					}
				}
			}
		}
	}
	if n == 0 {
		rr.Oblige(shortFuncName(sgt), "result hand-off sites found", w.P.Pos(sgt.Pos()), false, "no select-send on the results channel")
	}
	// every send on the results channel is one of those select sends (no plain Send instruction)
	for _, f := range append([]*ssa.Function{sgt}, allAnon(sgt)...) {
		for _, b := range f.Blocks {
			for _, ins := range b.Instrs {
				if s, ok := ins.(*ssa.Send); ok {
					rr.At(w, s, "no unguarded send of a result", false, "plain channel send in the get traversal")
				}
			}
		}
	}
	// nothing taken from a reply outlives its verification: inside the query callback, state shared
	// between replies (variables captured from the enclosing function, directly or through a sibling
	// closure that writes them) is touched only once the reply has been verified
	writesCaptured := func(f *ssa.Function) bool {
		found := false
		eachInstr([]*ssa.Function{f}, func(_ *ssa.Function, ins ssa.Instruction) {
			if st, ok := ins.(*ssa.Store); ok {
				if _, isFV := ptrRootValue(st.Addr).(*ssa.FreeVar); isFV {
					found = true
				}
			}
		})
		return found
	}
	t := w.trav()
	for _, cb := range w.CG.FieldFuncs(t.doQuery) {
		if cb.Parent() != sgt {
			continue
		}
		nEff := 0
		eachInstr([]*ssa.Function{cb}, func(_ *ssa.Function, ins ssa.Instruction) {
			switch x := ins.(type) {
			case *ssa.Store:
				if _, isFV := ptrRootValue(x.Addr).(*ssa.FreeVar); isFV {
					nEff++
					w.Require(rr, ins, "state shared between replies is written only from a verified reply", verified)
				}
			case *ssa.Call:
				for _, e := range w.CG.SiteOut[x] {
					if e.Callee.Parent() == sgt && e.Callee != cb && writesCaptured(e.Callee) {
						nEff++
						w.Require(rr, ins, "state shared between replies is written only from a verified reply", verified)
					}
				}
			}
		})
		if nEff == 0 {
			rr.ObligeTrivial(shortFuncName(cb), "the get callback keeps no state between replies", w.P.Pos(cb.Pos()), true, "")
		}
	}
	// "among those the one with the highest sequence number": where the client keeps the best value
	// by comparing sequence numbers with an accumulator, the accumulator starts below every possible
	// sequence number (math.MinInt64) - a zero start would discard every item with a negative seq
	getF := w.P.FuncOpt("exts/getput.Get")
	seqF := w.P.Field("exts/getput", "GetResult", "Seq")
	if getF != nil {
		nCmp := 0
		eachInstr([]*ssa.Function{getF}, func(_ *ssa.Function, ins ssa.Instruction) {
			bo, ok := ins.(*ssa.BinOp)
			if !ok || !(bo.Op == token.GEQ || bo.Op == token.GTR || bo.Op == token.LSS || bo.Op == token.LEQ) {
				return
			}
			l, r := w.TS.Of(bo.X), w.TS.Of(bo.Y)
			if !(isFieldTerm(l, seqF) && isFieldTerm(r, seqF)) {
				return
			}
			nCmp++
			// the accumulator: the operand that is a field of a local of Get which is also stored to
			initOK := PrecededBy(ins, func(i2 ssa.Instruction) bool {
				st, ok := i2.(*ssa.Store)
				if !ok || fieldOfAddr(st.Addr) != seqF {
					return false
				}
				c, isC := ConstInt(st.Val)
				return isC && c == math.MinInt64
			})
			rr.At(w, ins, "the best-value accumulator starts at the lowest sequence number", initOK, "compares "+trunc(l.String(), 60)+" with "+trunc(r.String(), 60))
		})
		if nCmp == 0 {
			rr.ObligeTrivial(shortFuncName(getF), "no sequence-number accumulator in Get", "-", true, "")
		}
		// ... and a mutable value never ends the collection: "the highest among the valid values"
		// is only known when the lookup has nothing left to ask (or the caller gives up), so after a
		// mutable value every path leads back to the receive
		mutF := w.P.Field("exts/getput", "GetResult", "Mutable")
		var sel *ssa.Select
		eachInstr([]*ssa.Function{getF}, func(_ *ssa.Function, ins ssa.Instruction) {
			if x, ok := ins.(*ssa.Select); ok && x.Blocking {
				sel = x
			}
		})
		nMut := 0
		if sel != nil {
			eachInstr([]*ssa.Function{getF}, func(_ *ssa.Function, ins ssa.Instruction) {
				ifi, ok := ins.(*ssa.If)
				if !ok {
					return
				}
				cond, neg := ifi.Cond, false
				if u, isU := cond.(*ssa.UnOp); isU && u.Op == token.NOT {
					cond, neg = u.X, true
				}
				if !isFieldTerm(w.TS.Of(cond), mutF) {
					return
				}
				succ := ifi.Block().Succs[0]
				if neg {
					succ = ifi.Block().Succs[1]
				}
				nMut++
				escapes := false
				for _, b := range getF.Blocks {
					if len(b.Instrs) == 0 {
						continue
					}
					if ret, isRet := b.Instrs[len(b.Instrs)-1].(*ssa.Return); isRet && reachAvoidingAll(succ, 0, ret, []ssa.Instruction{sel}) {
						escapes = true
					}
				}
				rr.At(w, ins, "after a mutable value the collection goes on: every path leads back to the receive", !escapes, "Get can return straight after a mutable value, before the lookup has run out of nodes to ask: a later, higher sequence number is never seen")
			})
		}
		if nMut == 0 {
			rr.Oblige(shortFuncName(getF), "after a mutable value the collection goes on: every path leads back to the receive", w.P.Pos(getF.Pos()), false, "no Mutable test / blocking select found in Get")
		}
	}
}

func allAnon(f *ssa.Function) []*ssa.Function {
	var out []*ssa.Function
	for _, a := range f.AnonFuncs {
		out = append(out, a)
		out = append(out, allAnon(a)...)
	}
	return out
}

// checkRawStoreFlow: the configured raw store is read only to build the wrapper, so every served
// item passes the wrapper's expiry and validity checks (shared by C12.1 and C13.6).
func (w *World) checkRawStoreFlow(rr *RuleRun) {
	// the configured raw store is read only to build the wrapper
	cfgStore := w.P.Field("", "ServerConfig", "Store")
	newWrapper := w.P.Func("bep44.NewWrapper")
	for _, ld := range w.FieldReads(w.P.LibFuncs, cfgStore) {
		v := ld.(ssa.Value)
		ok := true
		det := ""
		for _, r := range *v.Referrers() {
			switch x := r.(type) {
			case *ssa.DebugRef:
			case *ssa.BinOp: // nil test
			case ssa.CallInstruction:
				if x.Common().StaticCallee() != newWrapper {
					ok = false
					det = instrString(r)
				}
			default:
				ok = false
				det = instrString(r)
			}
		}
		rr.At(w, ld, "ServerConfig.Store flows only into NewWrapper", ok, det)
	}
}

// c12r6: "a rejected put is answered with the BEP 44 error code". The codes are the dynamic
// krpc.Error values returned by Check / CheckIncoming; they reach the sender only if Wrapper.Put
// returns those very values (a wrapped error no longer satisfies the handler's type assertion and
// is answered 204), and if the handler sends the asserted value.
func c12r6(w *World, rr *RuleRun) {
	a := w.bep44()
	n := 0
	var chk func(x *Term, depth int) bool
	chk = func(x *Term, depth int) bool {
		if depth > 3 {
			return false
		}
		if isCall(x, a.check) || isCall(x, a.checkIn) {
			return true
		}
		if x.Op == OpExtract && len(x.Args) == 1 {
			return chk(x.Args[0], depth+1)
		}
		if x.Op == OpCall && (strings.Contains(x.Name, "Store).Put") || strings.Contains(x.Name, "Store).Get") || strings.Contains(x.Name, "Store).Del")) {
			return true // the backend's own error
		}
		if x.Op == OpCall {
			// a folded helper of Put that returns one of the above unchanged
			if g := w.FE.calleeFunc(x); g != nil && w.withinUp(g, a.wPut) {
				okAll := true
				nR := 0
				fg := w.FE.analysisFor(g)
				for _, ex := range fg.exits {
					for _, alt := range ex.st {
						rt := w.FE.Resolve(alt, ex.ret.Results[len(ex.ret.Results)-1])
						if rt.IsConst("nil") {
							continue
						}
						nR++
						if !chk(rt, depth+1) {
							okAll = false
						}
					}
				}
				return okAll && nR > 0
			}
		}
		return false
	}
	fp := w.FE.analysisFor(a.wPut)
	for _, ex := range fp.exits {
		if len(ex.ret.Results) != 1 {
			continue
		}
		bad := ""
		nNon := 0
		for _, alt := range ex.st {
			t := w.FE.Resolve(alt, ex.ret.Results[0])
			if t.IsConst("nil") {
				continue
			}
			nNon++
			if !chk(t, 0) {
				bad = trunc(t.String(), 120)
			}
		}
		if nNon == 0 {
			continue
		}
		n++
		rr.At(w, ex.ret, "Wrapper.Put returns the validator's (or the backend's) error value itself", bad == "", "returns "+bad)
	}
	if n == 0 {
		rr.Oblige(shortFuncName(a.wPut), "Wrapper.Put returns the validator's (or the backend's) error value itself", w.P.Pos(a.wPut.Pos()), false, "no error return found")
	}
	// the handler: the value sent after a failed Put is the asserted krpc.Error of that Put
	h := w.handler()
	nS := 0
	for _, p := range w.CallsInRegion(h.fn, a.wPut) {
		pt := w.TS.Of(p.(ssa.Value))
		for _, site := range w.CallsInRegion(h.fn, h.sendError) {
			if !PrecededBy(site, func(i ssa.Instruction) bool { return i == p }) {
				continue
			}
			var et *Term
			for _, cand := range w.ArgTerms(site, 3) {
				if cand.Contains(pt) {
					et = cand
				}
			}
			if et == nil {
				continue
			}
			nS++
			isAssert := false
			et.Walk(func(x *Term) bool {
				if x.Op == OpAssert || strings.Contains(x.Name, "krpc.Error") {
					isAssert = true
				}
				return !isAssert
			})
			rr.At(w, site, "a store rejection is sent as the krpc.Error it is", isAssert, "error argument "+trunc(et.String(), 120))
		}
	}
	if nS == 0 {
		rr.Oblige(shortFuncName(h.fn), "a store rejection is sent as the krpc.Error it is", w.P.Pos(h.fn.Pos()), false, "no sendError carrying the store's error after Wrapper.Put")
	}
}

// ptrRootValue: the value an address is derived from (through field / index / slice steps).
func ptrRootValue(v ssa.Value) ssa.Value {
	for i := 0; i < 8; i++ {
		switch x := v.(type) {
		case *ssa.FieldAddr:
			v = x.X
		case *ssa.IndexAddr:
			v = x.X
		case *ssa.Slice:
			v = x.X
		default:
			return v
		}
	}
	return v
}
