package main

// Obligations, verdicts, known findings and evidence.

import (
	"encoding/json"
	"fmt"
	"os"
	"path/filepath"
	"sort"
	"strings"
	"time"

	"golang.org/x/tools/go/ssa"
)

type Property struct {
	ID         string
	Title      string
	Decided    string // clauses decided statically
	NotDecided string // clauses explicitly not decided
	Assume     []string
	Rules      []*Rule
}

type Rule struct {
	ID    string
	Doc   string
	Floor int // minimum number of obligations confirmed by hand on the pinned tree
	Run   func(w *World, r *RuleRun)
}

type Obligation struct {
	Rule       string `json:"rule"`
	Function   string `json:"function"`
	Construct  string `json:"construct"`
	Pos        string `json:"pos"`
	OK         bool   `json:"ok"`
	Detail     string `json:"detail,omitempty"`
	Nontrivial bool   `json:"nontrivial"`
}

func (o Obligation) Key() string { return o.Rule + "|" + o.Function + "|" + o.Construct }

type RuleRun struct {
	Rule *Rule
	rep  *Report
	obs  []Obligation
	seen map[string]int
}

type Report struct {
	Prop     *Property
	Opts     RunOpts
	W        *World
	Obs      []Obligation
	BrokenBy []string
	perRule  map[string]*ruleStat
	ruleIDs  []string
	Extra    map[string]interface{}
	known    []KnownFinding
}

type ruleStat struct {
	Instances  int    `json:"instances"`
	Discharged int    `json:"discharged"`
	Floor      int    `json:"floor"`
	Doc        string `json:"doc"`
}

type KnownFinding struct {
	Property  string `json:"property"`
	Rule      string `json:"rule"`
	Function  string `json:"function"`
	Construct string `json:"construct"`
	What      string `json:"what"`
	Fixed     string `json:"fixed,omitempty"` // commit id: entry documents a repaired defect and suppresses nothing
}

func NewReport(p *Property, o RunOpts) *Report {
	r := &Report{Prop: p, Opts: o, perRule: map[string]*ruleStat{}, Extra: map[string]interface{}{}}
	b, err := os.ReadFile(filepath.Join(o.Verif, "known_findings.json"))
	if err == nil {
		var kf struct {
			Findings []KnownFinding `json:"findings"`
		}
		if err := json.Unmarshal(b, &kf); err != nil {
			r.BrokenBy = append(r.BrokenBy, "known_findings.json unreadable: "+err.Error())
		}
		r.known = kf.Findings
	}
	return r
}

func (rep *Report) Broken(msg string) {
	rep.BrokenBy = append(rep.BrokenBy, msg)
}

func (rep *Report) RunRule(w *World, rule *Rule) {
	rr := &RuleRun{Rule: rule, rep: rep}
	func() {
		defer func() {
			if r := recover(); r != nil {
				if be, ok := r.(BrokenError); ok {
					rep.Broken(rule.ID + ": " + be.Msg)
					return
				}
				panic(r)
			}
		}()
		rule.Run(w, rr)
	}()
	st := &ruleStat{Floor: rule.Floor, Doc: rule.Doc}
	for _, o := range rr.obs {
		st.Instances++
		if o.OK {
			st.Discharged++
		}
	}
	rep.perRule[rule.ID] = st
	rep.ruleIDs = append(rep.ruleIDs, rule.ID)
	rep.Obs = append(rep.Obs, rr.obs...)
	if st.Instances < rule.Floor {
		rep.Broken(fmt.Sprintf("%s: only %d obligations found, floor is %d (rule matches fewer sites than confirmed by hand: vacuous)", rule.ID, st.Instances, rule.Floor))
	}
}

// Oblige records one obligation.
func (rr *RuleRun) Oblige(fn string, construct string, pos string, ok bool, detail string) {
	construct = rr.uniqueConstruct(fn, construct)
	rr.obs = append(rr.obs, Obligation{Rule: rr.Rule.ID, Function: fn, Construct: construct, Pos: pos, OK: ok, Detail: detail, Nontrivial: true})
}

// ObligeTrivial records an obligation whose discharge needed no guard/origin/lock fact.
func (rr *RuleRun) ObligeTrivial(fn string, construct string, pos string, ok bool, detail string) {
	construct = rr.uniqueConstruct(fn, construct)
	rr.obs = append(rr.obs, Obligation{Rule: rr.Rule.ID, Function: fn, Construct: construct, Pos: pos, OK: ok, Detail: detail, Nontrivial: false})
}

// uniqueConstruct disambiguates repeated (function, construct) pairs within one rule by an
// occurrence ordinal (instruction order), so that two sites of the same shape are two obligations.
func (rr *RuleRun) uniqueConstruct(fn, construct string) string {
	if rr.seen == nil {
		rr.seen = map[string]int{}
	}
	k := fn + "|" + construct
	rr.seen[k]++
	if n := rr.seen[k]; n > 1 {
		return fmt.Sprintf("%s #%d", construct, n)
	}
	return construct
}

func (rr *RuleRun) At(w *World, ins ssa.Instruction, construct string, ok bool, detail string) {
	rr.Oblige(shortFuncName(ins.Parent()), construct, w.P.InstrPos(ins), ok, detail)
}

func (rr *RuleRun) Broken(format string, args ...interface{}) {
	rr.rep.Broken(rr.Rule.ID + ": " + fmt.Sprintf(format, args...))
}

func (rep *Report) isKnown(o Obligation) *KnownFinding {
	for i := range rep.known {
		k := &rep.known[i]
		if k.Fixed != "" {
			continue
		}
		if k.Property == rep.Prop.ID && k.Rule == o.Rule && k.Function == o.Function && k.Construct == o.Construct {
			return k
		}
	}
	return nil
}

// Finish prints the verdict lines, writes evidence and returns the exit code.
func (rep *Report) Finish() int {
	var viol, knownHits []Obligation
	seen := map[string]bool{}
	for _, o := range rep.Obs {
		if o.OK {
			continue
		}
		if seen[o.Key()] {
			continue
		}
		seen[o.Key()] = true
		if k := rep.isKnown(o); k != nil {
			knownHits = append(knownHits, o)
			fmt.Printf("KNOWN-FINDING: property=%s %s %s %s — %s\n", rep.Prop.ID, o.Rule, o.Function, o.Construct, k.What)
		} else {
			viol = append(viol, o)
		}
	}
	mutantMode := rep.Opts.Mutant != ""
	evDir := filepath.Join(rep.Opts.Verif, "evidence")
	replay := filepath.Join(evDir, rep.Prop.ID+".violation.txt")
	if len(viol) > 0 && !mutantMode && !rep.Opts.NoEvidence {
		os.MkdirAll(evDir, 0o755)
		var sb strings.Builder
		for _, o := range viol {
			fmt.Fprintf(&sb, "rule %s\nfunction %s\nconstruct %s\nat %s\n%s\n\n", o.Rule, o.Function, o.Construct, o.Pos, o.Detail)
		}
		os.WriteFile(replay, []byte(sb.String()), 0o644)
	} else if !mutantMode && !rep.Opts.NoEvidence {
		os.Remove(replay)
	}
	for _, o := range viol {
		fmt.Printf("VIOLATION property=%s replay=%s rule=%s function=%s construct=%q at=%s :: %s\n", rep.Prop.ID, replay, o.Rule, o.Function, o.Construct, o.Pos, firstLine(o.Detail))
	}
	for _, b := range rep.BrokenBy {
		fmt.Printf("BROKEN property=%s %s\n", rep.Prop.ID, firstLines(b, 30))
	}
	if rep.Opts.Explain {
		for _, o := range rep.Obs {
			st := "ok  "
			if !o.OK {
				st = "FAIL"
			}
			fmt.Printf("%s %s %s [%s] %s\n      %s\n", st, o.Rule, o.Function, o.Construct, o.Pos, strings.ReplaceAll(o.Detail, "\n", "\n      "))
		}
	}
	// a construct that breaks a rule is a violation (exit 1) even when other rules could not decide;
	// exit 2 is reserved for runs in which the checker could not decide and found nothing to report
	code := 0
	if len(rep.BrokenBy) > 0 {
		code = 2
	}
	if len(viol) > 0 {
		code = 1
	}
	if !mutantMode && !rep.Opts.NoEvidence {
		rep.writeEvidence(len(viol), len(knownHits), code)
	}
	total, dis := 0, 0
	for _, o := range rep.Obs {
		total++
		if o.OK {
			dis++
		}
	}
	fmt.Printf("%s %s tier=%s: %d obligations, %d discharged, %d known findings, %d violations, %d broken (%.1fs)\n",
		rep.Prop.ID, verdictWord(code), rep.Opts.Tier, total, dis, len(knownHits), len(viol), len(rep.BrokenBy), time.Since(rep.Opts.Start).Seconds())
	return code
}

func verdictWord(c int) string {
	switch c {
	case 0:
		return "PASS"
	case 1:
		return "VIOLATED"
	}
	return "BROKEN"
}

func firstLine(s string) string {
	if i := strings.IndexByte(s, '\n'); i >= 0 {
		return s[:i]
	}
	return s
}

func firstLines(s string, n int) string {
	lines := strings.Split(s, "\n")
	if len(lines) > n {
		lines = lines[:n]
	}
	return strings.Join(lines, " ⏎ ")
}

func (rep *Report) writeEvidence(viol, known, code int) {
	evDir := filepath.Join(rep.Opts.Verif, "evidence")
	os.MkdirAll(evDir, 0o755)
	total, dis := 0, 0
	nontriv := map[string]bool{}
	for _, o := range rep.Obs {
		total++
		if o.OK {
			dis++
		}
		if o.Nontrivial {
			nontriv[o.Key()] = true
		}
	}
	// samples: up to 3 obligations per rule, preferring non-trivial ones
	var samples []interface{}
	perRule := map[string]int{}
	for _, o := range rep.Obs {
		if perRule[o.Rule] >= 3 || !o.Nontrivial {
			continue
		}
		perRule[o.Rule]++
		samples = append(samples, o)
	}
	if len(samples) == 0 {
		for _, o := range rep.Obs {
			if len(samples) < 5 {
				samples = append(samples, o)
			}
		}
	}
	rules := map[string]*ruleStat{}
	for k, v := range rep.perRule {
		rules[k] = v
	}
	cov := map[string]interface{}{
		"explanation": "Static analysis of /repo's current source (go/packages + go/ssa, own call graph, guard-fact dataflow, lock-state dataflow). Decided: " +
			rep.Prop.Decided + " NOT decided (runtime quantities, declared): " + rep.Prop.NotDecided,
		"obligations":         total,
		"discharged":          dis,
		"evaluations":         total,
		"distinct_nontrivial": len(nontriv),
		"rule":                "one obligation per (rule, function, construct) instance found in the type-checked program; an obligation is non-trivial when its discharge needed at least one guard fact, value origin, lock-state or path argument (not a mere existence check); distinct = distinct (rule,function,construct) keys",
		"samples":             samples,
		"rules":               rules,
		"rules_run":           rep.ruleIDs,
		"checker_cmd":         fmt.Sprintf("/verif/bin/dhtlint -property %s -tier %s", rep.Prop.ID, rep.Opts.Tier),
		"trusted_base": []string{
			"Go type checker (go/types) and go/ssa construction (golang.org/x/tools v0.29.0)",
			"external API table in the checker (sync, chansync, rate.Limiter, net.PacketConn, context, time, sha1, ed25519, bencode, multiless, immutable semantics)",
			"field-based aliasing: struct fields are identified by their types.Var; distinct instances of one struct type are conflated",
			"user hooks (Conn, Store, PeerStore, OnQuery, OnAnnouncePeer, StartingNodes, SendLimiter) are opaque: assumed not to call back into the Server under its lock and not to mutate the *Msg they are shown",
		},
		"known_findings_printed": known,
		"broken":                 rep.BrokenBy,
		"exhaustive":             true,
	}
	if rep.W != nil {
		cov["packages"] = len(rep.W.P.Pkgs)
		cov["functions_analysed"] = len(rep.W.P.ModFuncs)
		cov["library_functions"] = len(rep.W.P.LibFuncs)
		cov["call_graph_edges"] = rep.W.CG.NumEdges
		cov["build_config"] = "default " + rep.W.P.BuildCfg
	}
	for k, v := range rep.Extra {
		cov[k] = v
	}
	var failing []Obligation
	for _, o := range rep.Obs {
		if !o.OK {
			failing = append(failing, o)
		}
	}
	sort.Slice(failing, func(i, j int) bool { return failing[i].Key() < failing[j].Key() })
	cov["failing_obligations"] = failing
	ev := map[string]interface{}{
		"property_id": rep.Prop.ID,
		"tier":        rep.Opts.Tier,
		"seed":        rep.Opts.Seed,
		"level":       "other",
		"coverage":    cov,
		"assumptions": append([]string{}, rep.Prop.Assume...),
		"wall_s":      time.Since(rep.Opts.Start).Seconds(),
		"violations":  viol,
		"exit_code":   code,
	}
	b, _ := json.MarshalIndent(ev, "", " ")
	os.WriteFile(filepath.Join(evDir, rep.Prop.ID+".json"), append(b, '\n'), 0o644)
}

// ---- registry ---------------------------------------------------------------------------------

var registry []*Property

func register(p *Property) { registry = append(registry, p) }

func allProperties() []*Property {
	sort.Slice(registry, func(i, j int) bool { return registry[i].ID < registry[j].ID })
	return registry
}

func findProperty(id string) *Property {
	for _, p := range registry {
		if p.ID == id {
			return p
		}
	}
	return nil
}
