package main

// Engine C: lock state. Mutex classes are struct fields of mutex type (instances are conflated per
// field). For every (function, class, entry state) context reachable from the roots, a forward
// dataflow computes the set of possible lock states {0 unlocked, R read-held, W write-held} before
// every instruction, following synchronous calls through context-sensitive summaries, applying
// deferred calls at exits in LIFO order and starting goroutines at state 0.

import (
	"fmt"
	"go/token"
	"go/types"
	"sort"
	"strings"

	"golang.org/x/tools/go/ssa"
)

const (
	LS0 = 0
	LSR = 1
	LSW = 2
)

var lsName = [...]string{"0", "R", "W"}

type lockOp int

const (
	opNone lockOp = iota
	opLock
	opUnlock
	opRLock
	opRUnlock
)

type LockIssue struct {
	Class *types.Var
	Kind  string // reentry | unlock-unheld | exit-held | defer-overflow
	Ins   ssa.Instruction
	Fn    *ssa.Function
	Ctx   string
}

type lockCtx struct {
	fn    *ssa.Function
	class *types.Var
	entry int
	envK  string
	env   *Env // not part of identity beyond envK; pointer so the struct stays comparable
}

func mkCtx(fn *ssa.Function, c *types.Var, entry int, env Env) lockCtx {
	k := env.Key()
	return lockCtx{fn: fn, class: c, entry: entry, envK: k, env: internEnv(k, env)}
}

var envIntern = map[string]*Env{}

func internEnv(k string, e Env) *Env {
	if p, ok := envIntern[k]; ok {
		return p
	}
	c := e
	envIntern[k] = &c
	return &c
}

type lstate struct {
	ls    int
	stack string // deferred call instruction ids, innermost last, separated by ","
}

type LockEngine struct {
	w        *World
	Classes  []*types.Var
	ops      map[ssa.Instruction]lockOpInfo
	touch    map[*types.Var]map[*ssa.Function]bool // functions that transitively (sync/defer/callback) perform an op of the class
	sum      map[lockCtx]map[int]bool
	busy     map[lockCtx]bool
	abs      map[*types.Var]map[ssa.Instruction]map[int]bool
	Issues   []LockIssue
	issueSet map[string]bool
	deferIdx map[string]ssa.Instruction
	Roots    []*ssa.Function
	ran      bool
}

type lockOpInfo struct {
	class *types.Var
	op    lockOp
}

func isMutexType(t types.Type) bool {
	n, ok := types.Unalias(t).(*types.Named)
	if !ok || n.Obj().Pkg() == nil {
		return false
	}
	pp := n.Obj().Pkg().Path()
	if pp != "sync" && pp != "github.com/anacrolix/sync" {
		return false
	}
	return n.Obj().Name() == "Mutex" || n.Obj().Name() == "RWMutex"
}

func NewLockEngine(w *World) *LockEngine {
	le := &LockEngine{w: w, ops: map[ssa.Instruction]lockOpInfo{}, touch: map[*types.Var]map[*ssa.Function]bool{},
		sum: map[lockCtx]map[int]bool{}, busy: map[lockCtx]bool{}, abs: map[*types.Var]map[ssa.Instruction]map[int]bool{},
		issueSet: map[string]bool{}, deferIdx: map[string]ssa.Instruction{}}
	classSet := map[*types.Var]bool{}
	for _, f := range w.P.ModFuncs {
		for _, b := range f.Blocks {
			for _, ins := range b.Instrs {
				c := callInstrCommon(ins)
				if c == nil || c.IsInvoke() {
					continue
				}
				o := calleeObj(c)
				if o == nil || o.Type().(*types.Signature).Recv() == nil {
					continue
				}
				rt := o.Type().(*types.Signature).Recv().Type()
				if pt, ok := rt.(*types.Pointer); ok {
					rt = pt.Elem()
				}
				if !isMutexType(rt) {
					continue
				}
				var op lockOp
				switch o.Name() {
				case "Lock":
					op = opLock
				case "Unlock":
					op = opUnlock
				case "RLock":
					op = opRLock
				case "RUnlock":
					op = opRUnlock
				default:
					continue
				}
				fv := fieldOfAddr(c.Args[0])
				if fv == nil {
					continue // local / global mutex: not a class we track
				}
				le.ops[ins] = lockOpInfo{fv, op}
				classSet[fv] = true
				if le.touch[fv] == nil {
					le.touch[fv] = map[*ssa.Function]bool{}
				}
				le.touch[fv][f] = true
			}
		}
	}
	for c := range classSet {
		le.Classes = append(le.Classes, c)
	}
	sort.Slice(le.Classes, func(i, j int) bool { return le.ClassName(le.Classes[i]) < le.ClassName(le.Classes[j]) })
	// transitive touch sets (non-go edges)
	for _, c := range le.Classes {
		t := le.touch[c]
		changed := true
		for changed {
			changed = false
			for _, f := range w.P.ModFuncs {
				if t[f] {
					continue
				}
				for _, e := range w.CG.Out[f] {
					if e.Mode != ModeGo && t[e.Callee] {
						t[f] = true
						changed = true
						break
					}
				}
			}
		}
	}
	return le
}

func (le *LockEngine) ClassName(c *types.Var) string {
	// find owning struct name
	for _, pk := range le.w.P.Pkgs {
		sc := pk.Types.Scope()
		for _, n := range sc.Names() {
			tn, ok := sc.Lookup(n).(*types.TypeName)
			if !ok {
				continue
			}
			st, ok := tn.Type().Underlying().(*types.Struct)
			if !ok {
				continue
			}
			for i := 0; i < st.NumFields(); i++ {
				if st.Field(i) == c {
					rel := strings.TrimPrefix(strings.TrimPrefix(pk.PkgPath, modPath), "/")
					if rel != "" {
						rel += "."
					}
					return rel + tn.Name() + "." + c.Name()
				}
			}
		}
	}
	return c.Name()
}

func (le *LockEngine) ClassByName(name string) *types.Var {
	for _, c := range le.Classes {
		if le.ClassName(c) == name {
			return c
		}
	}
	broken("lock class %q not found (have %v)", name, le.classNames())
	return nil
}

func (le *LockEngine) classNames() []string {
	var out []string
	for _, c := range le.Classes {
		out = append(out, le.ClassName(c))
	}
	return out
}

// apiRoot: exported function or method callable from outside the module (no unexported named type
// in its signature, exported receiver type).
func apiRoot(f *ssa.Function) bool {
	if f.Parent() != nil || f.Synthetic != "" {
		return false
	}
	obj, ok := f.Object().(*types.Func)
	if !ok || !obj.Exported() {
		if f.Name() == "init" || f.Name() == "main" {
			return true
		}
		return false
	}
	sig := f.Signature
	unexp := false
	var visit func(t types.Type, d int)
	visit = func(t types.Type, d int) {
		if d > 4 || unexp {
			return
		}
		switch t := types.Unalias(t).(type) {
		case *types.Named:
			if t.Obj().Pkg() != nil && isModPkgPath(t.Obj().Pkg().Path()) && !t.Obj().Exported() {
				unexp = true
			}
		case *types.Pointer:
			visit(t.Elem(), d+1)
		case *types.Slice:
			visit(t.Elem(), d+1)
		case *types.Signature:
			for i := 0; i < t.Params().Len(); i++ {
				visit(t.Params().At(i).Type(), d+1)
			}
			for i := 0; i < t.Results().Len(); i++ {
				visit(t.Results().At(i).Type(), d+1)
			}
		}
	}
	if sig.Recv() != nil {
		rt := sig.Recv().Type()
		if pt, ok := rt.(*types.Pointer); ok {
			rt = pt.Elem()
		}
		if n, ok := types.Unalias(rt).(*types.Named); ok && !n.Obj().Exported() {
			// methods of unexported types are reachable through interfaces only; handled via edges
			return false
		}
	}
	for i := 0; i < sig.Params().Len(); i++ {
		visit(sig.Params().At(i).Type(), 0)
	}
	return !unexp
}

// Run analyses every class from every root. Idempotent.
func (le *LockEngine) Run() {
	if le.ran {
		return
	}
	le.ran = true
	w := le.w
	for _, f := range w.P.ModFuncs {
		if apiRoot(f) {
			le.Roots = append(le.Roots, f)
		}
	}
	for _, c := range le.Classes {
		le.abs[c] = map[ssa.Instruction]map[int]bool{}
		for _, r := range le.Roots {
			exits := le.summary(mkCtx(r, c, LS0, Env{}))
			for s := range exits {
				if s != LS0 {
					le.issue(LockIssue{Class: c, Kind: "exit-held", Fn: r, Ctx: "root", Ins: r.Blocks[0].Instrs[0]})
				}
			}
		}
	}
}

func (le *LockEngine) issue(i LockIssue) {
	k := fmt.Sprintf("%s|%s|%p|%s", le.ClassName(i.Class), i.Kind, i.Ins, i.Fn)
	if le.issueSet[k] {
		return
	}
	le.issueSet[k] = true
	le.Issues = append(le.Issues, i)
}

func (le *LockEngine) record(c *types.Var, ins ssa.Instruction, s int) {
	m := le.abs[c][ins]
	if m == nil {
		m = map[int]bool{}
		le.abs[c][ins] = m
	}
	m[s] = true
}

// summary: exit lock states of fn for class when entered in ctx.entry. Also records absolute
// states and issues for the context.
func (le *LockEngine) summary(ctx lockCtx) map[int]bool {
	if r, ok := le.sum[ctx]; ok {
		return r
	}
	if le.busy[ctx] {
		return map[int]bool{ctx.entry: true}
	}
	if !le.w.P.IsMod(ctx.fn) || len(ctx.fn.Blocks) == 0 {
		return map[int]bool{ctx.entry: true}
	}
	le.busy[ctx] = true
	defer delete(le.busy, ctx)
	fn, c := ctx.fn, ctx.class
	in := map[*ssa.BasicBlock]map[lstate]bool{}
	in[fn.Blocks[0]] = map[lstate]bool{{ctx.entry, ""}: true}
	work := []*ssa.BasicBlock{fn.Blocks[0]}
	exits := map[int]bool{}
	for len(work) > 0 {
		b := work[0]
		work = work[1:]
		cur := map[lstate]bool{}
		for s := range in[b] {
			cur[s] = true
		}
		for _, ins := range b.Instrs {
			for s := range cur {
				le.record(c, ins, s.ls)
			}
			cur = le.transfer(ctx, ins, cur)
			if _, ok := ins.(*ssa.Return); ok {
				for s := range cur {
					exits[s.ls] = true
				}
			}
		}
		for _, s := range b.Succs {
			if in[s] == nil {
				in[s] = map[lstate]bool{}
			}
			grew := false
			for st := range cur {
				if !in[s][st] {
					in[s][st] = true
					grew = true
				}
			}
			if grew {
				work = append(work, s)
			}
		}
	}
	if len(exits) == 0 {
		// never returns (infinite loop / panics): callers continue nowhere; keep entry for robustness
		exits[ctx.entry] = true
	}
	le.sum[ctx] = exits
	return exits
}

func (le *LockEngine) applyOp(ctx lockCtx, ins ssa.Instruction, op lockOp, ls int) int {
	c := ctx.class
	switch op {
	case opLock:
		if ls != LS0 {
			le.issue(LockIssue{Class: c, Kind: "reentry", Ins: ins, Fn: ins.Parent(), Ctx: lsName[ls]})
		}
		return LSW
	case opRLock:
		if ls != LS0 {
			le.issue(LockIssue{Class: c, Kind: "reentry", Ins: ins, Fn: ins.Parent(), Ctx: lsName[ls]})
			return ls
		}
		return LSR
	case opUnlock:
		if ls != LSW {
			le.issue(LockIssue{Class: c, Kind: "unlock-unheld", Ins: ins, Fn: ins.Parent(), Ctx: lsName[ls]})
		}
		return LS0
	case opRUnlock:
		if ls != LSR {
			le.issue(LockIssue{Class: c, Kind: "unlock-unheld", Ins: ins, Fn: ins.Parent(), Ctx: lsName[ls]})
		}
		return LS0
	}
	return ls
}

// callEffect: states after executing the call instruction's callees synchronously from state ls.
func (le *LockEngine) callEffect(ctx lockCtx, ins ssa.Instruction, ls int) map[int]bool {
	out := map[int]bool{}
	if oi, ok := le.ops[ins]; ok {
		if oi.class == ctx.class {
			out[le.applyOp(ctx, ins, oi.op, ls)] = true
		} else {
			out[ls] = true
		}
		return out
	}
	edges := le.w.CG.CalleesCtx(ins, *ctx.env, le.w.TS)
	any := false
	for _, e := range edges {
		if e.Mode == ModeGo {
			continue
		}
		if !le.touch[ctx.class][e.Callee] {
			// still record absolute states inside (for guarded-by rules)
			le.summary(mkCtx(e.Callee, ctx.class, ls, e.Env))
			if e.Callback {
				continue
			}
			any = true
			out[ls] = true
			continue
		}
		ex := le.summary(mkCtx(e.Callee, ctx.class, ls, e.Env))
		if e.Callback {
			for s := range ex {
				if s != ls {
					// a callback that changes the lock state: treat as possible
					out[s] = true
				}
			}
			continue
		}
		any = true
		for s := range ex {
			out[s] = true
		}
	}
	if !any || le.w.CG.Unres[ins] {
		out[ls] = true
	}
	// static external callee or invoke with external implementations: unchanged state possible
	if c := callInstrCommon(ins); c != nil {
		if c.IsInvoke() {
			out[ls] = true
		}
	}
	return out
}

func (le *LockEngine) transfer(ctx lockCtx, ins ssa.Instruction, cur map[lstate]bool) map[lstate]bool {
	switch ins := ins.(type) {
	case *ssa.Call:
		out := map[lstate]bool{}
		for s := range cur {
			for ns := range le.callEffect(ctx, ins, s.ls) {
				out[lstate{ns, s.stack}] = true
			}
		}
		return out
	case *ssa.Go:
		for _, e := range le.w.CG.CalleesCtx(ins, *ctx.env, le.w.TS) {
			le.summaryRoot(mkCtx(e.Callee, ctx.class, LS0, e.Env))
		}
		return cur
	case *ssa.Defer:
		id := fmt.Sprintf("%p", ins)
		le.deferIdx[id] = ins
		out := map[lstate]bool{}
		for s := range cur {
			st := s.stack
			if strings.Count(st, ",") > 12 {
				le.issue(LockIssue{Class: ctx.class, Kind: "defer-overflow", Ins: ins, Fn: ins.Parent()})
				out[s] = true
				continue
			}
			if st != "" {
				st += ","
			}
			out[lstate{s.ls, st + id}] = true
		}
		return out
	case *ssa.RunDefers:
		out := map[lstate]bool{}
		for s := range cur {
			states := map[int]bool{s.ls: true}
			if s.stack != "" {
				ids := strings.Split(s.stack, ",")
				for i := len(ids) - 1; i >= 0; i-- {
					d := le.deferIdx[ids[i]]
					next := map[int]bool{}
					for ls := range states {
						// record the state in which the deferred call runs
						le.recordDeferred(ctx.class, d, ls)
						for ns := range le.callEffect(ctx, d, ls) {
							next[ns] = true
						}
					}
					states = next
				}
			}
			for ls := range states {
				out[lstate{ls, ""}] = true
			}
		}
		return out
	}
	return cur
}

// deferredAbs: lock state in which a deferred call actually executes (at function exit).
func (le *LockEngine) recordDeferred(c *types.Var, d ssa.Instruction, ls int) {
	k := deferredKey{d}
	_ = k
	m := le.abs[c][deferMarker(d)]
	if m == nil {
		m = map[int]bool{}
		le.abs[c][deferMarker(d)] = m
	}
	m[ls] = true
}

type deferredKey struct{ d ssa.Instruction }

// deferMarker maps a Defer instruction to a distinct key instruction for "state at execution time":
// we use the RunDefers-independent trick of keying by the Defer's own call value wrapper.
var deferMarkers = map[ssa.Instruction]ssa.Instruction{}

type markerInstr struct{ ssa.Instruction }

func deferMarker(d ssa.Instruction) ssa.Instruction {
	if m, ok := deferMarkers[d]; ok {
		return m
	}
	m := &markerInstr{d}
	deferMarkers[d] = m
	return m
}

func (le *LockEngine) summaryRoot(ctx lockCtx) {
	ex := le.summary(ctx)
	for s := range ex {
		if s != LS0 {
			le.issue(LockIssue{Class: ctx.class, Kind: "exit-held", Fn: ctx.fn, Ctx: "goroutine", Ins: ctx.fn.Blocks[0].Instrs[0]})
		}
	}
}

// StatesAt returns the possible absolute lock states of class before ins (nil if ins is in no
// analysed context, i.e. unreachable from the roots).
func (le *LockEngine) StatesAt(c *types.Var, ins ssa.Instruction) map[int]bool {
	le.Run()
	return le.abs[c][ins]
}

// StatesAtExec: for a Defer instruction, the states in which the deferred call executes.
func (le *LockEngine) StatesAtExec(c *types.Var, ins ssa.Instruction) map[int]bool {
	le.Run()
	if _, ok := ins.(*ssa.Defer); ok {
		return le.abs[c][deferMarker(ins)]
	}
	return le.abs[c][ins]
}

func statesString(m map[int]bool) string {
	if m == nil {
		return "-"
	}
	var parts []string
	for i := 0; i < 3; i++ {
		if m[i] {
			parts = append(parts, lsName[i])
		}
	}
	return strings.Join(parts, "")
}

// DepthString: compact rendering of the states of all classes before ins (debug dumps).
func (le *LockEngine) DepthString(ins ssa.Instruction) string {
	le.Run()
	var parts []string
	for _, c := range le.Classes {
		if m := le.abs[c][ins]; m != nil {
			s := statesString(m)
			if s != "0" {
				parts = append(parts, c.Name()+"="+s+"/"+le.ClassName(c))
			}
		}
	}
	return strings.Join(parts, " ")
}

// AllHeld reports whether every possible state in m is a held state (R or W; W only if write).
func allHeld(m map[int]bool, write bool) bool {
	if len(m) == 0 {
		return false
	}
	for s := range m {
		if s == LS0 || (write && s != LSW) {
			return false
		}
	}
	return true
}

// releasesClass: does executing ins possibly release the class (unlock op, or a call into a
// function that transitively performs an unlock of the class)?
func (le *LockEngine) releasesClass(c *types.Var, ins ssa.Instruction) bool {
	if oi, ok := le.ops[ins]; ok {
		return oi.class == c && (oi.op == opUnlock || oi.op == opRUnlock)
	}
	if _, ok := ins.(*ssa.Defer); ok {
		return false // runs at exit
	}
	if _, ok := ins.(*ssa.Go); ok {
		return false
	}
	for _, e := range le.w.CG.SiteOut[ins] {
		if e.Mode == ModeGo {
			continue
		}
		if le.hasUnlock(c, e.Callee, map[*ssa.Function]bool{}) {
			return true
		}
	}
	return false
}

func (le *LockEngine) hasUnlock(c *types.Var, f *ssa.Function, seen map[*ssa.Function]bool) bool {
	if seen[f] || !le.touch[c][f] {
		return false
	}
	seen[f] = true
	for _, b := range f.Blocks {
		for _, ins := range b.Instrs {
			if oi, ok := le.ops[ins]; ok && oi.class == c && (oi.op == opUnlock || oi.op == opRUnlock) {
				return true
			}
		}
	}
	for _, e := range le.w.CG.Out[f] {
		if e.Mode != ModeGo && le.hasUnlock(c, e.Callee, seen) {
			return true
		}
	}
	return false
}

// SameCriticalSection: a and b are in the same function, a precedes b, and no path from a to b
// releases the class in between.
func (le *LockEngine) SameCriticalSection(c *types.Var, a, b ssa.Instruction) (bool, string) {
	if a.Parent() != b.Parent() {
		return false, "different functions"
	}
	// forward search from a; stop at b; fail when passing a release
	type pos struct {
		blk *ssa.BasicBlock
		idx int
	}
	idxOf := func(ins ssa.Instruction) int {
		for i, x := range ins.Block().Instrs {
			if x == ins {
				return i
			}
		}
		return -1
	}
	start := pos{a.Block(), idxOf(a) + 1}
	seen := map[*ssa.BasicBlock]bool{}
	reached := false
	var bad ssa.Instruction
	var walk func(p pos)
	walk = func(p pos) {
		blk := p.blk
		for i := p.idx; i < len(blk.Instrs); i++ {
			ins := blk.Instrs[i]
			if ins == b {
				reached = true
				return
			}
			if ins == a {
				// a is executed again (loop): the fresh execution supersedes this one
				return
			}
			if le.releasesClass(c, ins) {
				// a release: paths continuing from here to b would be a violation
				if le.canReachAvoiding(blk, i+1, b, a) {
					bad = ins
				}
				return
			}
		}
		for _, s := range blk.Succs {
			if !seen[s] {
				seen[s] = true
				walk(pos{s, 0})
			}
		}
	}
	walk(start)
	if bad != nil {
		return false, "released at " + le.w.P.InstrPos(bad)
	}
	if !reached {
		return false, "second site not reachable from first"
	}
	return true, ""
}

// canReachAvoiding: target is reachable from (blk, idx) along a path that does not execute avoid.
func (le *LockEngine) canReachAvoiding(blk *ssa.BasicBlock, idx int, target, avoid ssa.Instruction) bool {
	seen := map[*ssa.BasicBlock]bool{}
	found := false
	var walk func(b *ssa.BasicBlock, from int)
	walk = func(b *ssa.BasicBlock, from int) {
		if found {
			return
		}
		for i := from; i < len(b.Instrs); i++ {
			if b.Instrs[i] == target {
				found = true
				return
			}
			if b.Instrs[i] == avoid {
				return
			}
		}
		for _, s := range b.Succs {
			if !seen[s] {
				seen[s] = true
				walk(s, 0)
			}
		}
	}
	walk(blk, idx)
	return found
}

func (le *LockEngine) canReach(blk *ssa.BasicBlock, idx int, target ssa.Instruction) bool {
	for i := idx; i < len(blk.Instrs); i++ {
		if blk.Instrs[i] == target {
			return true
		}
	}
	seen := map[*ssa.BasicBlock]bool{}
	stack := append([]*ssa.BasicBlock{}, blk.Succs...)
	for len(stack) > 0 {
		x := stack[len(stack)-1]
		stack = stack[:len(stack)-1]
		if seen[x] {
			continue
		}
		seen[x] = true
		if x == target.Block() {
			return true
		}
		stack = append(stack, x.Succs...)
	}
	return false
}

// ---- blocking operations ---------------------------------------------------------------------------

type BlockingOp struct {
	Ins  ssa.Instruction
	What string
}

// BlockingOps lists the instructions of fn that may block the goroutine (apart from mutex
// acquisition and socket reads, which are listed separately by What).
func (le *LockEngine) BlockingOps(fn *ssa.Function) []BlockingOp {
	var out []BlockingOp
	inSelect := map[ssa.Instruction]bool{}
	for _, b := range fn.Blocks {
		for _, ins := range b.Instrs {
			switch ins := ins.(type) {
			case *ssa.Select:
				if ins.Blocking {
					out = append(out, BlockingOp{ins, "blocking select"})
				}
				_ = inSelect
			case *ssa.Send:
				out = append(out, BlockingOp{ins, "channel send"})
			case *ssa.UnOp:
				if ins.Op == token.ARROW {
					out = append(out, BlockingOp{ins, "channel receive"})
				}
			case *ssa.Call:
				c := ins.Common()
				o := calleeObj(c)
				if o == nil || o.Pkg() == nil {
					continue
				}
				full := o.FullName()
				switch {
				case strings.HasSuffix(full, "sync.WaitGroup).Wait"):
					out = append(out, BlockingOp{ins, "WaitGroup.Wait"})
				case strings.HasSuffix(full, "rate.Limiter).Wait"), strings.HasSuffix(full, "rate.Limiter).WaitN"):
					out = append(out, BlockingOp{ins, "Limiter.Wait"})
				case full == "time.Sleep":
					out = append(out, BlockingOp{ins, "time.Sleep"})
				case o.Name() == "WriteTo" && c.IsInvoke():
					out = append(out, BlockingOp{ins, "socket write"})
				case o.Name() == "ReadFrom" && c.IsInvoke():
					out = append(out, BlockingOp{ins, "socket read"})
				}
			}
		}
	}
	return out
}
