package main

import (
	"fmt"
	"go/constant"
	"go/token"
	"go/types"
	"sort"
	"strings"

	"golang.org/x/tools/go/ssa"
)

func init() {
	register(&Property{
		ID:    "C17",
		Title: "BEP 42 node-ID security is computed exactly as specified",
		Decided: "C17.1 writer/reader agreement: SecureNodeId writes and NodeIdSecure compares exactly the (byte, mask, CRC shift) triples {(0,0xff,24),(1,0xff,16),(2,0xf8,8)} = 21 bits; the writer keeps id[2]&7 and stores to no other byte; " +
			"C17.2 same CRC input on both sides: crcIP(ip, id[19]); in crcIP the IPv4 form is chosen by To4() ≠ nil, the address is masked with the BEP 42 constants (03 0f 3f ff / 01 03 07 0f 1f 3f 7f ff), the seed is rand&7 shifted into the top three bits of byte 0, and CRC32-C (Castagnoli) runs over exactly the masked prefix ip[:len(mask)]; " +
			"C17.3 exemption and self-securing: NodeIdSecure returns true for local addresses before any comparison; the exemption covers 10/8, 172.16/12, 192.168/16, link-local and loopback and nothing else (every true answer of isLocalNetwork carries one of them as a positive fact); InitNodeId secures a freshly generated ID whenever a public IP is configured and (the ID is derived from the listen address, or security is not disabled); MakeDeterministicNodeID secures with the IP of the address it hashed. " +
			"C17.4 every << and >> in crcIP / SecureNodeId / NodeIdSecure (and helpers) moves its operand by a per-path constant smaller than the operand's width, so no seed, mask or CRC bit is silently shifted out; C17.5 the BEP 42 functions write address bytes only in a private copy (shared with C08.8).",
		NotDecided: "CRC32-C values and exhaustive agreement with an independent BEP 42 implementation over all addresses (value level); idempotence as a statement about all inputs (it follows from C17.1: the CRC input excludes the bits written).",
		Assume:     []string{"hash/crc32 implements CRC32-C for the Castagnoli table"},
		Rules: []*Rule{
			{ID: "C17.1", Doc: "21 bits: writer and reader agree on bytes, masks and shifts", Floor: 8, Run: c17r1},
			{ID: "C17.2", Doc: "CRC input: masks, seed, prefix length, polynomial", Floor: 7, Run: c17r2},
			{ID: "C17.3", Doc: "local-network exemption; self-generated IDs are secured", Floor: 6, Run: c17r3},
			{ID: "C17.4", Doc: "no seed, mask or CRC bit is shifted out: every shift in the BEP 42 functions moves its operand by less than the operand's width on every path", Floor: 4, Run: c17r4},
			{ID: "C17.5", Doc: "the address a node ID is checked against is not altered by the computation (shared with C08.8): the exemption test and the CRC see the address the caller passed", Floor: 1, Run: c08r8},
		},
	})
}

type crcTriple struct{ idx, mask, shift int64 }

func (t crcTriple) String() string { return fmt.Sprintf("(%d,%#x,%d)", t.idx, t.mask, t.shift) }

// crcPart parses ((crcIP(...) >> S) & M) (the & is optional: a byte conversion implies 0xff).
func crcPart(t *Term, crc *ssa.Function) (mask, shift int64, call *Term, ok bool) {
	mask = 0xff
	if t.Op == OpBin && t.Name == "&" {
		if m, isC := constOf(t.Args[1]); isC {
			mask, t = m, t.Args[0]
		} else if m, isC := constOf(t.Args[0]); isC {
			mask, t = m, t.Args[1]
		}
	}
	if t.Op == OpBin && t.Name == ">>" {
		s, isC := constOf(t.Args[1])
		if !isC {
			return 0, 0, nil, false
		}
		shift, t = s, t.Args[0]
	}
	if isCall(t, crc) {
		return mask, shift, t, true
	}
	return 0, 0, nil, false
}

func tripleSet(ts []crcTriple) string {
	var ss []string
	for _, t := range ts {
		ss = append(ss, t.String())
	}
	sort.Strings(ss)
	return strings.Join(ss, " ")
}

const wantTriples = "(0,0xff,24) (1,0xff,16) (2,0xf8,8)"

func c17r1(w *World, rr *RuleRun) {
	sec := w.P.Func("SecureNodeId")
	ver := w.P.Func("NodeIdSecure")
	crc := w.P.Func("crcIP")
	idW := w.ParamTerm(sec, "id")
	// writer: stores through id
	var wt []crcTriple
	var crcArgsW []*Term
	n := 0
	eachInstr([]*ssa.Function{sec}, func(_ *ssa.Function, ins ssa.Instruction) {
		st, ok := ins.(*ssa.Store)
		if !ok {
			return
		}
		ia, ok := st.Addr.(*ssa.IndexAddr)
		if !ok || !termEq(w.TS.Of(ia.X), idW) {
			return
		}
		n++
		idx, isC := ConstInt(ia.Index)
		if !isC {
			rr.At(w, ins, "SecureNodeId writes a constant byte position", false, "index "+w.TS.Of(ia.Index).String())
			return
		}
		v := w.TS.Of(st.Val)
		keep := int64(0)
		crcT := v
		if v.Op == OpBin && v.Name == "|" {
			for i := 0; i < 2; i++ {
				o := v.Args[1-i]
				if o.Op == OpBin && o.Name == "&" {
					if m, isK := constOf(o.Args[1]); isK && o.Args[0].Op == OpIndex && o.Args[0].Args[1].IsConst(fmt.Sprint(idx)) && o.Args[0].Args[0].Contains(idW) {
						keep, crcT = m, v.Args[i]
					}
				}
			}
		}
		m, s, call, okP := crcPart(crcT, crc)
		if !okP {
			rr.At(w, ins, "byte written by SecureNodeId is a shifted, masked part of the CRC", false, "stores "+trunc(v.String(), 160))
			return
		}
		crcArgsW = call.Args
		wt = append(wt, crcTriple{idx, m, s})
		rr.At(w, ins, fmt.Sprintf("SecureNodeId keeps exactly the complementary bits of byte %d", idx), keep == (0xff&^m), fmt.Sprintf("writes mask %#x, keeps mask %#x", m, keep))
	})
	rr.Oblige(shortFuncName(sec), "SecureNodeId writes the 21 CRC bits into bytes 0..2 and nothing else", w.P.Pos(sec.Pos()), tripleSet(wt) == wantTriples && n == 3, "writes "+tripleSet(wt))
	// reader: the all-compares-true return
	ff := w.FE.analysisFor(ver)
	idR := w.ParamTerm(ver, "id")
	var crcArgsR []*Term
	nTrue := 0
	// the result may be a constant per path (if-chain form) or the value of a short-circuit
	// expression (FF-r4): each exit state is split by assuming the result true / false
	type exitAlt struct {
		ret *ssa.Return
		alt *Alt
	}
	var trues, falses []exitAlt
	for _, ex := range ff.exits {
		for _, alt := range ex.st {
			t := w.FE.Resolve(alt, ex.ret.Results[0])
			for _, a := range w.FE.assume(alt.clone(), t, true, 0) {
				trues = append(trues, exitAlt{ex.ret, a})
			}
			for _, a := range w.FE.assume(alt.clone(), t, false, 0) {
				falses = append(falses, exitAlt{ex.ret, a})
			}
		}
	}
	for _, ea := range trues {
		{
			ex, alt := ea, ea.alt
			if alt.Has("b", true, func(x *Term) bool { return x.Op == OpCall && suffixName(x) == "isLocalNetwork" }) {
				continue
			}
			nTrue++
			var rt []crcTriple
			for k, t := range alt.terms {
				if k[0] != 'b' || !alt.facts[k] || t.Op != OpBin || t.Name != "==" {
					continue
				}
				for i := 0; i < 2; i++ {
					m, s, call, okP := crcPart(t.Args[i], crc)
					if !okP {
						continue
					}
					o := t.Args[1-i]
					om := int64(0xff)
					if o.Op == OpBin && o.Name == "&" {
						if mm, isK := constOf(o.Args[1]); isK {
							om, o = mm, o.Args[0]
						}
					}
					if o.Op == OpIndex && termEq(o.Args[0], idR) {
						if ix, isK := constOf(o.Args[1]); isK && om == m {
							rt = append(rt, crcTriple{ix, m, s})
							crcArgsR = call.Args
						} else if isK {
							rt = append(rt, crcTriple{ix, -om, s})
						}
					}
				}
			}
			rr.At(w, ex.ret, "NodeIdSecure accepts only when all 21 CRC bits match, with the writer's bytes, masks and shifts", tripleSet(rt) == wantTriples, "compares "+tripleSet(rt))
		}
	}
	if nTrue == 0 {
		rr.Oblige(shortFuncName(ver), "NodeIdSecure has an accepting path for non-local addresses", w.P.Pos(ver.Pos()), false, "")
	}
	// every rejecting path (false) is caused by one of the compares failing
	for _, ea := range falses {
		{
			ex, alt := ea, ea.alt
			ok := alt.Has("b", false, func(x *Term) bool {
				if x.Op != OpBin || x.Name != "==" {
					return false
				}
				_, _, _, a := crcPart(x.Args[0], crc)
				_, _, _, b := crcPart(x.Args[1], crc)
				return a || b
			})
			rr.At(w, ex.ret, "NodeIdSecure rejects only on a CRC mismatch", ok, "")
		}
	}
	// same CRC input: crcIP(ip [normalised], id[19])
	seedOK := func(args []*Term, id *Term) bool {
		if len(args) != 2 {
			return false
		}
		s := args[1]
		return s.Op == OpIndex && s.Args[1].IsConst("19") && s.Args[0].Contains(id)
	}
	rr.Oblige(shortFuncName(sec), "the writer seeds the CRC with id[19] and the address it was given", w.P.Pos(sec.Pos()), seedOK(crcArgsW, idW) && crcArgsW[0].Contains(w.ParamTerm(sec, "ip")), fmt.Sprint(termStrings(crcArgsW)))
	rr.Oblige(shortFuncName(ver), "the reader seeds the CRC with id[19] and the address it was given", w.P.Pos(ver.Pos()), seedOK(crcArgsR, idR) && crcArgsR[0].Contains(w.ParamTerm(ver, "ip")), fmt.Sprint(termStrings(crcArgsR)))
}

// byteTableOf: constant byte sequence of a []byte composite literal returned by fn on the path
// selected by want4 (To4() != nil).
func byteTables(w *World, fn *ssa.Function) map[bool][]int64 {
	out := map[bool][]int64{}
	ff := w.FE.analysisFor(fn)
	for _, ex := range ff.exits {
		for _, alt := range ex.st {
			is4 := alt.Has("n", true, func(x *Term) bool { return x.Op == OpCall && suffixName(x) == "To4" })
			// returned slice of an array alloc: collect constant element stores
			sl, ok := ex.ret.Results[0].(*ssa.Slice)
			if !ok {
				continue
			}
			al, ok := sl.X.(*ssa.Alloc)
			if !ok || al.Referrers() == nil {
				continue
			}
			ln, _ := arrayLen(al.Type())
			vals := make([]int64, ln)
			for i := range vals {
				vals[i] = -1
			}
			for _, r := range *al.Referrers() {
				ia, ok := r.(*ssa.IndexAddr)
				if !ok || ia.Referrers() == nil {
					continue
				}
				ix, isC := ConstInt(ia.Index)
				if !isC || ix < 0 || ix >= ln {
					continue
				}
				for _, r2 := range *ia.Referrers() {
					if st, ok := r2.(*ssa.Store); ok {
						if v, isK := ConstInt(st.Val); isK {
							vals[ix] = v
						}
					}
				}
			}
			out[is4] = vals
		}
	}
	return out
}

func c17r2(w *World, rr *RuleRun) {
	crc := w.P.Func("crcIP")
	mf := w.P.Func("maskForIP")
	tabs := byteTables(w, mf)
	want4 := []int64{0x03, 0x0f, 0x3f, 0xff}
	want6 := []int64{0x01, 0x03, 0x07, 0x0f, 0x1f, 0x3f, 0x7f, 0xff}
	rr.Oblige(shortFuncName(mf), "IPv4 addresses are masked with 03 0f 3f ff (selected by To4() ≠ nil)", w.P.Pos(mf.Pos()), fmt.Sprint(tabs[true]) == fmt.Sprint(want4), fmt.Sprintf("%x", tabs[true]))
	rr.Oblige(shortFuncName(mf), "IPv6 addresses are masked with 01 03 07 0f 1f 3f 7f ff", w.P.Pos(mf.Pos()), fmt.Sprint(tabs[false]) == fmt.Sprint(want6), fmt.Sprintf("%x", tabs[false]))
	// in crcIP
	randP := w.ParamTerm(crc, "rand")
	var okSeed, okMaskLoop, okSum, okPoly, okTo4 bool
	detSum := ""
	eachInstr([]*ssa.Function{crc}, func(_ *ssa.Function, ins ssa.Instruction) {
		switch x := ins.(type) {
		case *ssa.Store:
			ia, ok := x.Addr.(*ssa.IndexAddr)
			if !ok {
				return
			}
			v := w.TS.Of(x.Val)
			if c, isC := ConstInt(ia.Index); isC && c == 0 && v.Op == OpBin && v.Name == "|" {
				// ip[0] |= (rand & 7) << 5
				for i := 0; i < 2; i++ {
					sh := v.Args[i]
					if sh.Op == OpBin && sh.Name == "<<" && sh.Args[1].IsConst("5") {
						r := sh.Args[0]
						if r.Op == OpBin && r.Name == "&" && termEq(r.Args[0], randP) && r.Args[1].IsConst("7") {
							okSeed = true
						}
					}
				}
			}
			if v.Op == OpBin && v.Name == "&" && blockInCycle(ins.Block()) {
				// ip[i] &= mask[i], same index
				a, b := v.Args[0], v.Args[1]
				if a.Op == OpIndex && b.Op == OpIndex && termEq(a.Args[1], b.Args[1]) && termEq(a.Args[1], w.TS.Of(ia.Index)) && (isCall(b.Args[0], mf) || isCall(a.Args[0], mf)) {
					okMaskLoop = true
				}
			}
		case *ssa.Call:
			o := calleeObj(x.Common())
			if o == nil || o.Pkg() == nil {
				return
			}
			if o.Pkg().Path() == "hash/crc32" && o.Name() == "Checksum" {
				data := w.TS.Of(x.Call.Args[0])
				detSum = trunc(data.String(), 160)
				// ip[:len(mask)]
				if data.Op == OpSlice && data.Args[1].IsConst("-") && data.Args[2].Op == OpLen && isCall(data.Args[2].Args[0], mf) {
					okSum = true
				}
				tb := w.TS.Of(x.Call.Args[1])
				if tb.Op == OpCall && suffixName(tb) == "MakeTable" && len(tb.Args) == 1 {
					if k, ok := x.Call.Args[1].(*ssa.Call); ok {
						if c, ok := k.Call.Args[0].(*ssa.Const); ok && c.Value != nil && c.Value.Kind() == constant.Int {
							if v, _ := constant.Uint64Val(c.Value); v == 0x82f63b78 {
								okPoly = true
							}
						}
					}
				}
				// a package-level table variable initialised with MakeTable(Castagnoli) is also fine
				if !okPoly && strings.Contains(tb.String(), "Castagnoli") {
					okPoly = true
				}
			}
			if o.Name() == "To4" {
				okTo4 = true
			}
		}
	})
	rr.Oblige(shortFuncName(crc), "the seed is rand&7 placed in the top three bits of byte 0", w.P.Pos(crc.Pos()), okSeed, "")
	rr.Oblige(shortFuncName(crc), "each address byte is ANDed with the mask byte of the same index", w.P.Pos(crc.Pos()), okMaskLoop, "")
	rr.Oblige(shortFuncName(crc), "the checksum covers exactly the masked prefix ip[:len(mask)]", w.P.Pos(crc.Pos()), okSum, "Checksum over "+detSum)
	rr.Oblige(shortFuncName(crc), "the checksum is CRC32-C (Castagnoli polynomial)", w.P.Pos(crc.Pos()), okPoly, "")
	rr.Oblige(shortFuncName(crc), "IPv4 (incl. v4-mapped) addresses are reduced to their 4-byte form first", w.P.Pos(crc.Pos()), okTo4, "")
}

func c17r3(w *World, rr *RuleRun) {
	ver := w.P.Func("NodeIdSecure")
	iln := w.P.Func("isLocalNetwork")
	crc := w.P.Func("crcIP")
	ipV := w.ParamTerm(ver, "ip")
	// exemption precedes any comparison: the crcIP call is dominated by isLocalNetwork(ip)=false
	for _, site := range w.CallsIn(ver, crc, false) {
		w.Require(rr, site, "the CRC comparison is only reached for non-local addresses", func(alt *Alt) (bool, string) {
			if alt.Has("b", false, func(x *Term) bool { return isCall(x, iln) && len(x.Args) == 1 && termEq(x.Args[0], ipV) }) {
				return true, "isLocalNetwork(ip) = false"
			}
			return false, "local addresses are not exempted before the comparison"
		})
	}
	ff := w.FE.analysisFor(ver)
	okEx := false
	for _, ex := range ff.exits {
		for _, alt := range ex.st {
			if w.FE.Resolve(alt, ex.ret.Results[0]).IsConst("true") && alt.Has("b", true, func(x *Term) bool { return isCall(x, iln) && termEq(x.Args[0], ipV) }) {
				okEx = true
			}
		}
	}
	rr.Oblige(shortFuncName(ver), "every ID is accepted for a local-network address", w.P.Pos(ver.Pos()), okEx, "")
	// what isLocalNetwork=false excludes
	nets := map[string]string{}
	haveGlobals := true
	for _, g := range []string{"classA", "classB", "classC"} {
		gl := w.P.GlobalOpt("", g)
		if gl == nil {
			haveGlobals = false
			break
		}
		init := gl.Pkg.Func("init")
		for _, f := range append([]*ssa.Function{init}, allInitFuncs(gl.Pkg)...) {
			if f == nil {
				continue
			}
			for _, b := range f.Blocks {
				for _, ins := range b.Instrs {
					if st, ok := ins.(*ssa.Store); ok && st.Addr == ssa.Value(gl) {
						v := w.TS.Of(st.Val)
						if v.Op == OpCall && len(v.Args) == 1 && v.Args[0].Op == OpConst {
							nets[g] = strings.Trim(v.Args[0].Name, `"`)
						}
					}
				}
			}
		}
	}
	// or: one package-level table of nets, ranged over in full
	tableNets, tableOK := w.netsTableForm(iln)
	if !haveGlobals && !tableOK {
		rr.Broken("isLocalNetwork: the private nets are neither the three package variables nor one package-level table ranged over in full")
		return
	}
	sum := w.FE.Summary(iln, 0, "false", 0)
	cidrForm := len(sum) > 0
	for _, alt := range sum {
		for _, g := range []string{"classA", "classB", "classC"} {
			if !alt.Has("b", false, func(x *Term) bool {
				return x.Op == OpCall && suffixName(x) == "Contains" && strings.Contains(x.Args[0].String(), g)
			}) {
				cidrForm = false
			}
		}
	}
	if !haveGlobals {
		cidrForm = true
		sort.Strings(tableNets)
		nets = map[string]string{}
		if len(tableNets) == 3 {
			nets["classA"], nets["classB"], nets["classC"] = tableNets[0], tableNets[1], tableNets[2]
		} else {
			nets["table"] = strings.Join(tableNets, ",")
		}
	} else if !cidrForm && w.netsLoopForm(iln, []string{"classA", "classB", "classC"}) {
		// table-driven form: a loop over a local array holding exactly the three nets that returns
		// true on the first Contains(ip) and runs over every element otherwise
		cidrForm = true
	}
	if cidrForm {
		okNets := nets["classA"] == "10.0.0.0/8" && nets["classB"] == "172.16.0.0/12" && nets["classC"] == "192.168.0.0/16"
		rr.Oblige(shortFuncName(iln), "not-local ⇒ outside 10/8, 172.16/12 and 192.168/16", w.P.Pos(iln.Pos()), okNets, fmt.Sprintf("nets %v", nets))
	} else {
		// octet form: interval facts on the second octet for the 172.x range
		w.checkOctetForm(rr, iln)
	}
	okLL, okLB := len(sum) > 0, len(sum) > 0
	for _, alt := range sum {
		if !alt.Has("b", false, func(x *Term) bool { return x.Op == OpCall && suffixName(x) == "IsLinkLocalUnicast" }) {
			okLL = false
		}
		if !alt.Has("b", false, func(x *Term) bool { return x.Op == OpCall && suffixName(x) == "IsLoopback" }) {
			okLB = false
		}
	}
	// ... and nothing else is exempted: every way isLocalNetwork answers true carries one of the
	// BEP 42 exemptions as a positive fact
	loopForm := tableOK || (haveGlobals && w.netsLoopForm(iln, []string{"classA", "classB", "classC"}))
	nTrue := 0
	allowed := func(alt *Alt) bool {
		return alt.Has("b", true, func(x *Term) bool {
			if x.Op == OpCall && (suffixName(x) == "IsLinkLocalUnicast" || suffixName(x) == "IsLoopback") {
				return true
			}
			if x.Op == OpCall && suffixName(x) == "Contains" && len(x.Args) > 0 {
				r := x.Args[0].String()
				return loopForm || strings.Contains(r, "classA") || strings.Contains(r, "classB") || strings.Contains(r, "classC")
			}
			if x.Op == OpBin && x.Name == "==" {
				for k := 0; k < 2; k++ {
					if v, ok := constOf(x.Args[k]); ok && (v == 10 || v == 172 || v == 192) && x.Args[1-k].Op == OpIndex && x.Args[1-k].Args[1].IsConst("0") {
						return true
					}
				}
			}
			return false
		})
	}
	for _, ex := range w.FE.analysisFor(iln).exits {
		for _, alt := range ex.st {
			v := w.FE.Resolve(alt, ex.ret.Results[0])
			if v.IsConst("false") {
				continue
			}
			nTrue++
			okOnly := v.IsConst("true") && allowed(alt)
			if !v.IsConst("true") {
				// `return a || b || c` style: the returned term itself must be one of the exemptions
				okOnly = v.Op == OpCall && (suffixName(v) == "IsLinkLocalUnicast" || suffixName(v) == "IsLoopback" || (suffixName(v) == "Contains" && (loopForm || strings.Contains(v.Args[0].String(), "class"))))
			}
			rr.At(w, ex.ret, "local ⇒ one of the BEP 42 exemptions (10/8, 172.16/12, 192.168/16, link-local, loopback)", okOnly, "returns "+trunc(v.String(), 60)+" under {"+trunc(strings.Join(alt.Facts(), " ∧ "), 220)+"}")
		}
	}
	if nTrue == 0 {
		rr.Oblige(shortFuncName(iln), "local ⇒ one of the BEP 42 exemptions (10/8, 172.16/12, 192.168/16, link-local, loopback)", w.P.Pos(iln.Pos()), false, "no path answers true")
	}
	rr.Oblige(shortFuncName(iln), "not-local ⇒ not link-local", w.P.Pos(iln.Pos()), okLL, "")
	rr.Oblige(shortFuncName(iln), "not-local ⇒ not loopback", w.P.Pos(iln.Pos()), okLB, "")
	// InitNodeId
	ini := w.P.Func("(*ServerConfig).InitNodeId")
	pub := w.P.Field("", "ServerConfig", "PublicIP")
	conn := w.P.Field("", "ServerConfig", "Conn")
	noSec := w.P.Field("", "ServerConfig", "NoSecurity")
	fi := w.FE.analysisFor(ini)
	nGen := 0
	for _, ex := range fi.exits {
		for _, alt := range ex.st {
			// the ID is generated on every path except the one on which NodeId was already set (the
			// IsZero=true fact itself is killed by the assignment to NodeId)
			kept := alt.Has("b", false, func(x *Term) bool { return x.Op == OpCall && suffixName(x) == "IsZero" })
			if kept {
				continue
			}
			hasPub := alt.Has("n", true, func(x *Term) bool { return isFieldTerm(x, pub) })
			hasConn := alt.Has("n", true, func(x *Term) bool { return isFieldTerm(x, conn) })
			secOn := alt.Has("b", false, func(x *Term) bool { return isFieldTerm(x, noSec) })
			if !(hasPub && (hasConn || secOn)) {
				continue
			}
			nGen++
			called := alt.Called("SecureNodeId", func(s *Term) bool { return isFieldTerm(s, pub) })
			rr.At(w, ex.ret, "a generated ID is secured for the configured public IP (address-derived ID: always; random ID: unless security is disabled)", called, fmt.Sprintf("public IP set, listen-address-derived: %v, security enabled: %v", hasConn, secOn))
		}
	}
	if nGen == 0 {
		rr.Oblige(shortFuncName(ini), "InitNodeId has paths that generate an ID with a public IP configured", w.P.Pos(ini.Pos()), false, "")
	}
	// the paths on which a generated ID is left unsecured although a public IP is configured all
	// need Conn = nil: the server constructor must therefore settle Conn before it calls InitNodeId
	unsecuredNeedsNoConn, nUnsec := true, 0
	for _, ex := range fi.exits {
		for _, alt := range ex.st {
			if alt.Has("b", false, func(x *Term) bool { return x.Op == OpCall && suffixName(x) == "IsZero" }) {
				continue
			}
			if alt.Has("n", false, func(x *Term) bool { return isFieldTerm(x, pub) }) {
				continue // no public IP configured on this path
			}
			if alt.Called("SecureNodeId", func(s *Term) bool { return isFieldTerm(s, pub) }) {
				continue
			}
			nUnsec++
			if !alt.Has("n", false, func(x *Term) bool { return isFieldTerm(x, conn) }) {
				unsecuredNeedsNoConn = false
			}
		}
	}
	for _, e := range w.CG.CallersOf(ini) {
		if !w.P.IsLib(e.Caller) || e.Callback {
			continue
		}
		if nUnsec == 0 {
			rr.ObligeTrivialAt(w, e.Site, "InitNodeId is called with the listen socket settled", true, "InitNodeId secures every generated ID when a public IP is set")
			continue
		}
		if !unsecuredNeedsNoConn {
			rr.At(w, e.Site, "InitNodeId is called with the listen socket settled", false, "InitNodeId can leave a generated ID unsecured with a public IP set even when Conn is set")
			continue
		}
		w.Require(rr, e.Site, "InitNodeId is called with the listen socket settled", func(alt *Alt) (bool, string) {
			if alt.Has("n", true, func(x *Term) bool { return isFieldTerm(x, conn) }) {
				return true, "Conn ≠ nil"
			}
			if alt.Has("n", false, func(x *Term) bool {
				// error result of a net.Listen* call is nil: its connection was stored
				if x.Op != OpExtract || x.Name != "1" || len(x.Args) == 0 || x.Args[0].Op != OpCall {
					return false
				}
				return strings.HasPrefix(x.Args[0].Name, "net.Listen")
			}) {
				return true, "Conn freshly opened (net.Listen* succeeded)"
			}
			return false, "Conn may still be nil here, and InitNodeId leaves a random ID unsecured when Conn = nil and NoSecurity is set, whatever PublicIP says"
		})
	}
	for _, site := range w.CallsIn(ini, w.P.Func("SecureNodeId"), false) {
		c := callInstrCommon(site)
		idT := w.TS.Of(c.Args[0])
		rr.At(w, site, "InitNodeId secures the configuration's own NodeId", idT.Op == OpAddr && idT.Args[0].Op == OpField && idT.Args[0].Name == "NodeId", "secures "+idT.String())
	}
	// MakeDeterministicNodeID
	md := w.P.Func("MakeDeterministicNodeID")
	pubP := w.ParamTerm(md, "public")
	for _, site := range w.CallsIn(md, w.P.Func("SecureNodeId"), false) {
		ip := w.TS.Of(callInstrCommon(site).Args[1])
		rr.At(w, site, "the deterministic ID is secured for the IP of the address it was derived from", ip.Op == OpCall && len(ip.Args) == 1 && termEq(ip.Args[0], pubP), "ip "+ip.String())
	}
}

func allInitFuncs(p *ssa.Package) []*ssa.Function {
	var out []*ssa.Function
	for name, m := range p.Members {
		if f, ok := m.(*ssa.Function); ok && strings.HasPrefix(name, "init#") {
			out = append(out, f)
		}
	}
	sort.Slice(out, func(i, j int) bool { return out[i].Name() < out[j].Name() })
	return out
}

// checkOctetForm: isLocalNetwork written with explicit octet comparisons. Decided on the FALSE class
// (what "not local" excludes): no alternative may leave first octet = 10 possible; an alternative
// with first octet = 172 must confine the second octet to an interval disjoint from [16, 31]; an
// alternative with first octet = 192 must exclude second octet = 168.
func (w *World) checkOctetForm(rr *RuleRun, iln *ssa.Function) {
	sum := w.FE.Summary(iln, 0, "false", 0)
	if len(sum) == 0 {
		rr.Broken("isLocalNetwork: no false-class summary; exemption form not recognised")
		return
	}
	octet := func(x *Term, i int) bool {
		return x.Op == OpIndex && x.Args[1].IsConst(fmt.Sprint(i))
	}
	eqConst := func(alt *Alt, i int, c int64, sign bool) bool {
		return alt.Has("b", sign, func(x *Term) bool {
			if x.Op != OpBin || x.Name != "==" {
				return false
			}
			for k := 0; k < 2; k++ {
				if v, ok := constOf(x.Args[k]); ok && v == c && octet(x.Args[1-k], i) {
					return true
				}
			}
			return false
		})
	}
	mentionsOctets := false
	for _, alt := range sum {
		for _, t := range alt.terms {
			if anySub(t, func(x *Term) bool { return octet(x, 0) }) {
				mentionsOctets = true
			}
		}
	}
	if !mentionsOctets {
		// net.IP.IsPrivate is a third way to write it - but a wider one: it also answers true for the
		// IPv6 unique-local range fc00::/7, which the BEP 42 exemption table does not contain
		usesIsPrivate := false
		eachInstr(append([]*ssa.Function{iln}, allAnon(iln)...), func(_ *ssa.Function, ins ssa.Instruction) {
			if c := callInstrCommon(ins); c != nil {
				if o := calleeObj(c); o != nil && o.Name() == "IsPrivate" && o.Pkg() != nil && o.Pkg().Path() == "net" {
					usesIsPrivate = true
				}
			}
		})
		if usesIsPrivate {
			rr.Oblige(shortFuncName(iln), "the exemption is exactly the BEP 42 table (10/8, 172.16/12, 192.168/16, link-local, loopback)", w.P.Pos(iln.Pos()), false, "net.IP.IsPrivate also exempts fc00::/7: any ID verifies for such an address")
			return
		}
		rr.Broken("isLocalNetwork: private-range exemption is expressed neither through the three CIDR nets nor through octet comparisons")
		return
	}
	for i, alt := range sum {
		facts := "{" + trunc(strings.Join(alt.Facts(), " ∧ "), 260) + "}"
		if alt.Has("n", false, func(x *Term) bool { return x.Op == OpCall && suffixName(x) == "To4" }) {
			rr.ObligeTrivial(shortFuncName(iln), fmt.Sprintf("not-local case %d is not an IPv4 address (private IPv4 ranges do not apply)", i+1), w.P.Pos(iln.Pos()), true, facts)
			continue
		}
		// 10/8
		not10 := eqConst(alt, 0, 10, false) || eqConst(alt, 0, 172, true) || eqConst(alt, 0, 192, true)
		rr.Oblige(shortFuncName(iln), fmt.Sprintf("not-local case %d excludes 10/8", i+1), w.P.Pos(iln.Pos()), not10, facts)
		// 172.16/12
		ok172 := eqConst(alt, 0, 172, false) || eqConst(alt, 0, 10, true) || eqConst(alt, 0, 192, true)
		if !ok172 {
			lo, hi := int64(0), int64(255)
			for k, t := range alt.terms {
				if k[0] != 'b' || t.Op != OpBin || t.Name != "<" {
					continue
				}
				sign := alt.facts[k]
				if c, ok := constOf(t.Args[1]); ok && octet(t.Args[0], 1) { // o < c
					if sign && c-1 < hi {
						hi = c - 1
					}
					if !sign && c > lo {
						lo = c
					}
				}
				if c, ok := constOf(t.Args[0]); ok && octet(t.Args[1], 1) { // c < o
					if sign && c+1 > lo {
						lo = c + 1
					}
					if !sign && c < hi {
						hi = c
					}
				}
			}
			ok172 = hi < 16 || lo > 31
			facts = fmt.Sprintf("first octet may be 172 with second octet in [%d, %d] ", lo, hi) + facts
		}
		rr.Oblige(shortFuncName(iln), fmt.Sprintf("not-local case %d excludes 172.16.0.0/12 (second octet 16..31)", i+1), w.P.Pos(iln.Pos()), ok172, facts)
		// 192.168/16
		ok192 := eqConst(alt, 0, 192, false) || eqConst(alt, 0, 10, true) || eqConst(alt, 0, 172, true) || eqConst(alt, 1, 168, false)
		rr.Oblige(shortFuncName(iln), fmt.Sprintf("not-local case %d excludes 192.168/16", i+1), w.P.Pos(iln.Pos()), ok192, facts)
	}
	_ = types.Typ
}

// netsLoopForm: fn ranges over a local array literal whose elements are the named globals, calls
// Contains(ip) on the element in the loop, returns true when it holds, and the range covers the
// whole array.
func (w *World) netsLoopForm(fn *ssa.Function, globals []string) bool {
	var arr *ssa.Alloc
	have := map[string]bool{}
	eachInstr([]*ssa.Function{fn}, func(_ *ssa.Function, ins ssa.Instruction) {
		st, ok := ins.(*ssa.Store)
		if !ok {
			return
		}
		ia, ok := st.Addr.(*ssa.IndexAddr)
		if !ok {
			return
		}
		al, ok := ia.X.(*ssa.Alloc)
		if !ok {
			return
		}
		if _, isArr := al.Type().Underlying().(*types.Pointer).Elem().Underlying().(*types.Array); !isArr {
			return
		}
		if _, isConst := ia.Index.(*ssa.Const); !isConst {
			return
		}
		v := w.TS.Of(st.Val)
		for _, g := range globals {
			if v.Op == OpGlobal && v.Name == g || (v.Op == OpDeref && len(v.Args) == 1 && v.Args[0].Op == OpGlobal && v.Args[0].Name == g) {
				have[g] = true
				arr = al
			}
		}
	})
	if arr == nil {
		return false
	}
	for _, g := range globals {
		if !have[g] {
			return false
		}
	}
	n, _ := arrayLen(arr.Type().Underlying().(*types.Pointer).Elem())
	if int(n) != len(globals) {
		return false
	}
	// the loop: an IndexAddr on the array with a range index covering it, whose loaded element is the
	// receiver of Contains; the true branch of that call returns true
	okLoop := false
	eachInstr([]*ssa.Function{fn}, func(_ *ssa.Function, ins ssa.Instruction) {
		c := callInstrCommon(ins)
		if c == nil || c.IsInvoke() || c.StaticCallee() == nil || c.StaticCallee().Name() != "Contains" || len(c.Args) != 2 {
			return
		}
		var idx ssa.Value
		switch x := c.Args[0].(type) {
		case *ssa.UnOp: // *(&arr[i])
			if ia, ok := x.X.(*ssa.IndexAddr); ok && ia.X == ssa.Value(arr) {
				idx = ia.Index
			}
		case *ssa.Index: // (*arr)[i]
			if ld, ok := x.X.(*ssa.UnOp); ok && ld.X == ssa.Value(arr) {
				idx = x.Index
			}
		}
		if idx == nil {
			return
		}
		covers := false
		if ln, isRange := rangeIndexOver(idx); isRange && ln == n {
			covers = true
		}
		if bo, ok := idx.(*ssa.BinOp); ok && bo.Op == token.ADD && bo.Referrers() != nil {
			// rotated range loop: i = phi(-1, i) + 1, tested i < n
			if ph, ok := bo.X.(*ssa.Phi); ok && len(ph.Edges) == 2 {
				start, isC := ConstInt(ph.Edges[0])
				one, isOne := ConstInt(bo.Y)
				if isC && start == -1 && isOne && one == 1 && ph.Edges[1] == ssa.Value(bo) {
					for _, r := range *bo.Referrers() {
						if cmp, ok := r.(*ssa.BinOp); ok && cmp.Op == token.LSS && cmp.X == ssa.Value(bo) {
							if lim, ok := ConstInt(cmp.Y); ok && lim == n {
								covers = true
							}
						}
					}
				}
			}
		}
		if !covers {
			return
		}
		cv, ok := ins.(ssa.Value)
		if !ok || cv.Referrers() == nil {
			return
		}
		for _, r := range *cv.Referrers() {
			if iff, ok := r.(*ssa.If); ok {
				tb := iff.Block().Succs[0]
				for _, i2 := range tb.Instrs {
					if ret, ok := i2.(*ssa.Return); ok && len(ret.Results) == 1 && w.TS.Of(ret.Results[0]).IsConst("true") {
						okLoop = true
					}
				}
			}
		}
	})
	return okLoop
}

// netsTableForm: isLocalNetwork ranges over the whole of one package-level slice of nets, returning
// true on the first Contains(ip); the slice is assigned once, in the package initialiser, from a
// literal whose elements are mustParseCIDRIPNet(<constant>). Returns the constants.
func (w *World) netsTableForm(fn *ssa.Function) ([]string, bool) {
	var table *ssa.Global
	okLoop := false
	eachInstr([]*ssa.Function{fn}, func(_ *ssa.Function, ins ssa.Instruction) {
		c := callInstrCommon(ins)
		if c == nil || c.IsInvoke() || c.StaticCallee() == nil || c.StaticCallee().Name() != "Contains" || len(c.Args) != 2 {
			return
		}
		ld, ok := c.Args[0].(*ssa.UnOp)
		if !ok {
			return
		}
		ia, ok := ld.X.(*ssa.IndexAddr)
		if !ok {
			return
		}
		sl, ok := ia.X.(*ssa.UnOp)
		if !ok {
			return
		}
		g, ok := sl.X.(*ssa.Global)
		if !ok || !isRangeIndex(ia.Index, sl) {
			return
		}
		cv, _ := ins.(ssa.Value)
		if cv == nil || cv.Referrers() == nil {
			return
		}
		for _, r := range *cv.Referrers() {
			if iff, ok := r.(*ssa.If); ok {
				for _, i2 := range iff.Block().Succs[0].Instrs {
					if ret, ok := i2.(*ssa.Return); ok && len(ret.Results) == 1 && w.TS.Of(ret.Results[0]).IsConst("true") {
						okLoop = true
						table = g
					}
				}
			}
		}
	})
	if !okLoop || table == nil {
		return nil, false
	}
	// the table's single assignment
	var out []string
	nStores := 0
	ok := true
	eachInstr(w.P.ModFuncs, func(f *ssa.Function, ins ssa.Instruction) {
		st, isSt := ins.(*ssa.Store)
		if !isSt || st.Addr != ssa.Value(table) {
			return
		}
		nStores++
		if f.Name() != "init" || f.Signature.Recv() != nil {
			ok = false
			return
		}
		sl, isSl := st.Val.(*ssa.Slice)
		if !isSl {
			ok = false
			return
		}
		arr, isAl := sl.X.(*ssa.Alloc)
		if !isAl || sl.Low != nil || sl.High != nil || arr.Referrers() == nil {
			ok = false
			return
		}
		n, _ := arrayLen(arr.Type().Underlying().(*types.Pointer).Elem())
		for _, r := range *arr.Referrers() {
			ia, isIA := r.(*ssa.IndexAddr)
			if !isIA || ia.Referrers() == nil {
				continue
			}
			for _, r2 := range *ia.Referrers() {
				if es, isES := r2.(*ssa.Store); isES && es.Addr == ssa.Value(ia) {
					v := w.TS.Of(es.Val)
					if v.Op == OpCall && len(v.Args) == 1 && v.Args[0].Op == OpConst {
						out = append(out, strings.Trim(v.Args[0].Name, `"`))
					} else {
						ok = false
					}
				}
			}
		}
		if int64(len(out)) != n {
			ok = false
		}
	})
	// nothing else writes or appends to it
	eachInstr(w.P.ModFuncs, func(f *ssa.Function, ins ssa.Instruction) {
		if ia, isIA := ins.(*ssa.IndexAddr); isIA {
			if ld, isLd := ia.X.(*ssa.UnOp); isLd && ld.X == ssa.Value(table) && ia.Referrers() != nil {
				for _, r := range *ia.Referrers() {
					if es, isES := r.(*ssa.Store); isES && es.Addr == ssa.Value(ia) {
						ok = false
					}
				}
			}
		}
	})
	return out, ok && nStores == 1
}

// c17r4: shift widths. In Go a shift by at least the operand's width yields 0 (or the sign), silently:
// `uint32(seed) << 61` drops the seed, `crc >> 32` compares against 0. For every << and >> in crcIP,
// SecureNodeId, NodeIdSecure (and helpers folded into them) the amount, resolved on every path
// (constants, + - *, per-path values of phis), must be a constant smaller than the width of the
// shifted operand. An amount that does not resolve to a constant is listed, not judged.
func c17r4(w *World, rr *RuleRun) {
	var evalInt func(t *Term) (int64, bool)
	evalInt = func(t *Term) (int64, bool) {
		if t == nil {
			return 0, false
		}
		if c, ok := constOf(t); ok {
			return c, true
		}
		switch t.Op {
		case OpConv:
			if len(t.Args) == 1 {
				return evalInt(t.Args[0])
			}
		case OpBin:
			if len(t.Args) != 2 {
				return 0, false
			}
			a, okA := evalInt(t.Args[0])
			b, okB := evalInt(t.Args[1])
			if !okA || !okB {
				return 0, false
			}
			switch t.Name {
			case "+":
				return a + b, true
			case "-":
				return a - b, true
			case "*":
				return a * b, true
			}
		}
		return 0, false
	}
	var fns []*ssa.Function
	seen := map[*ssa.Function]bool{}
	for _, name := range []string{"crcIP", "SecureNodeId", "NodeIdSecure"} {
		for _, f := range w.regionFuncs(w.P.Func(name)) {
			if !seen[f] {
				seen[f] = true
				fns = append(fns, f)
			}
		}
	}
	// module helpers called from them (mask tables and the like)
	for i := 0; i < len(fns); i++ {
		eachInstr([]*ssa.Function{fns[i]}, func(_ *ssa.Function, ins ssa.Instruction) {
			if c := callInstrCommon(ins); c != nil && !c.IsInvoke() {
				if g := c.StaticCallee(); g != nil && w.P.IsLib(g) && len(g.Blocks) > 0 && !seen[g] && g.Pkg == fns[0].Pkg {
					seen[g] = true
					fns = append(fns, g)
				}
			}
		})
	}
	sizes := types.SizesFor("gc", "amd64")
	eachInstr(fns, func(fn *ssa.Function, ins ssa.Instruction) {
		bo, ok := ins.(*ssa.BinOp)
		if !ok || (bo.Op != token.SHL && bo.Op != token.SHR) {
			return
		}
		xb, isB := bo.X.Type().Underlying().(*types.Basic)
		if !isB || xb.Info()&types.IsInteger == 0 || xb.Info()&types.IsUntyped != 0 {
			return
		}
		width := sizes.Sizeof(bo.X.Type()) * 8
		construct := fmt.Sprintf("shift %s %s … by less than %d bits", w.TS.Of(bo.X).String(), bo.Op, width)
		w.Require(rr, ins, trunc(construct, 160), func(alt *Alt) (bool, string) {
			amt := w.FE.Resolve(alt, bo.Y)
			c, isK := evalInt(amt)
			if !isK {
				return true, "amount " + trunc(amt.String(), 80) + " not constant on this path (not judged)"
			}
			if c < 0 || c >= width {
				return false, fmt.Sprintf("a %d-bit operand is shifted by %d: every bit is lost", width, c)
			}
			return true, fmt.Sprintf("by %d", c)
		})
	})
}
