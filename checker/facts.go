package main

// Engine B: guard facts. A path-sensitive forward dataflow over one function's SSA CFG whose state
// is a small DNF of fact sets ("alternatives"). Facts are signed atoms over canonical terms:
//   b:T   the boolean term T is true / false
//   n:T   the pointer-like term T is non-nil / nil
// plus per-alternative bindings of phis and inlined-call results to terms (so that a value selected
// on a particular path is known on that path). Return-class summaries of module callees are
// imported when a branch tests a call result. Infeasible paths are pruned only by direct
// contradiction; everything else is over-approximated (facts are dropped, never invented).

import (
	"go/token"
	"go/types"
	"sort"
	"strings"

	"golang.org/x/tools/go/ssa"
)

const maxAlts = 32

type Alt struct {
	facts map[string]bool
	terms map[string]*Term
	bind  map[string]*Term
	bkey  map[string]*Term // key terms of bind (for kills)
	sig   string
}

func newAlt() *Alt {
	return &Alt{facts: map[string]bool{}, terms: map[string]*Term{}, bind: map[string]*Term{}, bkey: map[string]*Term{}}
}

func (a *Alt) clone() *Alt {
	n := newAlt()
	for k, v := range a.facts {
		n.facts[k] = v
		n.terms[k] = a.terms[k]
	}
	for k, v := range a.bind {
		n.bind[k] = v
		n.bkey[k] = a.bkey[k]
	}
	return n
}

func (a *Alt) signature() string {
	if a.sig != "" {
		return a.sig
	}
	keys := make([]string, 0, len(a.facts)+len(a.bind))
	for k, v := range a.facts {
		if v {
			keys = append(keys, "+"+k)
		} else {
			keys = append(keys, "-"+k)
		}
	}
	for k, v := range a.bind {
		keys = append(keys, "@"+k+"="+v.String())
	}
	sort.Strings(keys)
	a.sig = strings.Join(keys, "\x00")
	return a.sig
}

// Facts lists the facts as "+key"/"-key" strings (sorted), for evidence and messages.
func (a *Alt) Facts() []string {
	var out []string
	for k, v := range a.facts {
		s := k
		if !v {
			s = "¬" + k
		}
		out = append(out, s)
	}
	sort.Strings(out)
	return out
}

type DNF []*Alt

func top() DNF { return DNF{newAlt()} }

func (d DNF) String() string {
	var parts []string
	for _, a := range d {
		parts = append(parts, "{"+strings.Join(a.Facts(), " ∧ ")+"}")
	}
	return strings.Join(parts, " ∨ ")
}

// weaker reports whether a's facts and bindings are a subset of b's (a is implied by b).
func weaker(a, b *Alt) bool {
	if len(a.facts) > len(b.facts) || len(a.bind) > len(b.bind) {
		return false
	}
	for k, v := range a.facts {
		if bv, ok := b.facts[k]; !ok || bv != v {
			return false
		}
	}
	for k, v := range a.bind {
		if bv, ok := b.bind[k]; !ok || bv.String() != v.String() {
			return false
		}
	}
	return true
}

func normalizeDNF(d DNF, forceCollapse bool) (DNF, bool) {
	if len(d) == 0 {
		return d, false
	}
	seen := map[string]bool{}
	var out DNF
	for _, a := range d {
		a.sig = ""
		s := a.signature()
		if seen[s] {
			continue
		}
		seen[s] = true
		out = append(out, a)
	}
	// subsumption: drop alternatives implied by a weaker one
	var kept DNF
	for i, a := range out {
		drop := false
		for j, b := range out {
			if i != j && weaker(b, a) && (!weaker(a, b) || j < i) {
				drop = true
				break
			}
		}
		if !drop {
			kept = append(kept, a)
		}
	}
	out = kept
	collapsed := false
	if forceCollapse && len(out) > 1 {
		collapsed = true
		m := out[0]
		for _, a := range out[1:] {
			m = meetAlts(m, a)
		}
		out = DNF{m}
	} else if len(out) > maxAlts {
		// too many alternatives: repeatedly merge the two closest ones (their meet is implied by both,
		// so facts are only dropped, never invented) until the set is small again
		collapsed = false
		for len(out) > maxAlts*2/3 {
			bi, bj, best := -1, -1, 1<<30
			for i := 0; i < len(out); i++ {
				for j := i + 1; j < len(out); j++ {
					d := altDistance(out[i], out[j])
					if d < best {
						bi, bj, best = i, j, d
					}
				}
			}
			m := meetAlts(out[bi], out[bj])
			var next DNF
			for k, a := range out {
				if k != bi && k != bj && !weaker(m, a) {
					next = append(next, a)
				}
			}
			next = append(next, m)
			out = next
		}
	}
	sort.Slice(out, func(i, j int) bool { return out[i].signature() < out[j].signature() })
	return out, collapsed
}

// meetAlts: the facts and bindings common to a and b.
func meetAlts(a, b *Alt) *Alt {
	m := newAlt()
	for k, v := range a.facts {
		if bv, ok := b.facts[k]; ok && bv == v {
			m.facts[k] = v
			m.terms[k] = a.terms[k]
		}
	}
	for k, v := range a.bind {
		if bv, ok := b.bind[k]; ok && bv.String() == v.String() {
			m.bind[k] = v
			m.bkey[k] = a.bkey[k]
		}
	}
	return m
}

// altDistance: number of facts/bindings not shared.
func altDistance(a, b *Alt) int {
	d := 0
	for k, v := range a.facts {
		if bv, ok := b.facts[k]; !ok || bv != v {
			d++
		}
	}
	for k, v := range b.facts {
		if av, ok := a.facts[k]; !ok || av != v {
			d++
		}
	}
	for k, v := range a.bind {
		if bv, ok := b.bind[k]; !ok || bv.String() != v.String() {
			d += 2
		}
	}
	for k := range b.bind {
		if _, ok := a.bind[k]; !ok {
			d += 2
		}
	}
	return d
}

func dnfSig(d DNF) string {
	var parts []string
	for _, a := range d {
		parts = append(parts, a.signature())
	}
	return strings.Join(parts, "\x01")
}

// ---------------------------------------------------------------------------------------------

type atom struct {
	key  string
	term *Term
	sign bool
}

// FactEngine owns per-function analyses and summaries.
type FactEngine struct {
	p  *Program
	ts *Terms
	cg *CallGraph
	mr *ModRef

	fn       map[*ssa.Function]*fnFacts
	inlineAt map[*ssa.Function]ssa.Instruction // anonymous function -> its immediate invocation site (if it is invoked where it is made)
	sumCache map[string]DNF
	sumBusy  map[string]bool
	Depth    int // summary inlining bound

	// extraTracked: module functions whose call counts as a tracked event (typestate atom
	// c:<name>(<first argument>)), registered by identity rather than by name
	extraTracked map[*ssa.Function]string

	callSites map[*ssa.Function][]*ssa.Call
	otherUse  map[*ssa.Function]bool
	entryBusy map[*ssa.Function]bool
	analysing map[*ssa.Function]bool
}

type fnFacts struct {
	fn        *ssa.Function
	in        map[*ssa.BasicBlock]DNF
	edgeOut   map[*ssa.BasicBlock][]DNF
	collapsed map[*ssa.BasicBlock]bool
	exits     []exitState // states at Return instructions
	done      bool
}

type exitState struct {
	ret *ssa.Return
	st  DNF
}

func NewFactEngine(p *Program, ts *Terms, cg *CallGraph, mr *ModRef) *FactEngine {
	fe := &FactEngine{p: p, ts: ts, cg: cg, mr: mr, fn: map[*ssa.Function]*fnFacts{}, inlineAt: map[*ssa.Function]ssa.Instruction{},
		sumCache: map[string]DNF{}, sumBusy: map[string]bool{}, Depth: 3}
	for _, f := range p.ModFuncs {
		for _, b := range f.Blocks {
			for _, ins := range b.Instrs {
				if call, ok := ins.(*ssa.Call); ok {
					if mc, ok := call.Call.Value.(*ssa.MakeClosure); ok {
						fe.inlineAt[mc.Fn.(*ssa.Function)] = call
					}
				}
			}
		}
	}
	return fe
}

// ---- atoms ---------------------------------------------------------------------------------

func cmpKey(op string, x, y *Term) *Term {
	return &Term{Op: OpBin, Name: op, Args: []*Term{x, y}}
}

// decompose turns "cond has truth value sign" into atoms (a conjunction).
func (fe *FactEngine) decompose(cond *Term, sign bool) []atom {
	switch cond.Op {
	case OpNot:
		return fe.decompose(cond.Args[0], !sign)
	case OpConst:
		if (cond.Name == "true" && !sign) || (cond.Name == "false" && sign) {
			return []atom{{"⊥", cond, true}}
		}
		return nil
	case OpBin:
		x, y := cond.Args[0], cond.Args[1]
		switch cond.Name {
		case "==", "!=":
			s := sign
			if cond.Name == "!=" {
				s = !s
			}
			// s: x == y
			if x.Op == OpConst && y.Op == OpConst {
				if (x.Name == y.Name) != s {
					return []atom{{"⊥", cond, true}}
				}
				return nil
			}
			if y.IsConst("nil") {
				return []atom{{"n:" + x.String(), x, !s}}
			}
			if x.IsConst("nil") {
				return []atom{{"n:" + y.String(), y, !s}}
			}
			if y.IsConst("true") {
				return fe.decompose(x, s)
			}
			if y.IsConst("false") {
				return fe.decompose(x, !s)
			}
			if x.IsConst("true") {
				return fe.decompose(y, s)
			}
			if x.IsConst("false") {
				return fe.decompose(y, !s)
			}
			if x.String() > y.String() {
				x, y = y, x
			}
			t := cmpKey("==", x, y)
			return []atom{{"b:" + t.String(), t, s}}
		case "<":
			t := cmpKey("<", x, y)
			return []atom{{"b:" + t.String(), t, sign}}
		case ">":
			t := cmpKey("<", y, x)
			return []atom{{"b:" + t.String(), t, sign}}
		case ">=":
			t := cmpKey("<", x, y)
			return []atom{{"b:" + t.String(), t, !sign}}
		case "<=":
			t := cmpKey("<", y, x)
			return []atom{{"b:" + t.String(), t, !sign}}
		}
	}
	return []atom{{"b:" + cond.String(), cond, sign}}
}

// addAtoms adds atoms to alt; returns false on contradiction.
func (a *Alt) addAtoms(as []atom) bool {
	for _, at := range as {
		if at.key == "⊥" {
			return false
		}
		if v, ok := a.facts[at.key]; ok {
			if v != at.sign {
				return false
			}
			continue
		}
		if at.sign && at.term != nil && at.term.Op == OpBin && at.term.Name == "==" {
			// x == c1 contradicts x == c2 for distinct constants
			x, c := at.term.Args[0], at.term.Args[1]
			if x.Op == OpConst {
				x, c = c, x
			}
			if c.Op == OpConst && x.Op != OpConst {
				xs := x.String()
				for k, t := range a.terms {
					if k[0] != 'b' || !a.facts[k] || t.Op != OpBin || t.Name != "==" {
						continue
					}
					y, d := t.Args[0], t.Args[1]
					if y.Op == OpConst {
						y, d = d, y
					}
					if d.Op == OpConst && y.Op != OpConst && y.String() == xs && d.Name != c.Name {
						return false
					}
				}
			}
		}
		a.facts[at.key] = at.sign
		a.terms[at.key] = at.term
		a.sig = ""
	}
	return true
}

// resolve applies the alternative's bindings to a value's term.
func (fe *FactEngine) resolve(a *Alt, v ssa.Value) *Term {
	t := fe.ts.Of(v)
	if len(a.bind) == 0 {
		return t
	}
	return t.Subst(a.bind)
}

func (a *Alt) setBind(key, val *Term) {
	if len(val.String()) > maxBindTermLen {
		// widening: refuse to track very large symbolic values
		delete(a.bind, key.String())
		delete(a.bkey, key.String())
		a.sig = ""
		return
	}
	a.bind[key.String()] = val
	a.bkey[key.String()] = key
	a.sig = ""
}

// ---- kills ---------------------------------------------------------------------------------

func (a *Alt) killIf(pred func(key string, t *Term) bool) {
	for k, t := range a.terms {
		if pred(k, t) {
			delete(a.facts, k)
			delete(a.terms, k)
			a.sig = ""
		}
	}
	for v, t := range a.bind {
		if pred("", t) || (a.bkey[v] != nil && pred("", a.bkey[v])) {
			delete(a.bind, v)
			delete(a.bkey, v)
			a.sig = ""
		}
	}
}

// killPath removes facts that mention the written path (or a field with the same identity when the
// write goes through a pointer that may alias).
func (fe *FactEngine) killPath(a *Alt, path *Term) {
	var fv *types.Var
	viaLocal := false
	if path.Op == OpField {
		fv, _ = path.Obj.(*types.Var)
		// root local?
		r := path
		for r.Op == OpField || r.Op == OpIndex {
			r = r.Args[0]
		}
		if r.Op == OpDeref && r.Args[0].Op == OpLocal {
			viaLocal = true
		}
	}
	ps := path.String()
	// a partial write (field / element of a local) invalidates bindings of the enclosing value as a
	// whole: "me := meₚ; me.inner = x" must not leave me ≡ meₚ behind
	for pre := path; pre != nil && (pre.Op == OpField || pre.Op == OpIndex); {
		pre = pre.Args[0]
		if _, ok := a.bind[pre.String()]; ok {
			delete(a.bind, pre.String())
			delete(a.bkey, pre.String())
			a.sig = ""
		}
	}
	a.killIf(func(_ string, t *Term) bool {
		hit := false
		t.Walk(func(x *Term) bool {
			if x.String() == ps {
				hit = true
			}
			if fv != nil && !viaLocal && x.Op == OpField && x.Obj == fv {
				hit = true
			}
			return !hit
		})
		return hit
	})
}

var pureExternal = map[string]bool{
	"IsSet": true, "Len": true, "String": true, "IP": true, "To4": true, "To16": true, "Port": true, "Addr": true,
	"After": true, "Before": true, "IsZero": true, "Equal": true, "Load": true, "Error": true, "Raw": true, "KRPC": true,
	"Is": true, "As": true, "Unwrap": true, "Done": true, "Err": true, "Network": true, "UDP": true, "Add": true, "Sub": true,
	"Since": true, "Now": true, "Printf": true, "Levelf": true, "Sprintf": true, "Errorf": true, "New": true, "Local": true,
	"Contains": true, "IsLoopback": true, "IsLinkLocalUnicast": true, "Compare": true, "Cmp": true, "AsSlice": true,
	"LocalAddr": true, "Less": true, "Ok": true, "Bool": true, "Int64": true, "Lazy": true, "OrderingInt": true, "MustLess": true,
	"Int": true, "EagerOrdered": true, "Sum": true, "WithDefaultLevel": true, "WithValues": true, "Log": true, "Fmsg": true,
	"FilterLevel": true, "ContextLogger": true, "Background": true, "TODO": true, "Labels": true, "WithLabels": true,
	"Marshal": true, "MustMarshal": true, "Verify": true, "Sign": true, "BitLen": true, "SetBytes": true, "Some": true,
	"AddrFromSlice": true, "AddrPortFrom": true, "JoinHostPort": true, "FormatInt": true, "Uint16": true, "Checksum": true,
	"MakeTable": true, "Unix": true, "UnixNano": true, "Signaled": true, "Active": true, "Signal": true, "Iterator": true,
}

// killCall removes facts that a call may invalidate.
func (fe *FactEngine) killCall(a *Alt, fn *ssa.Function, ins ssa.Instruction, c *ssa.CallCommon) {
	// (1) locals whose address (or a sub-address) is handed to the call
	locals := map[ssa.Value]bool{}
	ops := append([]ssa.Value{}, c.Args...)
	if c.IsInvoke() {
		ops = append(ops, c.Value)
	}
	targets := fe.cg.SiteOut[ins]
	allModule := len(targets) > 0 && !c.IsInvoke() && !fe.cg.Unres[ins]
	for _, e := range targets {
		if e.Callback {
			allModule = false
		}
	}
	for _, arg := range ops {
		pt, isPtr := arg.Type().Underlying().(*types.Pointer)
		if !isPtr {
			continue
		}
		if _, isStruct := pt.Elem().Underlying().(*types.Struct); isStruct && allModule {
			// module callees: their field-based mod set (below) says which fields they write through
			// the pointer; the other fields of the local keep their facts
			continue
		}
		markLocalRoot(arg, fe.ts, locals)
	}
	// closures invoked / deferred here write the locals they capture
	modFields := map[*types.Var]bool{}
	if _, isGo := ins.(*ssa.Go); !isGo {
		for v := range fe.mr.SiteMod(ins, -1) {
			modFields[v] = true
		}
		for v := range fe.mr.SiteModLocals(ins) {
			locals[v] = true
		}
	}
	external := len(targets) == 0
	var recv *Term
	extName := ""
	if external {
		if o := calleeObj(c); o != nil {
			extName = o.Name()
			if pureExternal[extName] {
				// still honour (1)
				external = false
			}
		}
		if c.IsInvoke() {
			recv = fe.resolve(a, c.Value)
		} else if len(c.Args) > 0 && c.Signature().Recv() != nil {
			recv = fe.resolve(a, c.Args[0])
		}
	}
	if len(locals) == 0 && len(modFields) == 0 && !(external && recv != nil) {
		return
	}
	recvS := ""
	if recv != nil {
		recvS = recv.String()
	}
	a.killIf(func(_ string, t *Term) bool {
		hit := false
		t.Walk(func(x *Term) bool {
			switch x.Op {
			case OpLocal:
				if sv, ok := x.Obj.(ssa.Value); ok && locals[sv] {
					hit = true
				}
			case OpField:
				if fv, ok := x.Obj.(*types.Var); ok && modFields[fv] {
					hit = true
				}
			case OpLookup, OpLen:
				// container contents: killed if the field holding it is written
			case OpCall:
				if len(modFields) > 0 {
					if g := fe.calleeFunc(x); g != nil {
						for v := range fe.mr.Ref[g] {
							if modFields[v] {
								hit = true
								break
							}
						}
					}
				}
				if external && recvS != "" && len(x.Args) > 0 && x.Args[0].String() == recvS {
					if g := fe.calleeFunc(x); g == nil {
						hit = true
					}
				}
			}
			return !hit
		})
		return hit
	})
}

// calleeFunc maps a call term to the module function it statically denotes (nil if external).
func (fe *FactEngine) calleeFunc(t *Term) *ssa.Function {
	switch o := t.Obj.(type) {
	case *ssa.Function:
		if fe.p.IsMod(o) {
			return o
		}
	case *types.Func:
		f := fe.p.SSA.FuncValue(o)
		if f != nil && fe.p.IsMod(f) {
			return f
		}
	}
	return nil
}

// ---- known non-nil producers ------------------------------------------------------------------

func (fe *FactEngine) knownNonNil(v ssa.Value) bool {
	switch v := v.(type) {
	case *ssa.Alloc, *ssa.FieldAddr, *ssa.IndexAddr, *ssa.MakeClosure, *ssa.MakeMap, *ssa.MakeChan, *ssa.Function, *ssa.Global:
		return true
	case *ssa.MakeInterface:
		switch v.X.Type().Underlying().(type) {
		case *types.Pointer, *types.Interface, *types.Map, *types.Slice, *types.Chan, *types.Signature:
			return fe.knownNonNil(v.X)
		}
		return true
	case *ssa.ChangeType:
		return fe.knownNonNil(v.X)
	case *ssa.ChangeInterface:
		return fe.knownNonNil(v.X)
	case *ssa.Call:
		if o := calleeObj(v.Common()); o != nil && o.Pkg() != nil {
			switch o.Pkg().Path() + "." + o.Name() {
			case "errors.New", "fmt.Errorf":
				return true
			}
		}
	}
	return false
}

// ---- transfer ----------------------------------------------------------------------------------

func isPointerLike(t types.Type) bool {
	switch t.Underlying().(type) {
	case *types.Pointer, *types.Interface, *types.Slice, *types.Map, *types.Chan, *types.Signature:
		return true
	}
	return false
}

func isBoolType(t types.Type) bool {
	b, ok := t.Underlying().(*types.Basic)
	return ok && b.Info()&types.IsBoolean != 0
}

// step applies one instruction to every alternative. It may multiply alternatives (summary import,
// inlined closures).
func (fe *FactEngine) step(ff *fnFacts, ins ssa.Instruction, st DNF, depth int) DNF {
	switch ins := ins.(type) {
	case *ssa.Alloc:
		et := ins.Type().Underlying().(*types.Pointer).Elem()
		if fe.ts.cell(ins).single != nil {
			return st
		}
		p := fe.ts.Path(ins)
		for _, a := range st {
			fe.killPath(a, p)
			if isPointerLike(et) {
				a.addAtoms([]atom{{"n:" + p.String(), p, false}})
			} else if isBoolType(et) {
				a.addAtoms([]atom{{"b:" + p.String(), p, false}})
			}
		}
		return st
	case *ssa.Store:
		for _, a := range st {
			if fe.ts.cellOf(ins.Addr) != nil && fe.ts.cellOf(ins.Addr).single != nil {
				continue
			}
			p := normalizeTerm(&Term{Op: OpDeref, Args: []*Term{fe.resolve(a, ins.Addr)}})
			if raw := fe.ts.Path(ins.Addr); rootedAtLocal(raw) {
				// the written location is (part of) a local cell: bindings describe the cell's *value* and
				// must not be substituted into its address
				p = raw
			}
			v := fe.resolve(a, ins.Val)
			vNonNil, vKnown := a.facts["n:"+v.String()]
			fe.killPath(a, p)
			if v.Contains(p) {
				// self-referential store (x = x): value unchanged
				v = fe.ts.Of(ins.Val)
			}
			if vKnown && isPointerLike(ins.Val.Type()) && !v.Contains(p) {
				a.addAtoms([]atom{{"n:" + v.String(), v, vNonNil}})
			}
			if v.Op == OpConst && rootedAtLocal(p) && !strings.HasPrefix(v.Name, "zero:") {
				a.setBind(p, v)
			}
			if v.Op != OpConst && !v.Contains(p) && rootedAtLocal(p) {
				// the local now holds v on this path
				a.setBind(p, v)
				if isPointerLike(ins.Val.Type()) && fe.knownNonNil(ins.Val) {
					a.addAtoms([]atom{{"n:" + v.String(), v, true}})
				}
				continue
			}
			switch {
			case v.IsConst("nil"):
				a.addAtoms([]atom{{"n:" + p.String(), p, false}})
			case v.IsConst("true"):
				a.addAtoms([]atom{{"b:" + p.String(), p, true}})
			case v.IsConst("false"):
				a.addAtoms([]atom{{"b:" + p.String(), p, false}})
			case isPointerLike(ins.Val.Type()):
				if fe.knownNonNil(ins.Val) {
					a.addAtoms([]atom{{"n:" + p.String(), p, true}})
				} else if s, ok := a.facts["n:"+v.String()]; ok {
					a.addAtoms([]atom{{"n:" + p.String(), p, s}})
				}
			case isBoolType(ins.Val.Type()):
				if s, ok := a.facts["b:"+v.String()]; ok {
					a.addAtoms([]atom{{"b:" + p.String(), p, s}})
				}
			}
		}
		return st
	case *ssa.MapUpdate:
		for _, a := range st {
			m := fe.resolve(a, ins.Map)
			ms := m.String()
			a.killIf(func(_ string, t *Term) bool {
				hit := false
				t.Walk(func(x *Term) bool {
					if (x.Op == OpLookup || x.Op == OpLen) && x.Args[0].String() == ms {
						hit = true
					}
					return !hit
				})
				return hit
			})
		}
		return st
	case *ssa.FieldAddr:
		// a successful field address through a pointer proves the pointer non-nil afterwards
		// (handled lazily: rules look at the state *before* the instruction)
		for _, a := range st {
			x := fe.resolve(a, ins.X)
			if x.Op != OpAddr && x.Op != OpLocal && x.Op != OpGlobal {
				a.addAtoms([]atom{{"n:" + x.String(), x, true}})
			}
		}
		return st
	case *ssa.UnOp:
		if ins.Op == token.MUL {
			for _, a := range st {
				x := fe.resolve(a, ins.X)
				if x.Op != OpAddr && x.Op != OpLocal && x.Op != OpGlobal {
					a.addAtoms([]atom{{"n:" + x.String(), x, true}})
				}
			}
		}
		return st
	case *ssa.Call:
		c := ins.Common()
		if mc, ok := c.Value.(*ssa.MakeClosure); ok && depth < 4 {
			return fe.inlineClosure(ff, ins, mc.Fn.(*ssa.Function), st, depth)
		}
		if sc := c.StaticCallee(); sc != nil && depth < 4 && fe.inlineAt[sc] == ssa.Instruction(ins) {
			// a single-call-site helper folded into this function's region
			return fe.inlineClosure(ff, ins, sc, st, depth)
		}
		inLoop := blockInCycle(ins.Block())
		self := fe.ts.Of(ins)
		for _, a := range st {
			fe.killCall(a, ff.fn, ins, c)
			if inLoop {
				// the call is re-evaluated on every iteration: facts about its previous result are stale
				a.killIf(func(_ string, t *Term) bool { return t.Contains(self) })
			}
			fe.noteTrackedCall(a, ins, c)
		}
		return st
	case *ssa.Defer, *ssa.Go:
		c := ins.(ssa.CallInstruction).Common()
		if _, isGo := ins.(*ssa.Go); !isGo {
			// deferred: effects happen at exit; locals written by the deferred closure are not
			// trustworthy afterwards either way
			for _, a := range st {
				fe.killCall(a, ff.fn, ins, c)
			}
		}
		for _, a := range st {
			fe.noteTrackedCall(a, ins, c)
			// a goroutine / deferred closure that calls a tracked function on every one of its paths
			for _, tc := range fe.mustTrackedCalls(ins) {
				// express the subject in the caller's vocabulary: callee parameters become the arguments
				name, subj, ok := fe.trackedCallee(nil, callInstrCommon(tc))
				if !ok {
					continue
				}
				sub := map[string]*Term{}
				if es := fe.cg.SiteOut[ins]; len(es) == 1 {
					for i, prm := range es[0].Callee.Params {
						if i < len(c.Args) {
							sub[fe.ts.Of(prm).String()] = fe.resolve(a, c.Args[i])
						}
					}
				}
				subj = subj.Subst(sub)
				a.addAtoms([]atom{{"c:" + name + "(" + subj.String() + ")", subj, true}})
			}
		}
		return st
	}
	return st
}

// rootedAtLocal: p is a local variable or a field/element path inside one (no pointer hops).
func rootedAtLocal(p *Term) bool {
	for p != nil {
		switch p.Op {
		case OpField:
			p = p.Args[0]
		case OpIndex:
			if p.Args[1].Op != OpConst {
				return false
			}
			p = p.Args[0]
		case OpDeref:
			return p.Args[0].Op == OpLocal
		default:
			return false
		}
	}
	return false
}

func (ts *Terms) cellOf(addr ssa.Value) *cellInfo {
	if a, ok := addr.(*ssa.Alloc); ok {
		return ts.cell(a)
	}
	return nil
}

// inlineClosure analyses an immediately-invoked closure with the caller's state as entry state.
func (fe *FactEngine) inlineClosure(parent *fnFacts, call *ssa.Call, fn *ssa.Function, st DNF, depth int) DNF {
	cf := fe.run(fn, st, depth+1)
	fe.fn[fn] = cf
	var out DNF
	for _, ex := range cf.exits {
		for _, a := range ex.st {
			na := a.clone()
			rs := ex.ret.Results
			if len(rs) == 1 {
				na.setBind(fe.ts.Of(call), fe.resolve(a, rs[0]))
			} else {
				// bind Extract instructions of the call
				if refs := call.Referrers(); refs != nil {
					for _, r := range *refs {
						if e, ok := r.(*ssa.Extract); ok && e.Index < len(rs) {
							na.setBind(fe.ts.Of(e), fe.resolve(a, rs[e.Index]))
						}
					}
				}
			}
			out = append(out, na)
		}
	}
	out, _ = normalizeDNF(out, false)
	return out
}

func copyDNF(d DNF) DNF {
	out := make(DNF, len(d))
	for i, a := range d {
		out[i] = a.clone()
	}
	return out
}

var cycleCache = map[*ssa.BasicBlock]bool{}

// blockInCycle reports whether b can reach itself.
func blockInCycle(b *ssa.BasicBlock) bool {
	if v, ok := cycleCache[b]; ok {
		return v
	}
	seen := map[*ssa.BasicBlock]bool{}
	stack := append([]*ssa.BasicBlock{}, b.Succs...)
	res := false
	for len(stack) > 0 && !res {
		x := stack[len(stack)-1]
		stack = stack[:len(stack)-1]
		if x == b {
			res = true
			break
		}
		if seen[x] {
			continue
		}
		seen[x] = true
		stack = append(stack, x.Succs...)
	}
	cycleCache[b] = res
	return res
}

// widenLoopBinds: at a loop header, a binding that is not the same in every incoming alternative is
// loop-variant (or branch-dependent); it is dropped from all alternatives, together with the facts
// that mention the bound value, so that values re-assigned in the loop cannot build ever-growing
// terms (x = f(x) → f(f(x)) → ...). Facts are only dropped, never invented.
func widenLoopBinds(d DNF) {
	if len(d) == 0 {
		return
	}
	common := map[string]string{}
	for k, v := range d[0].bind {
		common[k] = v.String()
	}
	for _, a := range d[1:] {
		for k, vs := range common {
			if bv, ok := a.bind[k]; !ok || bv.String() != vs {
				delete(common, k)
			}
		}
	}
	for _, a := range d {
		for k, v := range a.bind {
			if _, ok := common[k]; ok {
				continue
			}
			vs := v.String()
			delete(a.bind, k)
			delete(a.bkey, k)
			a.sig = ""
			if len(vs) > 60 {
				a.killIf(func(_ string, t *Term) bool { return len(t.String()) > len(vs) && t.Contains(v) })
			}
		}
	}
}

const maxBindTermLen = 1200

func isLoopHeader(b *ssa.BasicBlock) bool {
	for _, p := range b.Preds {
		if b.Dominates(p) {
			return true
		}
	}
	return false
}

// run computes the fixpoint for fn from the given entry state.
func (fe *FactEngine) run(fn *ssa.Function, entry DNF, depth int) *fnFacts {
	ff := &fnFacts{fn: fn, in: map[*ssa.BasicBlock]DNF{}, edgeOut: map[*ssa.BasicBlock][]DNF{}, collapsed: map[*ssa.BasicBlock]bool{}}
	if len(fn.Blocks) == 0 {
		return ff
	}
	// entry facts: pointer receivers that are dereferenced... none assumed.
	ff.in[fn.Blocks[0]] = copyDNF(entry)
	work := []*ssa.BasicBlock{fn.Blocks[0]}
	inWork := map[*ssa.BasicBlock]bool{fn.Blocks[0]: true}
	iters := 0
	for len(work) > 0 {
		iters++
		if iters > 4000 {
			broken("facts: no fixpoint in %s", fn)
		}
		// pick the block with the lowest index (approximate RPO)
		bi := 0
		for i, b := range work {
			if b.Index < work[bi].Index {
				bi = i
			}
		}
		b := work[bi]
		work = append(work[:bi], work[bi+1:]...)
		inWork[b] = false
		outs := fe.flowBlock(ff, b, ff.in[b], depth, nil)
		prev := ff.edgeOut[b]
		ff.edgeOut[b] = outs
		for i, s := range b.Succs {
			if prev != nil && i < len(prev) && dnfSig(prev[i]) == dnfSig(outs[i]) && ff.in[s] != nil {
				continue
			}
			// recompute in[s] from all preds
			var joined DNF
			for _, pb := range s.Preds {
				eo := ff.edgeOut[pb]
				if eo == nil {
					continue
				}
				for j, ps := range pb.Succs {
					if ps == s && j < len(eo) {
						joined = append(joined, fe.bindPhis(copyDNF(eo[j]), pb, s)...)
					}
				}
			}
			if isLoopHeader(s) {
				widenLoopBinds(joined)
			}
			nj, col := normalizeDNF(joined, ff.collapsed[s])
			if col {
				ff.collapsed[s] = true
			}
			if ff.in[s] == nil || dnfSig(ff.in[s]) != dnfSig(nj) {
				ff.in[s] = nj
				if !inWork[s] {
					inWork[s] = true
					work = append(work, s)
				}
			}
		}
	}
	// final recording pass: exits and inlined-closure states
	ff.exits = nil
	for _, b := range fn.Blocks {
		if ff.in[b] == nil {
			continue
		}
		fe.flowBlock(ff, b, ff.in[b], depth, func(ins ssa.Instruction, st DNF) {
			if r, ok := ins.(*ssa.Return); ok {
				ff.exits = append(ff.exits, exitState{r, copyDNF(st)})
			}
		})
	}
	ff.done = true
	return ff
}

// bindPhis binds the phis of succ to the values flowing in from pred, for each alternative.
func (fe *FactEngine) bindPhis(st DNF, pred, succ *ssa.BasicBlock) DNF {
	idx := -1
	for i, p := range succ.Preds {
		if p == pred {
			idx = i
			break
		}
	}
	if idx < 0 {
		return st
	}
	header := isLoopHeader(succ)
	for _, ins := range succ.Instrs {
		phi, ok := ins.(*ssa.Phi)
		if !ok {
			break
		}
		for _, a := range st {
			// a rebinding invalidates facts/bindings about the phi's previous value
			ps := fe.ts.Of(phi).String()
			a.killIf(func(_ string, t *Term) bool {
				hit := false
				t.Walk(func(x *Term) bool {
					if x.String() == ps {
						hit = true
					}
					return !hit
				})
				return hit
			})
			delete(a.bind, ps)
			delete(a.bkey, ps)
			if header {
				continue
			}
			v := fe.resolve(a, phi.Edges[idx])
			if v.Contains(fe.ts.Of(phi)) {
				continue
			}
			a.setBind(fe.ts.Of(phi), v)
		}
	}
	return st
}

// flowBlock pushes st through block b; returns the state on each successor edge. visit, if set, is
// called with the state before every instruction.
func (fe *FactEngine) flowBlock(ff *fnFacts, b *ssa.BasicBlock, in DNF, depth int, visit func(ssa.Instruction, DNF)) []DNF {
	st := copyDNF(in)
	for _, ins := range b.Instrs {
		if visit != nil {
			visit(ins, st)
		}
		st = fe.step(ff, ins, st, depth)
	}
	outs := make([]DNF, len(b.Succs))
	if len(b.Succs) == 0 {
		return outs
	}
	last := b.Instrs[len(b.Instrs)-1]
	if ifi, ok := last.(*ssa.If); ok && len(b.Succs) == 2 {
		for si, sign := range []bool{true, false} {
			var o DNF
			for _, a := range st {
				o = append(o, fe.assume(a.clone(), fe.resolve(a, ifi.Cond), sign, depth)...)
			}
			outs[si], _ = normalizeDNF(o, false)
		}
		return outs
	}
	for i := range b.Succs {
		outs[i] = copyDNF(st)
	}
	return outs
}

// assume adds "cond == sign" to alt, importing callee summaries; may return several alternatives
// (or none on contradiction).
func (fe *FactEngine) assume(a *Alt, cond *Term, sign bool, depth int) DNF {
	if cond.Op == OpConst {
		if (cond.Name == "true" && !sign) || (cond.Name == "false" && sign) {
			return nil
		}
		return DNF{a}
	}
	ats := fe.decompose(cond, sign)
	if !a.addAtoms(ats) {
		return nil
	}
	res := DNF{a}
	for _, at := range ats {
		res = fe.importSummary(res, at, depth)
	}
	return res
}

// importSummary: if the atom is about the result of a module call, conjoin the callee's
// return-class facts (a DNF) with every alternative.
func (fe *FactEngine) importSummary(st DNF, at atom, depth int) DNF {
	t := at.term
	idx := 0
	if t.Op == OpExtract {
		for i := 0; i < len(t.Name); i++ {
			idx = idx*10 + int(t.Name[i]-'0')
		}
		t = t.Args[0]
	}
	if t.Op != OpCall || depth > fe.Depth {
		return st
	}
	g := fe.calleeFunc(t)
	if g == nil {
		return st
	}
	class := ""
	switch {
	case strings.HasPrefix(at.key, "b:"):
		class = "false"
		if at.sign {
			class = "true"
		}
	case strings.HasPrefix(at.key, "n:"):
		class = "nil"
		if at.sign {
			class = "nonnil"
		}
	}
	sum := fe.Summary(g, idx, class, depth+1)
	if sum == nil {
		return st // no information
	}
	// substitute parameters by arguments
	sub := map[string]*Term{}
	for i, prm := range g.Params {
		if i < len(t.Args) {
			sub[fe.ts.Of(prm).String()] = t.Args[i]
		}
	}
	// Import without multiplying alternatives: for each alternative, the summary alternatives that are
	// consistent with it are met (facts common to all of them) and conjoined. If none is consistent
	// the alternative is infeasible. Rules that need the disjunctive detail call Summary directly.
	var out DNF
	for _, a := range st {
		var meet *Alt
		feasible := false
		for _, sa := range sum {
			na := newAlt()
			ok := true
			for k, v := range sa.facts {
				nt := sa.terms[k].Subst(sub)
				nk := k[:2] + nt.String()
				if cur, have := a.facts[nk]; have && cur != v {
					ok = false
					break
				}
				na.facts[nk] = v
				na.terms[nk] = nt
			}
			if !ok {
				continue
			}
			feasible = true
			if meet == nil {
				meet = na
			} else {
				meet = meetAlts(meet, na)
			}
		}
		if !feasible {
			continue
		}
		r := a.clone()
		for k, v := range meet.facts {
			r.addAtoms([]atom{{k, meet.terms[k], v}})
		}
		out = append(out, r)
	}
	if len(sum) > 0 && len(out) == 0 {
		return nil // contradiction with the summary: infeasible
	}
	out, _ = normalizeDNF(out, false)
	return out
}

// Summary returns the facts (over g's parameters, globals and constants) that hold whenever result
// idx of g is in the given class ("true","false","nil","nonnil"). nil means "no information".
// An empty DNF (len 0, non-nil) means the class is never returned.
func (fe *FactEngine) Summary(g *ssa.Function, idx int, class string, depth int) DNF {
	key := g.String() + "#" + string(rune('0'+idx)) + "#" + class
	if r, ok := fe.sumCache[key]; ok {
		return r
	}
	if fe.sumBusy[key] || depth > fe.Depth+1 {
		return nil
	}
	fe.sumBusy[key] = true
	defer delete(fe.sumBusy, key)
	ff := fe.run(g, top(), depth)
	if _, have := fe.fn[g]; !have {
		fe.fn[g] = ff
	}
	out := DNF{}
	for _, ex := range ff.exits {
		if idx >= len(ex.ret.Results) {
			continue
		}
		rv := ex.ret.Results[idx]
		for _, a := range ex.st {
			t := fe.resolve(a, rv)
			var alts DNF
			switch class {
			case "true", "false":
				alts = fe.assume(a.clone(), t, class == "true", depth)
			case "nil", "nonnil":
				if fe.knownNonNil(rv) || (t.Op == OpAddr) {
					if class == "nil" {
						continue
					}
					alts = DNF{a.clone()}
				} else if t.IsConst("nil") {
					if class == "nonnil" {
						continue
					}
					alts = DNF{a.clone()}
				} else {
					cond := &Term{Op: OpBin, Name: "!=", Args: []*Term{t, termNil}}
					alts = fe.assume(a.clone(), cond, class == "nonnil", depth)
				}
			}
			for _, na := range alts {
				out = append(out, fe.exportable(na, g))
			}
		}
	}
	out, _ = normalizeDNF(out, false)
	if out == nil {
		out = DNF{}
	}
	fe.sumCache[key] = out
	return out
}

// exportable keeps only facts expressed over g's parameters, globals, constants and functions.
func (fe *FactEngine) exportable(a *Alt, g *ssa.Function) *Alt {
	n := newAlt()
	for k, t := range a.terms {
		ok := true
		t.Walk(func(x *Term) bool {
			switch x.Op {
			case OpLocal, OpPhi, OpOpaque, OpClosure, OpRecv:
				ok = false
			case OpParam:
				if x.Fn != g && !within(g, x.Fn) {
					ok = false
				}
			}
			return ok
		})
		if ok {
			n.facts[k] = a.facts[k]
			n.terms[k] = t
		}
	}
	return n
}

// ---- queries -----------------------------------------------------------------------------------

// analysisFor returns the (possibly inlined) analysis of fn.
func (fe *FactEngine) analysisFor(fn *ssa.Function) *fnFacts {
	if ff, ok := fe.fn[fn]; ok && ff.done {
		return ff
	}
	if site, ok := fe.inlineAt[fn]; ok && site.Parent() != nil {
		// analysing the parent records the closure's states
		fe.analysisFor(site.Parent())
		if ff, ok := fe.fn[fn]; ok && ff.done {
			return ff
		}
	}
	entry := fe.entryFor(fn)
	if fe.analysing == nil {
		fe.analysing = map[*ssa.Function]bool{}
	}
	fe.analysing[fn] = true
	ff := fe.run(fn, entry, 0)
	delete(fe.analysing, fn)
	fe.fn[fn] = ff
	return ff
}

// entryFor: the facts that hold on entry to fn. For an unexported module function all of whose uses
// are static synchronous calls from module code, that is the join (union of alternatives) of the
// callers' states at those call sites, with fn's parameters bound to the arguments - so a guard
// established by the caller is visible inside a helper it was extracted into. Everything else
// (exported API, functions used as values, go/defer targets, recursion) starts from no facts.
func (fe *FactEngine) entryFor(fn *ssa.Function) DNF {
	if fe.entryBusy == nil {
		fe.entryBusy = map[*ssa.Function]bool{}
		fe.computeUses()
	}
	if fe.entryBusy[fn] || fn.Parent() != nil || fn.Synthetic != "" || fe.otherUse[fn] || len(fe.callSites[fn]) == 0 {
		return top()
	}
	if obj, ok := fn.Object().(*types.Func); !ok || obj.Exported() || fn.Name() == "init" || fn.Name() == "main" {
		return top()
	}
	fe.entryBusy[fn] = true
	defer delete(fe.entryBusy, fn)
	var out DNF
	for _, site := range fe.callSites[fn] {
		caller := site.Parent()
		if fe.entryBusy[caller] || fe.analysing[caller] {
			return top()
		}
		st := fe.StateBefore(site)
		if st == nil {
			continue // call site unreachable
		}
		c := site.Common()
		for _, alt := range st {
			// translate the caller's facts into the callee's vocabulary: argument terms become the
			// parameters they are bound to; facts that still mention caller-local entities are dropped
			sub := map[string]*Term{}
			for i, prm := range fn.Params {
				if i >= len(c.Args) {
					break
				}
				pt := fe.ts.Of(prm)
				if pt.Op != OpParam || pt.Fn != fn {
					continue // statically bound (region folding)
				}
				av := fe.resolve(alt, c.Args[i])
				if av.Op == OpConst {
					continue
				}
				if _, dup := sub[av.String()]; !dup {
					sub[av.String()] = pt
				}
			}
			na := newAlt()
			for k, t := range alt.terms {
				if k[0] != 'b' && k[0] != 'n' {
					continue
				}
				nt := t.Subst(sub)
				ok := true
				nt.Walk(func(x *Term) bool {
					switch x.Op {
					case OpParam, OpLocal, OpPhi, OpOpaque, OpRecv, OpClosure:
						if x.Fn != fn {
							ok = false
						}
						if x.Op == OpClosure {
							ok = false
						}
					}
					return ok
				})
				if !ok {
					continue
				}
				nk := k[:2] + nt.String()
				na.facts[nk] = alt.facts[k]
				na.terms[nk] = nt
			}
			out = append(out, na)
		}
	}
	if len(out) == 0 {
		return top()
	}
	out, _ = normalizeDNF(out, false)
	return out
}

// computeUses indexes static call sites and other uses of module functions.
func (fe *FactEngine) computeUses() {
	fe.callSites = map[*ssa.Function][]*ssa.Call{}
	fe.otherUse = map[*ssa.Function]bool{}
	fe.analysing = map[*ssa.Function]bool{}
	for _, f := range fe.p.ModFuncs {
		for _, b := range f.Blocks {
			for _, ins := range b.Instrs {
				c := callInstrCommon(ins)
				var callee *ssa.Function
				if c != nil {
					callee = c.StaticCallee()
					if callee != nil {
						if call, ok := ins.(*ssa.Call); ok {
							fe.callSites[callee] = append(fe.callSites[callee], call)
						} else {
							fe.otherUse[callee] = true
						}
					}
				}
				for _, op := range ins.Operands(nil) {
					if g, ok := (*op).(*ssa.Function); ok {
						if c != nil && c.Value == ssa.Value(g) {
							continue
						}
						fe.otherUse[g] = true
					}
				}
			}
		}
	}
	// methods reachable through interfaces may be invoked dynamically
	for _, f := range fe.p.ModFuncs {
		if f.Signature.Recv() != nil {
			for _, e := range fe.cg.In[f] {
				if c := callInstrCommon(e.Site); c != nil && c.IsInvoke() {
					fe.otherUse[f] = true
				}
			}
		}
	}
}

// StateBefore returns the DNF holding immediately before ins executes (nil if unreachable).
func (fe *FactEngine) StateBefore(ins ssa.Instruction) DNF {
	fn := ins.Parent()
	ff := fe.analysisFor(fn)
	b := ins.Block()
	in := ff.in[b]
	if in == nil {
		return nil
	}
	var res DNF
	found := false
	fe.flowBlock(ff, b, in, 0, func(i ssa.Instruction, st DNF) {
		if i == ins && !found {
			found = true
			res = copyDNF(st)
		}
	})
	// flowBlock may have re-run inlined closures with this block's state only; restore by
	// re-analysing nothing: inlined closure states recorded during the final pass of run() are
	// overwritten here with identical inputs, so they stay valid.
	return res
}

// StateOnEdge returns the state flowing from block b to its i-th successor.
func (fe *FactEngine) StateOnEdge(b *ssa.BasicBlock, i int) DNF {
	ff := fe.analysisFor(b.Parent())
	eo := ff.edgeOut[b]
	if eo == nil || i >= len(eo) {
		return nil
	}
	return eo[i]
}

// Resolve exposes binding resolution for rules.
func (fe *FactEngine) Resolve(a *Alt, v ssa.Value) *Term { return fe.resolve(a, v) }

// Has reports whether alt contains the fact (kind "b" or "n") about a term satisfying match with the
// given sign.
func (a *Alt) Has(kind string, sign bool, match func(*Term) bool) bool {
	for k, t := range a.terms {
		if k[:1] == kind && a.facts[k] == sign && match(t) {
			return true
		}
	}
	return false
}

func (a *Alt) HasKey(kind string, t *Term, sign bool) bool {
	v, ok := a.facts[kind+":"+t.String()]
	return ok && v == sign
}

// ---- typestate atoms: "this has been called on that" -------------------------------------------
//
// For a small set of tracked callees (stop / cancel / store operations whose *having happened* a
// property depends on) executing the call adds the atom  c:<name>(<receiver term>)  to the path.
// `go` and `defer` of a call count (it will run), as do goroutines / deferred closures that perform a
// tracked call on every one of their own paths. At joins the atom survives only if every incoming
// path has it (subsumption keeps the weaker alternative).

// trackedCallee: name and subject term of a tracked call, ok=false if the call is not tracked.
func (fe *FactEngine) trackedCallee(a *Alt, c *ssa.CallCommon) (string, *Term, bool) {
	if c == nil {
		return "", nil, false
	}
	if sc := c.StaticCallee(); sc != nil && fe.extraTracked != nil {
		if name, ok := fe.extraTracked[sc]; ok && len(c.Args) >= 2 {
			return name, fe.resolveWith(a, c.Args[1]), true
		}
	}
	if o := calleeObj(c); o != nil {
		switch o.Name() {
		case "Stop":
			if recvNamed(o) == "Operation" {
				var recv ssa.Value
				if c.IsInvoke() {
					recv = c.Value
				} else if len(c.Args) > 0 {
					recv = c.Args[0]
				}
				if recv != nil {
					return "Stop", fe.resolveWith(a, recv), true
				}
			}
		case "SecureNodeId":
			if len(c.Args) == 2 && !c.IsInvoke() {
				return "SecureNodeId", fe.resolveWith(a, c.Args[1]), true
			}
		case "AddPeer":
			var recv ssa.Value
			if c.IsInvoke() {
				recv = c.Value
			} else if len(c.Args) > 0 {
				recv = c.Args[0]
			}
			if recv != nil {
				return "AddPeer", fe.resolveWith(a, recv), true
			}
		}
		return "", nil, false
	}
	// cancel functions: a call through result #1 of context.WithCancel / WithTimeout / WithDeadline
	if c.StaticCallee() == nil && !c.IsInvoke() {
		ct := fe.resolveWith(a, c.Value)
		if ct.Op == OpExtract && ct.Name == "1" && ct.Args[0].Op == OpCall && strings.Contains(ct.Args[0].Name, "context.With") {
			return "cancel", ct.Args[0], true
		}
	}
	return "", nil, false
}

func recvNamed(o *types.Func) string {
	sig, _ := o.Type().(*types.Signature)
	if sig == nil || sig.Recv() == nil {
		return ""
	}
	t := sig.Recv().Type()
	if pt, ok := t.(*types.Pointer); ok {
		t = pt.Elem()
	}
	if n, ok := types.Unalias(t).(*types.Named); ok {
		return n.Obj().Name()
	}
	return ""
}

func (fe *FactEngine) resolveWith(a *Alt, v ssa.Value) *Term {
	if a == nil {
		return fe.ts.Of(v)
	}
	return fe.resolve(a, v)
}

func (fe *FactEngine) noteTrackedCall(a *Alt, ins ssa.Instruction, c *ssa.CallCommon) {
	name, subj, ok := fe.trackedCallee(a, c)
	if !ok {
		return
	}
	a.addAtoms([]atom{{"c:" + name + "(" + subj.String() + ")", subj, true}})
}

var mustTrackedCache = map[ssa.Instruction][]ssa.Instruction{}

// mustTrackedCalls: for a go/defer instruction with a single module callee, the tracked calls inside
// that callee which lie on every path from its entry to its return.
func (fe *FactEngine) mustTrackedCalls(ins ssa.Instruction) []ssa.Instruction {
	if r, ok := mustTrackedCache[ins]; ok {
		return r
	}
	var out []ssa.Instruction
	es := fe.cg.SiteOut[ins]
	if len(es) == 1 && !es[0].Callback && len(es[0].Callee.Blocks) > 0 {
		g := es[0].Callee
		first := g.Blocks[0].Instrs[0]
		for _, b := range g.Blocks {
			for _, i := range b.Instrs {
				c := callInstrCommon(i)
				if c == nil {
					continue
				}
				if _, isGo := i.(*ssa.Go); isGo {
					continue
				}
				tname, _, ok := fe.trackedCallee(nil, c)
				if !ok {
					continue
				}
				if _, startedGo := ins.(*ssa.Go); startedGo && tname == "cancel" && blockingBefore(g, i) {
					// a goroutine that first waits for some event may never get to the cancel: it does
					// not discharge "the cancel function is called" for its creator
					continue
				}
				target := i
				if first == target {
					out = append(out, i)
					continue
				}
				if ok, _ := MustPass(first, func(x ssa.Instruction) bool { return x == target }); ok {
					out = append(out, i)
				}
			}
		}
	}
	mustTrackedCache[ins] = out
	return out
}

// Called reports whether alt records a tracked call `name` on a subject satisfying match.
func (a *Alt) Called(name string, match func(*Term) bool) bool {
	pre := "c:" + name + "("
	for k, t := range a.terms {
		if strings.HasPrefix(k, pre) && a.facts[k] && match(t) {
			return true
		}
	}
	return false
}

// blockingBefore: some channel receive, send or blocking select of g can execute before instruction at.
func blockingBefore(g *ssa.Function, at ssa.Instruction) bool {
	for _, b := range g.Blocks {
		for idx, i := range b.Instrs {
			blocking := false
			switch x := i.(type) {
			case *ssa.UnOp:
				blocking = x.Op == token.ARROW
			case *ssa.Select:
				blocking = x.Blocking
			case *ssa.Send:
				blocking = true
			}
			if !blocking || i == at {
				continue
			}
			if b == at.Block() {
				if idx < instrIndex(at) {
					return true
				}
				continue
			}
			if blockReaches(b, at.Block()) {
				return true
			}
		}
	}
	return false
}
