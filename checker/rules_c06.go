package main

import (
	"fmt"
	"go/types"
	"strings"

	"golang.org/x/tools/go/ssa"
)

func init() {
	register(&Property{
		ID:    "C06",
		Title: "Only directly verified contacts enter the table; good ones are never evicted",
		Decided: "C06.1 closed set of admission sites: updateNode is called (i) for the sender of a query (address = the handler's source, id = that message's sender id, add = !read-only), (ii) for the sender of a response, only under transactions.Have(key)=true for key {RemoteAddr: addr.String(), T: d.T} of that same datagram, with the same address/id/read-only sources, (iii) by the explicit AddNode API, (iv) with add=false after a failed maintenance ping; lastGotResponse is written only by the matched-response update; " +
			"C06.2 hearsay never reaches the table: nothing reachable from reply consumers (TraversalQueryResult, package traversal, announce and get/put closures, the DoQuery callbacks) can reach updateNode / addNode / AddNode; reply node lists are read only by TraversalQueryResult; " +
			"C06.3 eviction guard: table.dropNode is called only under nodeIsBad(victim) ∨ (IsGood(newcomer) ∧ victim.lastGotResponse.IsZero()), victim = the iterated entry of the full bucket, newcomer = the node being added; IsGood ⇒ ¬nodeIsBad and has-responded, so a good entry satisfies neither disjunct; " +
			"C06.4 bad contacts refused: nodeIsBad=false ⇒ (NoSecurity ∨ IsSecure) ∧ ¬failedLastQuestionablePing (own and zero ID: C05.3); " +
			"C06.5 blocked sources are dropped before processing (shared with C19.2); " +
			"C06.6 a transaction stays registered only for the duration of its exchange (shared with C07.3); " +
			"C06.7 'admitted whenever its bucket has room': every non-nil error return of Server.addNode is under nodeIsBad(n)=true, or under the eviction walk reporting the bucket still full, that walk being entered only under ¬(Len < k); every non-nil error return of updateNode is one of {id absent, not present ∧ add=false, own id, addNode's verdict}. C06.12 responses are matched on the full (id, address) pair kept apart in the key (shared with C07.1).",
		NotDecided: "time-dependent goodness windows (15 min); that the bucket examined for room is the right one (C05.1/C05.3).",
		Assume:     []string{"the bencode decoder fills krpc.Msg only from the datagram it is given"},
		Rules: []*Rule{
			{ID: "C06.1", Doc: "closed set of admission sites with verified sources", Floor: 6, Run: c06r1},
			{ID: "C06.2", Doc: "hearsay never reaches the table", Floor: 5, Run: c06r2},
			{ID: "C06.3", Doc: "eviction guard", Floor: 3, Run: c06r3},
			{ID: "C06.4", Doc: "bad contacts refused", Floor: 2, Run: c06r4},
			{ID: "C06.6", Doc: "a transaction is registered only for the duration of its exchange and removed under the key it was registered with, so a late or mismatched response finds nothing (shared with C07.3)", Floor: 4, Run: c07r3},
			{ID: "C06.7", Doc: "refusals are enumerated: an eligible sender is turned away only because it is bad or its bucket is (still) full", Floor: 4, Run: c06r7},
			{ID: "C06.8", Doc: "'an ID valid for its IP' is BEP 42 as specified: the 21 ID bits, the CRC input and the local-address exemption (shared with C17.1–C17.3)", Floor: 15, Run: func(w *World, rr *RuleRun) { c17r1(w, rr); c17r2(w, rr); c17r3(w, rr) }},
			{ID: "C06.9", Doc: "a message flag (read-only) or sender id cannot leak from an earlier datagram: fresh decode target per datagram (shared with C07.7)", Floor: 1, Run: c07r7},
			{ID: "C06.10", Doc: "the 'failed its liveness ping' mark is set only after the maintenance ping of that very contact failed, and cleared only together with recording a matched response", Floor: 2, Run: c06r10},
			{ID: "C06.11", Doc: "entries leave the table only through the eviction rule: single writer of the table indexes (shared with C05.1)", Floor: 8, Run: c05r1},
			{ID: "C06.12", Doc: "a response is matched on the full (transaction id, source address) pair, kept apart in the key (shared with C07.1)", Floor: 6, Run: c07r1},
			{ID: "C06.5", Doc: "blocked sources dropped first", Floor: 3, Run: c19r2},
		},
	})
}

func c06r1(w *World, rr *RuleRun) {
	upd := w.P.Func("(*Server).updateNode")
	hq := w.P.Func("(*Server).handleQuery")
	pp := w.P.Func("(*Server).processPacket")
	apiAdd := w.P.Func("(*Server).AddNode")
	qnp := w.P.Func("(*Server).questionableNodePing")
	senderID := w.P.Func("(krpc.Msg).SenderID")
	readOnly := w.P.Field("krpc", "Msg", "ReadOnly")
	msgT := w.P.Field("krpc", "Msg", "T")
	have := w.dispatcherMethod("Have")
	keyRA := w.P.Field("transactions", "Key", "RemoteAddr")
	keyT := w.P.Field("transactions", "Key", "T")
	lastResp := w.P.Field("", "node", "lastGotResponse")
	n := 0
	for _, e := range w.CG.CallersOf(upd) {
		if e.Callback || !w.P.IsLib(e.Caller) {
			continue
		}
		n++
		site := e.Site
		c := callInstrCommon(site)
		addr, id, add := w.TS.Of(c.Args[1]), w.TS.Of(c.Args[2]), w.TS.Of(c.Args[3])
		caller := w.rootOf(e.Caller)
		// wire-message sites: id = SenderID(M), add = !M.ReadOnly of the same M
		fromMsg := func(m *Term) (bool, string) {
			if !(isCall(id, senderID) && len(id.Args) == 1 && termEq(id.Args[0], m)) {
				return false, "id is not the handled message's sender id: " + trunc(id.String(), 120)
			}
			if !(add.Op == OpNot && isFieldTerm(add.Args[0], readOnly) && termEq(add.Args[0].Args[0], m)) {
				return false, "add flag is not !ReadOnly of the handled message: " + trunc(add.String(), 120)
			}
			return true, ""
		}
		switch caller {
		case hq:
			m := w.ParamTerm(hq, "m")
			src := w.ParamTerm(hq, "source")
			ok, why := fromMsg(m)
			rr.At(w, site, "query sender admitted with the datagram's own source, sender id and read-only flag", ok && termEq(addr, src), why+" address "+addr.String())
		case pp:
			src := w.ParamTerm(pp, "addr")
			// M is the decoded message local
			var m *Term
			if isCall(id, senderID) && len(id.Args) == 1 {
				m = id.Args[0]
			}
			ok, why := false, "id is not SenderID() of the decoded message"
			if m != nil {
				ok, why = fromMsg(m)
			}
			rr.At(w, site, "response sender admitted with the datagram's own source, sender id and read-only flag", ok && termEq(addr, src), why+" address "+addr.String())
			if m == nil {
				continue
			}
			w.Require(rr, site, "a response updates the table only after transactions.Have({source address, t}) = true for the same datagram", func(alt *Alt) (bool, string) {
				if alt.Has("b", true, func(x *Term) bool {
					// Have(key), or the comma-ok result of a dispatcher lookup on key
					if x.Op == OpExtract && x.Name == "1" && len(x.Args) == 1 && x.Args[0].Op == OpCall && strings.HasPrefix(x.Args[0].Name, "(*transactions.Dispatcher[") {
						x = x.Args[0]
					} else if !isCall(x, have) {
						return false
					}
					if len(x.Args) != 2 {
						return false
					}
					return w.keyLiteralIs(site.Parent(), x.Args[1], func(fields map[string]*Term) bool {
						ra, t := fields[keyRA.Name()], fields[keyT.Name()]
						return ra != nil && t != nil && ra.Op == OpCall && suffixName(ra) == "String" && len(ra.Args) == 1 && termEq(ra.Args[0], src) &&
							isFieldTerm(t, msgT) && termEq(t.Args[0], m)
					})
				}) {
					return true, "Have(key{addr.String(), d.T})"
				}
				return false, "the sender of an unsolicited or mismatched response would be admitted / refreshed"
			})
		case apiAdd:
			ni := w.ParamTerm(apiAdd, "ni")
			okA := addr.Contains(ni) && id.Contains(ni)
			rr.At(w, site, "explicit AddNode admits exactly the contact it was given", okA && add.IsConst("true"), "addr "+trunc(addr.String(), 100)+" id "+trunc(id.String(), 80))
		case qnp:
			rr.At(w, site, "a failed maintenance ping never adds a contact (add = false)", add.IsConst("false"), "add flag "+add.String())
		default:
			rr.At(w, site, "updateNode is called only from the four verified admission sites", false, "called from "+shortFuncName(e.Caller))
		}
	}
	if n < 4 {
		rr.Oblige(shortFuncName(upd), "the four admission sites exist", w.P.Pos(upd.Pos()), false, fmt.Sprintf("%d call sites", n))
	}
	// lastGotResponse ("has answered one of our queries") is written only by the matched-response update
	for _, acc := range w.FieldAccesses(w.P.LibFuncs, lastResp) {
		if !acc.Write {
			continue
		}
		rr.At(w, acc.Ins, "node.lastGotResponse is written only by the matched-response update in processPacket", w.withinUp(acc.Ins.Parent(), pp), "in "+shortFuncName(acc.Ins.Parent()))
	}
}

// dispatcherMethod: the instantiated transactions.Dispatcher method used by the server.
func (w *World) dispatcherMethod(name string) *ssa.Function {
	for _, f := range w.P.ModFuncs {
		s := shortFuncName(f)
		if strings.HasPrefix(s, "(*transactions.Dispatcher[") && strings.Contains(s, "])."+name) && f.Parent() == nil && len(f.Blocks) > 0 && strings.Contains(s, "*transaction]") {
			return f
		}
	}
	broken("transactions.Dispatcher.%s instance not found", name)
	return nil
}

// keyLiteralIs: key term k denotes a local transactions.Key cell of fn; pred gets the terms stored
// into its fields (every store of each field must agree).
func (w *World) keyLiteralIs(fn *ssa.Function, k *Term, pred func(map[string]*Term) bool) bool {
	if k.Op != OpDeref || k.Args[0].Op != OpLocal {
		// single-assignment cell already resolved to a literal value? try field-wise on the term itself
		return false
	}
	al, _ := k.Args[0].Obj.(*ssa.Alloc)
	if al == nil {
		return false
	}
	fields := map[string]*Term{}
	bad := false
	if al.Referrers() == nil {
		return false
	}
	for _, r := range *al.Referrers() {
		switch x := r.(type) {
		case *ssa.FieldAddr:
			st := x.X.Type().Underlying().(*types.Pointer).Elem().Underlying().(*types.Struct)
			name := st.Field(x.Field).Name()
			if x.Referrers() == nil {
				continue
			}
			for _, r2 := range *x.Referrers() {
				if s, ok := r2.(*ssa.Store); ok && s.Addr == ssa.Value(x) {
					v := w.TS.Of(s.Val)
					if old, have := fields[name]; have && old.String() != v.String() {
						bad = true
					}
					fields[name] = v
				}
			}
		case *ssa.Store:
			if x.Addr == ssa.Value(al) {
				// whole-value store (e.g. zero init of a composite literal): ignore constants
				if _, isC := x.Val.(*ssa.Const); !isC {
					bad = true
				}
			}
		}
	}
	return !bad && pred(fields)
}

func c06r2(w *World, rr *RuleRun) {
	upd := w.P.Func("(*Server).updateNode")
	sAdd := w.P.Func("(*Server).addNode")
	apiAdd := w.P.Func("(*Server).AddNode")
	var roots []*ssa.Function
	add := func(f *ssa.Function) {
		if f != nil {
			roots = append(roots, f)
			roots = append(roots, allAnon(f)...)
		}
	}
	add(w.P.Func("(QueryResult).TraversalQueryResult"))
	for _, f := range w.P.LibFuncs {
		if strings.HasPrefix(w.P.pkgPathOf(f), modPath+"/traversal") || strings.HasPrefix(w.P.pkgPathOf(f), modPath+"/exts/getput") {
			roots = append(roots, f)
		}
	}
	add(w.P.Func("(*Announce).getPeers"))
	add(w.P.Func("(*Announce).announcePeer"))
	t := w.trav()
	for _, f := range w.CG.FieldFuncs(t.doQuery) {
		add(f)
	}
	reach := w.CG.ReachCtx(roots, w.TS, nil)
	for _, tg := range []*ssa.Function{upd, sAdd, apiAdd} {
		_, hit := reach[tg]
		det := fmt.Sprintf("%d reply-consumer roots, %d functions reachable", len(roots), len(reach))
		if hit {
			r2 := w.CG.Reach(roots, nil)
			det = "reachable: " + strings.Join(w.CG.PathTo(r2, tg), " → ")
		}
		rr.Oblige(shortFuncName(tg), "not reachable from reply consumers / lookups (contacts learned by hearsay never enter the table)", w.P.Pos(tg.Pos()), !hit, det)
	}
	// the node lists of a reply are read by TraversalQueryResult only
	tqr := w.P.Func("(QueryResult).TraversalQueryResult")
	for _, fn := range []string{"Nodes", "Nodes6"} {
		fv := w.P.Field("krpc", "Return", fn)
		n := 0
		for _, ins := range w.FieldReads(w.P.LibFuncs, fv) {
			p := w.P.pkgPathOf(ins.Parent())
			if strings.HasSuffix(p, "/krpc") {
				continue // codec
			}
			n++
			rr.At(w, ins, "reply field "+strings.ToLower(fn)+" is consumed only by TraversalQueryResult (which feeds the lookup frontier, not the table)", w.withinUp(ins.Parent(), tqr), "read in "+shortFuncName(ins.Parent()))
		}
		if n == 0 {
			rr.ObligeTrivial("krpc.Return."+fn, "reply field "+strings.ToLower(fn)+" has a consumer", "-", true, "no reader outside the codec")
		}
	}
}

func c06r3(w *World, rr *RuleRun) {
	a := w.tableAnchors()
	lastResp := w.P.Field("", "node", "lastGotResponse")
	newcomer := w.ParamTerm(a.sAdd, "n")
	sites := w.CallsIn(a.sAdd, a.tDrop, true)
	if len(sites) == 0 {
		rr.Oblige(shortFuncName(a.sAdd), "eviction site exists", w.P.Pos(a.sAdd.Pos()), false, "no dropNode call")
	}
	for _, site := range sites {
		c := callInstrCommon(site)
		victimV := c.Args[1]
		w.Require(rr, site, "an entry is evicted only if it is bad, or the newcomer is good and the entry has never responded", func(alt *Alt) (bool, string) {
			victim := w.FE.Resolve(alt, victimV)
			if termEq(victim, newcomer) {
				return false, "the node being added is itself dropped"
			}
			bad := alt.Has("b", true, func(x *Term) bool { return isCall(x, a.nodeIsBad) && len(x.Args) == 2 && termEq(x.Args[1], victim) })
			goodNew := alt.Has("b", true, func(x *Term) bool { return isCall(x, a.isGood) && len(x.Args) == 2 && termEq(x.Args[1], newcomer) })
			never := alt.Has("b", true, func(x *Term) bool {
				return x.Op == OpCall && suffixName(x) == "IsZero" && len(x.Args) == 1 && isFieldTerm(x.Args[0], lastResp) && termEq(x.Args[0].Args[0], victim)
			})
			if bad {
				return true, "nodeIsBad(victim)"
			}
			if goodNew && never {
				return true, "IsGood(newcomer) ∧ victim.lastGotResponse.IsZero()"
			}
			return false, fmt.Sprintf("IsGood(newcomer)=%v, victim never responded=%v, victim bad=%v: a contact that has answered us could be evicted", goodNew, never, bad)
		})
		// the victim is the iterated entry of a full bucket: the closure's own parameter
		if p, ok := victimV.(*ssa.Parameter); ok {
			rr.At(w, site, "the evicted entry is the bucket entry being visited", p.Parent() == site.Parent(), "victim "+p.Name())
		}
	}
	w.checkIsGoodSummary(rr)
}

// checkIsGoodSummary: what IsGood(n)=true implies (shared by C06.3 and C05.5: the good-node count
// counts exactly the entries for which this holds).
func (w *World) checkIsGoodSummary(rr *RuleRun) {
	a := w.tableAnchors()
	lastResp := w.P.Field("", "node", "lastGotResponse")
	// IsGood=true ⇒ ¬nodeIsBad ∧ has responded
	sum := w.FE.Summary(a.isGood, 0, "true", 0)
	okBad, okResp := len(sum) > 0, len(sum) > 0
	for _, alt := range sum {
		if !alt.Has("b", false, func(x *Term) bool { return isCall(x, a.nodeIsBad) }) {
			okBad = false
		}
		responded := alt.Has("b", false, func(x *Term) bool {
			return x.Op == OpCall && suffixName(x) == "IsZero" && len(x.Args) == 1 && isFieldTerm(x.Args[0], lastResp)
		}) || alt.Has("b", true, func(x *Term) bool {
			// Since(lastGotResponse) < 15m
			return x.Op == OpBin && x.Name == "<" && x.Args[0].Op == OpCall && suffixName(x.Args[0]) == "Since" && hasFieldAnywhere(x.Args[0], lastResp)
		})
		if !responded {
			okResp = false
		}
	}
	rr.Oblige(shortFuncName(a.isGood), "IsGood(n)=true ⇒ nodeIsBad(n)=false", w.P.Pos(a.isGood.Pos()), okBad, "true-class "+trunc(sum.String(), 300))
	rr.Oblige(shortFuncName(a.isGood), "IsGood(n)=true ⇒ n has answered one of our queries (lastGotResponse recent or non-zero)", w.P.Pos(a.isGood.Pos()), okResp, "true-class "+trunc(sum.String(), 300))
}

func c06r4(w *World, rr *RuleRun) {
	a := w.tableAnchors()
	noSec := w.P.Field("", "ServerConfig", "NoSecurity")
	failed := w.P.Field("", "node", "failedLastQuestionablePing")
	// nodeIsBad(n) = (nodeErr(n) != nil): use nodeErr's nil-class directly to keep the disjunction
	nodeErr := w.P.Func("(*Server).nodeErr")
	sumBad := w.FE.Summary(a.nodeIsBad, 0, "false", 0)
	viaErr := len(sumBad) > 0
	for _, alt := range sumBad {
		if !alt.Has("n", false, func(x *Term) bool { return isCall(x, nodeErr) }) {
			viaErr = false
		}
	}
	rr.Oblige(shortFuncName(a.nodeIsBad), "nodeIsBad(n)=false ⇔ nodeErr(n)=nil", w.P.Pos(a.nodeIsBad.Pos()), viaErr, "false-class "+trunc(sumBad.String(), 200))
	sum := w.FE.Summary(nodeErr, 0, "nil", 0)
	okSec, okPing := len(sum) > 0, len(sum) > 0
	for _, alt := range sum {
		sec := alt.Has("b", true, func(x *Term) bool { return isFieldTerm(x, noSec) }) ||
			alt.Has("b", true, func(x *Term) bool {
				return x.Op == OpCall && (suffixName(x) == "IsSecure" || suffixName(x) == "NodeIdSecure")
			})
		if !sec {
			okSec = false
		}
		if !alt.Has("b", false, func(x *Term) bool { return isFieldTerm(x, failed) }) {
			okPing = false
		}
	}
	rr.Oblige(shortFuncName(a.nodeIsBad), "nodeIsBad(n)=false ⇒ NoSecurity ∨ IsSecure(n)", w.P.Pos(a.nodeIsBad.Pos()), okSec, "false-class "+trunc(sum.String(), 300))
	rr.Oblige(shortFuncName(a.nodeIsBad), "nodeIsBad(n)=false ⇒ n did not fail its last maintenance ping", w.P.Pos(a.nodeIsBad.Pos()), okPing, "false-class "+trunc(sum.String(), 300))
}

// c06r7: completeness of admission. The statement promises admission "whenever its bucket has
// room"; structurally that is: the only ways out of addNode / updateNode with an error are the
// stated ones. A further refusal (a global cap, a stricter bucket test) has no licence.
func c06r7(w *World, rr *RuleRun) {
	a := w.tableAnchors()
	upd := w.P.Func("(*Server).updateNode")
	newcomer := w.ParamTerm(a.sAdd, "n")
	lenLtK := func(x *Term) bool {
		return x.Op == OpBin && x.Name == "<" && x.Args[0].Op == OpCall && suffixName(x.Args[0]) == "Len" && isFieldTerm(x.Args[1], a.k)
	}
	isEach := func(x *Term) bool { return x.Op == OpCall && suffixName(x) == "EachNode" }
	ff := w.FE.analysisFor(a.sAdd)
	nErr := 0
	for _, ex := range ff.exits {
		if len(ex.ret.Results) != 1 {
			continue
		}
		for _, alt := range ex.st {
			v := w.FE.Resolve(alt, ex.ret.Results[0])
			if v.IsConst("nil") {
				continue
			}
			nErr++
			bad := alt.Has("b", true, func(x *Term) bool {
				return isCall(x, a.nodeIsBad) && len(x.Args) == 2 && termEq(x.Args[1], newcomer)
			})
			full := alt.Has("b", true, isEach)
			why := "neither nodeIsBad(n) nor a still-full bucket on this path: {" + trunc(strings.Join(alt.Facts(), " ∧ "), 240) + "}"
			if bad {
				why = "nodeIsBad(n)"
			} else if full {
				why = "the eviction walk reported the bucket still full"
			}
			rr.At(w, ex.ret, "Server.addNode refuses only a bad node or a full bucket", bad || full, why)
		}
	}
	if nErr == 0 {
		rr.Oblige(shortFuncName(a.sAdd), "Server.addNode refuses only a bad node or a full bucket", w.P.Pos(a.sAdd.Pos()), false, "no refusing exit found")
	}
	// the eviction walk is entered only when the bucket is full, and reports 'continue' only while it still is
	nEach := 0
	eachInstr([]*ssa.Function{a.sAdd}, func(_ *ssa.Function, ins ssa.Instruction) {
		c := callInstrCommon(ins)
		if c == nil || c.StaticCallee() == nil || c.StaticCallee().Name() != "EachNode" {
			return
		}
		nEach++
		w.Require(rr, ins, "the eviction walk starts only when the bucket has no room (¬ Len < k)", func(alt *Alt) (bool, string) {
			if alt.Has("b", false, lenLtK) {
				return true, "¬(Len < k)"
			}
			return false, "the walk (whose 'still full' verdict refuses the newcomer) may start with room left"
		})
		for _, cb := range w.CG.FuncsOf(c.Args[1]) {
			sum := w.FE.Summary(cb, 0, "true", 0)
			ok := len(sum) > 0
			for _, sa := range sum {
				if !sa.Has("b", false, lenLtK) {
					ok = false
				}
			}
			rr.At(w, ins, "the walk's callback asks to continue only while the bucket is still full", ok, "true-class "+trunc(sum.String(), 200))
		}
	})
	if nEach == 0 {
		rr.ObligeTrivial(shortFuncName(a.sAdd), "no eviction walk in Server.addNode", "-", true, "")
	}
	// updateNode
	idP := w.ParamTerm(upd, "id")
	tryAdd := w.ParamTerm(upd, "tryAdd")
	fu := w.FE.analysisFor(upd)
	nU := 0
	for _, ex := range fu.exits {
		if len(ex.ret.Results) != 1 {
			continue
		}
		for _, alt := range ex.st {
			v := w.FE.Resolve(alt, ex.ret.Results[0])
			if v.IsConst("nil") {
				continue
			}
			nU++
			reason := ""
			switch {
			case isCall(v, a.sAdd):
				reason = "addNode's verdict"
			case alt.Has("n", false, func(x *Term) bool { return termEq(x, idP) }):
				reason = "no sender id"
			case alt.Has("b", false, func(x *Term) bool { return termEq(x, tryAdd) }):
				reason = "not present and add flag false"
			case alt.Has("b", true, func(x *Term) bool {
				return x.Op == OpBin && x.Name == "==" && (isFieldTerm(x.Args[0], a.serverID) || isFieldTerm(x.Args[1], a.serverID))
			}):
				reason = "own id"
			}
			rr.At(w, ex.ret, "updateNode refuses only for a stated reason", reason != "", reason+" {"+trunc(strings.Join(alt.Facts(), " ∧ "), 200)+"}")
		}
	}
	if nU == 0 {
		rr.Oblige(shortFuncName(upd), "updateNode refuses only for a stated reason", w.P.Pos(upd.Pos()), false, "no refusing exit found")
	}
}

// c06r10: a contact is "bad" (evictable, not propagated) while failedLastQuestionablePing is set.
// Good contacts must not acquire the mark by any other route than a failed maintenance ping, and a
// bad contact must not lose it merely by talking to us: only a matched response clears it.
func c06r10(w *World, rr *RuleRun) {
	flag := w.P.Field("", "node", "failedLastQuestionablePing")
	lastResp := w.P.Field("", "node", "lastGotResponse")
	qnp := w.P.Func("(*Server).questionableNodePing")
	nSet, nClr := 0, 0
	for _, ins := range w.FieldWrites(w.P.LibFuncs, flag) {
		st, ok := ins.(*ssa.Store)
		if !ok {
			continue
		}
		v := w.TS.Of(st.Val)
		fn := st.Parent()
		switch {
		case v.IsConst("true"):
			nSet++
			rr.At(w, ins, "a contact is marked as having failed its ping only by the maintenance ping routine", within(fn, qnp) || w.withinUp(fn, qnp), "in "+shortFuncName(fn))
			if within(fn, qnp) || w.withinUp(fn, qnp) {
				// and only on the failure path of that ping
				w.Require(rr, w.outermostSiteIn(ins, qnp), "the mark is set only on the failure path of the ping", func(alt *Alt) (bool, string) {
					if alt.Has("n", true, func(x *Term) bool { return x.Op == OpField && x.Name == "Err" }) {
						return true, "ping error ≠ nil"
					}
					if alt.Has("n", false, func(x *Term) bool { return x.Op == OpField && x.Name == "R" }) {
						return true, "reply has no r"
					}
					return false, "no failure fact"
				})
			}
		case v.IsConst("false"):
			nClr++
			// every function that clears the mark records a response in the same body, and is not
			// reachable from the query-side update
			recordsResp := len(w.FieldWrites([]*ssa.Function{fn}, lastResp)) > 0
			rr.At(w, ins, "the mark is cleared only together with recording a matched response", recordsResp, "in "+shortFuncName(fn))
		default:
			rr.At(w, ins, "the failed-ping mark is only ever stored as a constant", false, "stores "+trunc(v.String(), 80))
		}
	}
	if nSet == 0 || nClr == 0 {
		rr.Oblige("node.failedLastQuestionablePing", "the mark is both set and cleared somewhere", "-", false, fmt.Sprintf("%d set, %d clear sites", nSet, nClr))
	}
}

// outermostSiteIn: the instruction in root (or one of its closures' creation points) that leads to
// ins: ins itself when it is in root, else the MakeClosure of the closure chain containing it.
func (w *World) outermostSiteIn(ins ssa.Instruction, root *ssa.Function) ssa.Instruction {
	f := ins.Parent()
	cur := ins
	for f != root && f.Parent() != nil {
		var mk ssa.Instruction
		eachInstr([]*ssa.Function{f.Parent()}, func(_ *ssa.Function, i2 ssa.Instruction) {
			if m, ok := i2.(*ssa.MakeClosure); ok && m.Fn == f {
				mk = m
			}
			// a closure without captured variables is a plain function value used as an operand
			if mk == nil {
				for _, op := range i2.Operands(nil) {
					if g, ok := (*op).(*ssa.Function); ok && g == f {
						mk = i2
					}
				}
			}
		})
		if mk == nil {
			break
		}
		cur, f = mk, f.Parent()
	}
	return cur
}
