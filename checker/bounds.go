package main

// Engine H: wire-byte bounds. Every index / slice / unchecked type assertion in the decoder scope
// must be in range by dominating length facts, or be recovered into an error by a deferred
// recover() that assigns the function's error result.

import (
	"fmt"
	"go/token"
	"go/types"
	"strconv"
	"strings"

	"golang.org/x/tools/go/ssa"
)

type boundSite struct {
	Ins  ssa.Instruction
	Kind string // index | slice | assert
	Base *Term
}

// decoderScope: UnmarshalBinary/UnmarshalBencode methods of the module, the packet entry, their
// closures and the module functions they hand byte slices / strings to (transitively).
func (w *World) decoderScope() []*ssa.Function {
	in := map[*ssa.Function]bool{}
	var order []*ssa.Function
	var add func(f *ssa.Function)
	add = func(f *ssa.Function) {
		if f == nil || in[f] || !w.P.IsLib(f) {
			return
		}
		in[f] = true
		order = append(order, f)
		for _, a := range f.AnonFuncs {
			add(a)
		}
	}
	for _, f := range w.P.LibFuncs {
		if f.Parent() == nil && (f.Name() == "UnmarshalBinary" || f.Name() == "UnmarshalBencode" || f.Name() == "UnmarshalText") && f.Signature.Recv() != nil && f.Synthetic == "" {
			add(f)
		}
	}
	add(w.P.Func("(*Server).processPacket"))
	for i := 0; i < len(order); i++ {
		f := order[i]
		for _, e := range w.CG.Out[f] {
			if e.Callback || e.Mode == ModeGo {
				continue
			}
			c := callInstrCommon(e.Site)
			bytesArg := false
			for _, a := range c.Args {
				switch u := a.Type().Underlying().(type) {
				case *types.Slice:
					if b, ok := u.Elem().Underlying().(*types.Basic); ok && b.Kind() == types.Byte {
						bytesArg = true
					}
				case *types.Basic:
					if u.Info()&types.IsString != 0 {
						if _, isConst := a.(*ssa.Const); !isConst {
							bytesArg = true
						}
					}
				}
			}
			if bytesArg && e.Callee.Synthetic == "" {
				add(e.Callee)
			}
		}
	}
	return order
}

// boundSites lists the potentially panicking index/slice/assert instructions of fn.
func (w *World) boundSites(fn *ssa.Function) []boundSite {
	var out []boundSite
	for _, b := range fn.Blocks {
		for _, ins := range b.Instrs {
			switch i := ins.(type) {
			case *ssa.IndexAddr:
				out = append(out, boundSite{ins, "index", nil})
			case *ssa.Index:
				out = append(out, boundSite{ins, "index", nil})
			case *ssa.Lookup:
				if _, isMap := i.X.Type().Underlying().(*types.Map); !isMap {
					out = append(out, boundSite{ins, "index", nil})
				}
			case *ssa.Slice:
				out = append(out, boundSite{ins, "slice", nil})
			case *ssa.TypeAssert:
				if !i.CommaOk {
					out = append(out, boundSite{ins, "assert", nil})
				}
			case *ssa.SliceToArrayPointer:
				out = append(out, boundSite{ins, "slice", nil})
			}
		}
	}
	return out
}

func arrayLen(t types.Type) (int64, bool) {
	if p, ok := t.Underlying().(*types.Pointer); ok {
		t = p.Elem()
	}
	if a, ok := t.Underlying().(*types.Array); ok {
		return a.Len(), true
	}
	return 0, false
}

func constOf(t *Term) (int64, bool) {
	if t != nil && t.Op == OpConst {
		n, err := strconv.ParseInt(t.Name, 10, 64)
		if err == nil {
			return n, true
		}
	}
	return 0, false
}

// lenAtLeast: does alt imply len(base) ≥ n (n a constant) ?
func lenAtLeast(alt *Alt, base *Term, n int64) bool {
	if n <= 0 {
		return true
	}
	lb := (&Term{Op: OpLen, Args: []*Term{base}}).String()
	ok := false
	for k, t := range alt.terms {
		if k[0] != 'b' || t.Op != OpBin {
			continue
		}
		sign := alt.facts[k]
		x, y := t.Args[0], t.Args[1]
		switch t.Name {
		case "<":
			// ¬(len < c) ⇒ len ≥ c
			if !sign && x.String() == lb {
				if c, isC := constOf(y); isC && c >= n {
					ok = true
				}
			}
			// (c < len) ⇒ len ≥ c+1
			if sign && y.String() == lb {
				if c, isC := constOf(x); isC && c+1 >= n {
					ok = true
				}
			}
		case "==":
			// len == c (c ≥ n); or ¬(len == 0) ⇒ len ≥ 1
			var other *Term
			if x.String() == lb {
				other = y
			} else if y.String() == lb {
				other = x
			}
			if other != nil {
				if c, isC := constOf(other); isC {
					if sign && c >= n {
						ok = true
					}
					if !sign && c == 0 && n <= 1 {
						ok = true
					}
				}
			}
		}
	}
	return ok
}

// leLen: does alt imply 0 ≤ v ≤ len(base)? (v a term)
func leLen(alt *Alt, base, v *Term) (bool, string) {
	if v == nil || v.IsConst("-") {
		return true, "open bound"
	}
	if c, ok := constOf(v); ok {
		if c < 0 {
			return false, "negative constant"
		}
		if lenAtLeast(alt, base, c) {
			return true, "len ≥ " + v.Name
		}
		return false, "no fact len(" + base.String() + ") ≥ " + v.Name
	}
	lb := &Term{Op: OpLen, Args: []*Term{base}}
	if v.String() == lb.String() {
		return true, "bound is len(base)"
	}
	// v = len(base) - c
	if v.Op == OpBin && v.Name == "-" && v.Args[0].String() == lb.String() {
		if c, ok := constOf(v.Args[1]); ok && c >= 0 && lenAtLeast(alt, base, c) {
			return true, "len-" + v.Args[1].Name + " with len ≥ " + v.Args[1].Name
		}
		return false, "bound len-c without len ≥ c"
	}
	// ¬(len(base) < v)
	k := "b:" + cmpKey("<", lb, v).String()
	if s, ok := alt.facts[k]; ok && !s {
		return true, "¬(len < bound)"
	}
	// (v < len(base)) or v <= len
	k2 := "b:" + cmpKey("<", v, lb).String()
	if s, ok := alt.facts[k2]; ok && s {
		return true, "bound < len"
	}
	return false, "no length fact relates " + v.String() + " to len(" + base.String() + ")"
}

// ltLen: 0 ≤ idx < len(base)
func ltLen(alt *Alt, base, idx *Term) (bool, string) {
	if c, ok := constOf(idx); ok {
		if c < 0 {
			return false, "negative constant index"
		}
		if lenAtLeast(alt, base, c+1) {
			return true, "len ≥ " + strconv.FormatInt(c+1, 10)
		}
		return false, "no fact len(" + base.String() + ") ≥ " + strconv.FormatInt(c+1, 10)
	}
	lb := &Term{Op: OpLen, Args: []*Term{base}}
	k := "b:" + cmpKey("<", idx, lb).String()
	if s, ok := alt.facts[k]; ok && s {
		return true, "idx < len"
	}
	return false, "no fact " + idx.String() + " < len(" + base.String() + ")"
}

// recoveredBy: ins's function (or an enclosing immediately-invoked closure chain) has a deferred
// closure, dominating ins, that calls recover() and assigns an error-typed variable of an enclosing
// function.
func (w *World) recoveredBy(ins ssa.Instruction) (bool, string) {
	fn := ins.Parent()
	for fn != nil {
		for _, b := range fn.Blocks {
			for _, d := range b.Instrs {
				df, ok := d.(*ssa.Defer)
				if !ok {
					continue
				}
				if !b.Dominates(ins.Block()) && fn == ins.Parent() {
					continue
				}
				mc, ok := df.Call.Value.(*ssa.MakeClosure)
				if !ok {
					continue
				}
				cl := mc.Fn.(*ssa.Function)
				hasRecover, setsErr, rePanics := false, false, false
				for _, cb := range cl.Blocks {
					for _, ci := range cb.Instrs {
						if _, isPanic := ci.(*ssa.Panic); isPanic {
							// a handler that throws some recovered values again (C15-v3: everything
							// but type-assertion errors) does not turn every panic into an error
							rePanics = true
						}
						if c := callInstrCommon(ci); c != nil {
							if bi, ok := c.Value.(*ssa.Builtin); ok && bi.Name() == "recover" {
								hasRecover = true
							}
						}
						if st, ok := ci.(*ssa.Store); ok {
							if types.Identical(st.Val.Type(), types.Universe.Lookup("error").Type()) {
								if _, isFV := st.Addr.(*ssa.FreeVar); isFV {
									setsErr = true
								}
							}
						}
					}
				}
				if hasRecover && setsErr && !rePanics {
					return true, "deferred " + shortFuncName(cl) + " recovers and assigns the error result"
				}
			}
		}
		// continue outwards only through immediately-invoked closures
		site, ok := w.FE.inlineAt[fn]
		if !ok {
			break
		}
		ins = site
		fn = site.Parent()
	}
	return false, ""
}

// CheckBounds emits one obligation per bound site of fn.
func (w *World) CheckBounds(rr *RuleRun, fn *ssa.Function) int {
	n := 0
	for _, bs := range w.boundSites(fn) {
		ins := bs.Ins
		switch i := ins.(type) {
		case *ssa.IndexAddr, *ssa.Index, *ssa.Lookup:
			var x, idx ssa.Value
			switch j := i.(type) {
			case *ssa.IndexAddr:
				x, idx = j.X, j.Index
			case *ssa.Index:
				x, idx = j.X, j.Index
			case *ssa.Lookup:
				x, idx = j.X, j.Index
			}
			if al, ok := arrayLen(x.Type()); ok {
				if c, isC := ConstInt(idx); isC && c >= 0 && c < al {
					continue // compiler-checked constant index into an array
				}
			}
			if isRangeIndex(idx, x) {
				n++
				rr.At(w, ins, "index by range variable of the same value", true, "idx produced by range over "+w.TS.Of(x).String())
				continue
			}
			// x = make(T, len(y)) indexed by the range variable of a loop over y
			if mk, isMk := x.(*ssa.MakeSlice); isMk {
				if lc, isCall := mk.Len.(*ssa.Call); isCall {
					if bi, isB := lc.Call.Value.(*ssa.Builtin); isB && bi.Name() == "len" && len(lc.Call.Args) == 1 && isRangeIndex(idx, lc.Call.Args[0]) {
						n++
						rr.At(w, ins, "index by range variable of the value whose length sized the slice", true, "make(_, len(y)) indexed while ranging over y = "+w.TS.Of(lc.Call.Args[0]).String())
						continue
					}
				}
			}
			n++
			if ok, how := w.recoveredBy(ins); ok {
				rr.At(w, ins, "index "+w.TS.Of(x).String()+"["+w.TS.Of(idx).String()+"] in range or recovered", true, how)
				continue
			}
			xv, iv := x, idx
			w.Require(rr, ins, "index "+w.TS.Of(x).String()+"["+w.TS.Of(idx).String()+"] in range or recovered", func(alt *Alt) (bool, string) {
				base := w.FE.Resolve(alt, xv)
				if _, isPtr := xv.Type().Underlying().(*types.Pointer); isPtr {
					base = normalizeTerm(&Term{Op: OpDeref, Args: []*Term{base}})
				}
				if al, ok := arrayLen(xv.Type()); ok {
					// array with variable index: need idx < al
					it := w.FE.Resolve(alt, iv)
					k := "b:" + cmpKey("<", it, constTerm(strconv.FormatInt(al, 10))).String()
					if s, ok := alt.facts[k]; ok && s {
						return true, "idx < array length"
					}
					return false, "variable index into array without bound"
				}
				return ltLen(alt, base, w.FE.Resolve(alt, iv))
			})
		case *ssa.Slice:
			if _, ok := arrayLen(i.X.Type()); ok {
				lo, hi := int64(0), int64(-1)
				okc := true
				if i.Low != nil {
					if c, isC := ConstInt(i.Low); isC {
						lo = c
					} else {
						okc = false
					}
				}
				if i.High != nil {
					if c, isC := ConstInt(i.High); isC {
						hi = c
					} else {
						okc = false
					}
				}
				_ = lo
				_ = hi
				if okc {
					continue // constant bounds on an array: compiler-checked
				}
			}
			if i.Low == nil && i.High == nil {
				continue
			}
			n++
			if ok, how := w.recoveredBy(ins); ok {
				rr.At(w, ins, "slice "+w.TS.Of(i).String()+" in range or recovered", true, how)
				continue
			}
			sl := i
			w.Require(rr, ins, "slice "+w.TS.Of(i).String()+" in range or recovered", func(alt *Alt) (bool, string) {
				base := w.FE.Resolve(alt, sl.X)
				if _, isPtr := sl.X.Type().Underlying().(*types.Pointer); isPtr {
					base = normalizeTerm(&Term{Op: OpDeref, Args: []*Term{base}})
				}
				var why []string
				if sl.Low != nil {
					ok, how := leLen(alt, base, w.FE.Resolve(alt, sl.Low))
					if !ok {
						return false, "low bound: " + how
					}
					why = append(why, "low: "+how)
				}
				if sl.High != nil {
					ok, how := leLen(alt, base, w.FE.Resolve(alt, sl.High))
					if !ok {
						return false, "high bound: " + how
					}
					why = append(why, "high: "+how)
				}
				if sl.Low != nil && sl.High != nil {
					l, lc := constOf(w.FE.Resolve(alt, sl.Low))
					h, hc := constOf(w.FE.Resolve(alt, sl.High))
					if !(lc && hc && l <= h) && !(lc && l == 0) {
						return false, "cannot order low and high bounds"
					}
				}
				return true, strings.Join(why, "; ")
			})
		case *ssa.TypeAssert:
			n++
			ok, how := w.recoveredBy(ins)
			rr.At(w, ins, "unchecked type assertion "+w.TS.Of(i).String()+" recovered", ok, how)
		case *ssa.SliceToArrayPointer:
			n++
			ok, how := w.recoveredBy(ins)
			rr.At(w, ins, "slice-to-array conversion guarded", ok, how)
		}
	}
	return n
}

// isRangeIndex: idx is the induction variable of a range loop over x: SSA lowers `for i := range s`
// to a phi compared with len(s) of the same value.
func isRangeIndex(idx, x ssa.Value) bool {
	// pattern: idx = phi [-1, idx+1]... ssa lowers range over slices as:
	//   t = phi [entry: -1, body: t']; t' = t + 1; cond = t' < len(s); if cond goto body
	bo, ok := idx.(*ssa.BinOp)
	if !ok || bo.Op != token.ADD {
		return false
	}
	if _, isPhi := bo.X.(*ssa.Phi); !isPhi {
		return false
	}
	refs := bo.Referrers()
	if refs == nil {
		return false
	}
	for _, r := range *refs {
		cmp, ok := r.(*ssa.BinOp)
		if !ok || cmp.Op != token.LSS || cmp.X != ssa.Value(bo) {
			continue
		}
		if call, ok := cmp.Y.(*ssa.Call); ok {
			if bi, ok := call.Call.Value.(*ssa.Builtin); ok && bi.Name() == "len" && sameValue(call.Call.Args[0], x) {
				return true
			}
		}
	}
	return false
}

func sameValue(a, b ssa.Value) bool {
	if a == b {
		return true
	}
	// loads of the same address
	ua, ok1 := a.(*ssa.UnOp)
	ub, ok2 := b.(*ssa.UnOp)
	if ok1 && ok2 && ua.Op == token.MUL && ub.Op == token.MUL && ua.X == ub.X {
		return true
	}
	return false
}

func c01r2(w *World, rr *RuleRun) {
	scope := w.decoderScope()
	rr.rep.Extra["decoder_scope"] = funcNames(scope)
	need := []string{"(*krpc.NodeAddr).UnmarshalBinary", "(*krpc.NodeInfo).UnmarshalBinary", "krpc.unmarshalBinarySlice", "(*krpc.Error).UnmarshalBencode", "(*Server).processPacket"}
	have := map[string]bool{}
	for _, f := range scope {
		have[shortFuncName(f)] = true
	}
	for _, n := range need {
		if !have[n] {
			rr.Broken("decoder scope lost anchor %s", n)
		}
	}
	for _, f := range scope {
		w.CheckBounds(rr, f)
	}
	// the handlers work on the decoded message, whose strings and lists are as long as the sender
	// made them: the same obligations hold in the query handler and its closures (the statistics
	// goroutine included - a panic there is outside every recover)
	inScope := map[*ssa.Function]bool{}
	for _, f := range scope {
		inScope[f] = true
	}
	hq := w.P.Func("(*Server).handleQuery")
	for _, f := range append([]*ssa.Function{hq}, allAnon(hq)...) {
		if !inScope[f] {
			inScope[f] = true
			w.CheckBounds(rr, f)
		}
	}
	w.checkFixedWidthAccessors(rr)
}

// checkFixedWidthAccessors: encoding/binary's ByteOrder accessors (Uint16/32/64, PutUint16/32/64) index
// their slice unconditionally; every library call must hand them a slice that is provably long
// enough. This covers the encoders too: a reply is encoded with MustMarshal in a bare goroutine, so
// a panic there takes the process down.
func (w *World) checkFixedWidthAccessors(rr *RuleRun) {
	width := map[string]int64{"Uint16": 2, "Uint32": 4, "Uint64": 8, "PutUint16": 2, "PutUint32": 4, "PutUint64": 8}
	n := 0
	eachInstr(w.P.LibFuncs, func(fn *ssa.Function, ins ssa.Instruction) {
		c := callInstrCommon(ins)
		if c == nil {
			return
		}
		var name string
		var arg ssa.Value
		if c.IsInvoke() {
			if c.Method.Pkg() == nil || c.Method.Pkg().Path() != "encoding/binary" || len(c.Args) == 0 {
				return
			}
			name, arg = c.Method.Name(), c.Args[0]
		} else {
			o := calleeObj(c)
			if o == nil || o.Pkg() == nil || o.Pkg().Path() != "encoding/binary" || o.Type().(*types.Signature).Recv() == nil || len(c.Args) < 2 {
				return
			}
			name, arg = o.Name(), c.Args[1]
		}
		need, ok := width[name]
		if !ok {
			return
		}
		n++
		what := fmt.Sprintf("binary.%s is handed at least %d bytes", name, need)
		// the operand is x[lo:hi]: its length is hi-lo
		if sl, isSl := arg.(*ssa.Slice); isSl {
			if al, isArr := arrayLen(sl.X.Type()); isArr {
				lo, hi := int64(0), al
				okc := true
				if sl.Low != nil {
					if v, isC := ConstInt(sl.Low); isC {
						lo = v
					} else {
						okc = false
					}
				}
				if sl.High != nil {
					if v, isC := ConstInt(sl.High); isC {
						hi = v
					} else {
						okc = false
					}
				}
				if okc {
					rr.At(w, ins, what, hi-lo >= need, fmt.Sprintf("array window of %d bytes", hi-lo))
					return
				}
				// offset = copy(x[lo0:hi0], ...) ≤ hi0-lo0 leaves at least len(x)-(hi0-lo0) bytes
				if cp, isCall := sl.Low.(*ssa.Call); isCall && sl.High == nil {
					if bi, isB := cp.Call.Value.(*ssa.Builtin); isB && bi.Name() == "copy" {
						if dst, isS := cp.Call.Args[0].(*ssa.Slice); isS && dst.X == sl.X {
							lo0, hi0, okd := int64(0), al, true
							if dst.Low != nil {
								if v, isC := ConstInt(dst.Low); isC {
									lo0 = v
								} else {
									okd = false
								}
							}
							if dst.High != nil {
								if v, isC := ConstInt(dst.High); isC {
									hi0 = v
								} else {
									okd = false
								}
							}
							if okd {
								left := al - (hi0 - lo0)
								rr.At(w, ins, what, left >= need, fmt.Sprintf("the offset is a copy count of at most %d into an array of %d: as few as %d bytes are left", hi0-lo0, al, left))
								return
							}
						}
					}
				}
				rr.At(w, ins, what, false, "window "+w.TS.Of(sl).String()+" of a fixed array starts or ends at a computed offset: nothing bounds what is left")
				return
			}
			if sl.High == nil && sl.Low != nil {
				lo := w.TS.Of(sl.Low)
				lb := &Term{Op: OpLen, Args: []*Term{w.TS.Of(sl.X)}}
				if lo.Op == OpBin && lo.Name == "-" && lo.Args[0].String() == lb.String() {
					if cst, isC := constOf(lo.Args[1]); isC {
						rr.At(w, ins, what, cst >= need, fmt.Sprintf("tail window of %d bytes (its own bounds are checked as a slice site)", cst))
						return
					}
				}
			}
		}
		av := arg
		w.Require(rr, ins, what, func(alt *Alt) (bool, string) {
			if lenAtLeast(alt, w.FE.Resolve(alt, av), need) {
				return true, "length fact"
			}
			return false, "no fact len(" + trunc(w.FE.Resolve(alt, av).String(), 80) + ") ≥ " + strconv.FormatInt(need, 10)
		})
	})
	if n == 0 {
		rr.Oblige("(library)", "fixed-width binary accessors examined", "-", false, "none found")
	}
}
