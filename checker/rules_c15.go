package main

import (
	"fmt"
	"go/constant"
	"go/types"
	"reflect"
	"sort"
	"strings"

	"golang.org/x/tools/go/ssa"
)

func init() {
	register(&Property{
		ID:    "C15",
		Title: "KRPC wire codec round-trips and never panics",
		Decided: "C15.1 size table ↔ encoder agreement: for every compact list type, ElemSize() = (20 if the element carries an ID) + IP width the type's own MarshalBinary normalises to (To4 → 4, To16 → 16; raw 20-byte arrays for infohashes) + 2; MarshalBinary goes through the width-asserting helper (or emits len × ElemSize bytes), UnmarshalBinary through unmarshalBinarySlice on the receiver itself; expected table 6 / 18 / 26 / 38 / 20; " +
			"C15.2 partial elements are an error, not a slice past the end: every index/slice of wire bytes in the decoders is guarded by a length fact or a recover (engine H, shared with C01.2); the element decoder is handed exactly b[:ElemSize] and the cursor advances by exactly ElemSize, both under len(b) ≥ ElemSize; the compact decoder returns only with its input exhausted, on the short-tail error or with an element error in hand; every encoding/binary fixed-width accessor in the library (decoders and encoders) is handed a provably long-enough slice; " +
			"C15.3 method pairing: every krpc type with MarshalBencode/MarshalBinary has the matching Unmarshal on its pointer and vice versa; the nodes file is written and read through the same compact type, and the writer replaces the file (create+truncate); " +
			"C15.4 tag table: within every wire struct (embedded structs flattened) bencode keys are unique and every field has a tag; " +
			"C15.6 every error result returned anywhere under the krpc Marshal* methods is nil or handed up from a callee - none is constructed there - so encoding a message assembled by the handlers cannot fail (and MustMarshal in reply() cannot panic) because of a field value such as an out-of-range port taken from the wire; " +
			"C15.7 in every library function with an error result that calls a krpc / bencode decoder, each return on a path on which that decoder reported an error carries a non-nil error (\"any other length is an error\" also at ReadNodesFromFile and the bencode entry points); " +
			"C15.5 encoding is read-only on the message: in everything reachable from the krpc Marshal* methods no append, copy or element store has a destination that is (part of) a field of the value being encoded - append into a message slice would write its spare capacity, which may alias a neighbouring address; no value-receiver Marshal* method assigns to its receiver copy and NodeAddr's IP bytes reach its binary form verbatim (an encoder encodes the value it was handed, so decode→encode keeps the address form); every index, slice and unchecked assertion in the encoder closure is in range (engine H), so re-encoding a decoded message cannot panic on an index.",
		NotDecided: "round-trip identity and decode→encode fixpoint over all values (a value-level statement about the bencode library and net.IP forms); acceptance of every multiple-of-ElemSize input.",
		Assume:     []string{"github.com/anacrolix/torrent/bencode re-panics runtime errors raised inside UnmarshalBencode callbacks (read in its decoder), so decoder guards are load-bearing"},
		Rules: []*Rule{
			{ID: "C15.1", Doc: "compact element sizes agree with the encoders", Floor: 10, Run: c15r1},
			{ID: "C15.2", Doc: "wire bytes never indexed unguarded; fixed-width element cursor", Floor: 10, Run: c15r2},
			{ID: "C15.3", Doc: "Marshal/Unmarshal pairing; nodes file", Floor: 8, Run: c15r3},
			{ID: "C15.4", Doc: "bencode tags unique and complete", Floor: 5, Run: c15r4},
			{ID: "C15.6", Doc: "encoders do not refuse values: no krpc Marshal* path constructs an error of its own (replies are encoded with MustMarshal in a bare goroutine)", Floor: 10, Run: c15r6},
			{ID: "C15.7", Doc: "a decoder's refusal is never swallowed: a function that saw a decoder fail returns an error", Floor: 5, Run: c15r7},
			{ID: "C15.5", Doc: "encoders do not write into the message they encode", Floor: 3, Run: c15r5},
		},
	})
}

func methodOf(w *World, t types.Type, name string) *ssa.Function {
	for _, tt := range []types.Type{t, types.NewPointer(t)} {
		ms := w.P.SSA.MethodSets.MethodSet(tt)
		for i := 0; i < ms.Len(); i++ {
			if ms.At(i).Obj().Name() == name {
				f := w.P.SSA.MethodValue(ms.At(i))
				if f != nil && f.Synthetic == "" {
					return f
				}
				if f != nil {
					// wrapper: unwrap to the declared method
					if o, ok := ms.At(i).Obj().(*types.Func); ok {
						if g := w.P.SSA.FuncValue(o); g != nil {
							return g
						}
					}
					return f
				}
			}
		}
	}
	return nil
}

func c15r1(w *World, rr *RuleRun) {
	pk := w.P.Pkg("krpc")
	sc := pk.Types.Scope()
	mbs := w.P.Func("krpc.marshalBinarySlice")
	ubs := w.P.Func("krpc.unmarshalBinarySlice")
	idT := w.P.NamedType("krpc", "ID")
	n := 0
	var table []string
	for _, name := range sc.Names() {
		tn, ok := sc.Lookup(name).(*types.TypeName)
		if !ok || tn.IsAlias() {
			continue
		}
		sl, ok := tn.Type().Underlying().(*types.Slice)
		if !ok {
			continue
		}
		es := methodOf(w, tn.Type(), "ElemSize")
		if es == nil {
			continue
		}
		n++
		// constant returned
		var size int64 = -1
		for _, b := range es.Blocks {
			for _, ins := range b.Instrs {
				if ret, ok := ins.(*ssa.Return); ok && len(ret.Results) == 1 {
					if c, isC := ConstInt(ret.Results[0]); isC {
						size = c
					}
				}
			}
		}
		// element layout
		base := int64(-1)
		needIP := true
		switch et := sl.Elem().Underlying().(type) {
		case *types.Array:
			base, needIP = et.Len(), false
		case *types.Struct:
			base = 2 // port
			for i := 0; i < et.NumFields(); i++ {
				if types.Identical(et.Field(i).Type(), idT) {
					if al, ok := arrayLen(idT); ok {
						base += al
					}
				}
				if st2, ok := et.Field(i).Type().Underlying().(*types.Struct); ok && et.Field(i).Name() == "Addr" {
					_ = st2
				}
			}
		}
		mb := methodOf(w, tn.Type(), "MarshalBinary")
		ipw := int64(0)
		how := ""
		if needIP {
			// the normaliser closure(s) of MarshalBinary: To4 / To16 applied to the element's IP
			if mb != nil {
				// MarshalBinary, its closures, and named module functions it hands on as values
				norms := append([]*ssa.Function{mb}, allAnon(mb)...)
				eachInstr([]*ssa.Function{mb}, func(_ *ssa.Function, ins ssa.Instruction) {
					c := callInstrCommon(ins)
					if c == nil {
						return
					}
					for _, a := range c.Args {
						var f *ssa.Function
						switch x := a.(type) {
						case *ssa.Function:
							f = x
						case *ssa.ChangeType:
							f, _ = x.X.(*ssa.Function)
						case *ssa.MakeClosure:
							f, _ = x.Fn.(*ssa.Function)
						}
						if f != nil && f.Parent() == nil && w.P.IsLib(f) && len(f.Blocks) > 0 {
							norms = append(norms, f)
						}
					}
				})
				for _, f := range norms {
					for _, b := range f.Blocks {
						for _, ins := range b.Instrs {
							if c := callInstrCommon(ins); c != nil {
								if o := calleeObj(c); o != nil && o.Pkg() != nil && o.Pkg().Path() == "net" {
									switch o.Name() {
									case "To4":
										ipw, how = 4, "To4"
									case "To16":
										ipw, how = 16, "To16"
									}
								}
							}
						}
					}
				}
			}
		}
		want := base + ipw
		table = append(table, fmt.Sprintf("%s=%d", name, size))
		rr.Oblige("krpc."+name, "ElemSize equals the width the type's encoder produces per element", w.P.Pos(es.Pos()), size == want && (!needIP || ipw > 0), fmt.Sprintf("ElemSize()=%d; element base %d + IP width %d (%s)", size, base, ipw, how))
		// MarshalBinary goes through the width-asserting helper, or emits len*ElemSize
		if mb != nil {
			viaHelper := len(w.CallsIn(mb, mbs, true)) > 0
			okRaw := false
			if !viaHelper {
				// CompactInfohashes form: appends ih[:] of every element
				for _, b := range mb.Blocks {
					for _, ins := range b.Instrs {
						if sli, ok := ins.(*ssa.Slice); ok && blockInCycle(b) {
							if al, isArr := arrayLen(sli.X.Type()); isArr && al == size && sli.Low == nil && sli.High == nil {
								okRaw = true
							}
						}
					}
				}
			}
			rr.Oblige("krpc."+name, "MarshalBinary asserts/produces exactly ElemSize bytes per element", w.P.Pos(mb.Pos()), viaHelper || okRaw, fmt.Sprintf("via marshalBinarySlice: %v; raw whole-array append: %v", viaHelper, okRaw))
			if needIP && viaHelper {
				// every element is normalised: no call of the helper receives the list as it is (a
				// shortcut for lists that "look normalised" panics on the first 16-byte IPv4 entry)
				for _, site := range w.CallsIn(mb, mbs, true) {
					a0 := callInstrCommon(site).Args[0]
					at := w.TS.Of(a0)
					raw := termEq(at, w.TS.Of(mb.Params[0]))
					rr.At(w, site, "the width-asserting helper is given the normalised elements, never the list as it is", !raw, "argument "+trunc(at.String(), 100))
				}
			}
		} else {
			rr.Oblige("krpc."+name, "compact type has MarshalBinary", "-", false, "")
		}
		ub := methodOf(w, tn.Type(), "UnmarshalBinary")
		okU := false
		if ub != nil {
			for _, site := range w.CallsIn(ub, ubs, false) {
				c := callInstrCommon(site)
				if termEq(w.TS.Of(c.Args[0]), w.TS.Of(ub.Params[0])) && termEq(w.TS.Of(c.Args[1]), w.TS.Of(ub.Params[1])) {
					okU = true
				}
			}
		}
		rr.Oblige("krpc."+name, "UnmarshalBinary decodes into the receiver through unmarshalBinarySlice", "-", okU, "")
	}
	sort.Strings(table)
	rr.rep.Extra["elem_size_table"] = table
	if n < 5 {
		rr.Oblige("krpc", "the five compact list types exist", "-", false, fmt.Sprintf("%d found", n))
	}
	// marshalBinarySlice really asserts the width: panics unless len(b) == ElemSize
	okAssert := false
	for _, f := range w.P.LibFuncs {
		if f.Origin() != mbs && f != mbs {
			continue
		}
		for _, b := range f.Blocks {
			for _, ins := range b.Instrs {
				if p, ok := ins.(*ssa.Panic); ok {
					st := w.FE.StateBefore(p)
					for _, alt := range st {
						if alt.Has("b", false, func(x *Term) bool {
							return x.Op == OpBin && x.Name == "==" && (x.Args[0].Op == OpLen || x.Args[1].Op == OpLen) && strings.Contains(x.String(), "ElemSize")
						}) {
							okAssert = true
						}
					}
				}
			}
		}
	}
	rr.Oblige(shortFuncName(mbs), "marshalBinarySlice refuses an element whose encoding is not ElemSize bytes", w.P.Pos(mbs.Pos()), okAssert, "")
}

func c15r2(w *World, rr *RuleRun) {
	c01r2(w, rr)
	ubs := w.P.Func("krpc.unmarshalBinarySlice")
	b := w.ParamTerm(ubs, "b")
	_ = b
	// the element decoder gets b[:bytesPerElem]; the cursor advances by b[bytesPerElem:]; both under ¬(len(b) < bytesPerElem)
	var per *Term
	for _, bb := range ubs.Blocks {
		for _, ins := range bb.Instrs {
			if c := callInstrCommon(ins); c != nil && c.IsInvoke() && c.Method.Name() == "ElemSize" {
				per = w.TS.Of(ins.(ssa.Value))
			}
		}
	}
	if per == nil {
		rr.Oblige(shortFuncName(ubs), "the element width comes from the list's ElemSize()", w.P.Pos(ubs.Pos()), false, "no ElemSize() call")
		return
	}
	nHead, nTail := 0, 0
	for _, bb := range ubs.Blocks {
		for _, ins := range bb.Instrs {
			sl, ok := ins.(*ssa.Slice)
			if !ok {
				continue
			}
			t := w.TS.Of(sl)
			if t.Op != OpSlice {
				continue
			}
			isHead := t.Args[1].IsConst("-") && termEq(t.Args[2], per)
			isTail := termEq(t.Args[1], per) && t.Args[2].IsConst("-")
			if !isHead && !isTail {
				continue
			}
			if isHead {
				nHead++
			} else {
				nTail++
			}
			what := "element decoder is handed exactly ElemSize bytes"
			if isTail {
				what = "cursor advances by exactly ElemSize bytes"
			}
			w.Require(rr, ins, what+", under len(b) ≥ ElemSize", func(alt *Alt) (bool, string) {
				base := w.FE.Resolve(alt, sl.X)
				lb := &Term{Op: OpLen, Args: []*Term{base}}
				k := "b:" + cmpKey("<", lb, per).String()
				if s, ok := alt.facts[k]; ok && !s {
					return true, "¬(len(b) < ElemSize)"
				}
				return false, "no ¬(len(b) < ElemSize) fact"
			})
		}
	}
	rr.Oblige(shortFuncName(ubs), "unmarshalBinarySlice slices off one fixed-width element per iteration", w.P.Pos(ubs.Pos()), nHead >= 1 && nTail == 1, fmt.Sprintf("%d head slices, %d tail slices", nHead, nTail))
	// the short-input edge produces a non-nil error that reaches the function's result
	okErr := false
	for _, bb := range ubs.Blocks {
		for _, ins := range bb.Instrs {
			call, ok := ins.(*ssa.Call)
			if !ok || !w.FE.knownNonNil(call) || call.Referrers() == nil {
				continue
			}
			flows := false
			for _, r := range *call.Referrers() {
				switch r.(type) {
				case *ssa.Phi, *ssa.Return, *ssa.Store:
					flows = true
				}
			}
			if !flows {
				continue
			}
			for _, alt := range w.FE.StateBefore(call) {
				for k, t := range alt.terms {
					if k[0] == 'b' && alt.facts[k] && t.Op == OpBin && t.Name == "<" && t.Args[0].Op == OpLen && termEq(t.Args[1], per) {
						okErr = true
					}
				}
			}
		}
	}
	rr.Oblige(shortFuncName(ubs), "trailing bytes shorter than one element produce an error", w.P.Pos(ubs.Pos()), okErr, "")
	// the whole input is consumed: the decoder stops only with nothing left, on a short tail, or on
	// an element decoder's error - never silently with bytes still unread
	errTerms := map[string]bool{}
	eachInstr([]*ssa.Function{ubs}, func(_ *ssa.Function, ins ssa.Instruction) {
		if v, ok := ins.(ssa.Value); ok && v.Type() != nil && v.Type().String() == "error" {
			errTerms[w.TS.Of(v).String()] = true
		}
	})
	nRet := 0
	eachInstr([]*ssa.Function{ubs}, func(_ *ssa.Function, ins ssa.Instruction) {
		r, ok := ins.(*ssa.Return)
		if !ok {
			return
		}
		nRet++
		if len(r.Results) > 0 {
			if w.FE.knownNonNil(r.Results[len(r.Results)-1]) {
				rr.At(w, r, "the compact decoder returns only with its input exhausted, a short tail, or an element error", true, "returns a freshly constructed error")
				return
			}
		}
		w.Require(rr, r, "the compact decoder returns only with its input exhausted, a short tail, or an element error", func(alt *Alt) (bool, string) {
			for k, t := range alt.terms {
				sign := alt.facts[k]
				switch k[0] {
				case 'b':
					if t.Op != OpBin {
						continue
					}
					x, y := t.Args[0], t.Args[1]
					lenZero := (x.Op == OpLen && y.IsConst("0")) || (y.Op == OpLen && x.IsConst("0"))
					if lenZero && ((t.Name == "==" && sign) || (t.Name == "!=" && !sign)) {
						return true, "len(b) = 0"
					}
					if t.Name == "<" && sign && x.Op == OpLen && termEq(y, per) {
						return true, "short tail (an error, checked above)"
					}
				case 'n':
					if sign && errTerms[t.String()] {
						return true, "an error is in hand: " + trunc(t.String(), 60)
					}
				}
			}
			return false, "can stop with input left over and no error: {" + trunc(strings.Join(alt.Facts(), " ∧ "), 200) + "}"
		})
	})
	if nRet == 0 {
		rr.Oblige(shortFuncName(ubs), "the compact decoder returns only with its input exhausted, a short tail, or an element error", w.P.Pos(ubs.Pos()), false, "no return found")
	}
}

func c15r3(w *World, rr *RuleRun) {
	pk := w.P.Pkg("krpc")
	sc := pk.Types.Scope()
	has := func(t types.Type, name string) bool {
		for _, tt := range []types.Type{t, types.NewPointer(t)} {
			ms := types.NewMethodSet(tt)
			for i := 0; i < ms.Len(); i++ {
				if ms.At(i).Obj().Name() == name {
					return true
				}
			}
		}
		return false
	}
	n := 0
	for _, name := range sc.Names() {
		tn, ok := sc.Lookup(name).(*types.TypeName)
		if !ok || tn.IsAlias() {
			continue
		}
		if _, isIface := tn.Type().Underlying().(*types.Interface); isIface {
			continue
		}
		for _, pair := range [][2]string{{"MarshalBencode", "UnmarshalBencode"}, {"MarshalBinary", "UnmarshalBinary"}} {
			m, u := has(tn.Type(), pair[0]), has(tn.Type(), pair[1])
			if !m && !u {
				continue
			}
			n++
			rr.Oblige("krpc."+name, pair[0]+" and "+pair[1]+" come as a pair", "-", m && u, fmt.Sprintf("%s: %v, %s: %v", pair[0], m, pair[1], u))
		}
	}
	if n == 0 {
		rr.Oblige("krpc", "wire types have codec methods", "-", false, "")
	}
	// nodes file: same compact type on both sides; writer truncates
	wr := w.P.Func("WriteNodesToFile")
	rd := w.P.Func("ReadNodesFromFile")
	typeOf := func(fn *ssa.Function, method string) string {
		out := ""
		eachInstr([]*ssa.Function{fn}, func(_ *ssa.Function, ins ssa.Instruction) {
			if c := callInstrCommon(ins); c != nil {
				if o := calleeObj(c); o != nil && o.Name() == method && o.Pkg() != nil && strings.HasSuffix(o.Pkg().Path(), "/krpc") {
					out = recvNamed(o)
				}
			}
		})
		return out
	}
	wt, rt := typeOf(wr, "MarshalBinary"), typeOf(rd, "UnmarshalBinary")
	rr.Oblige(shortFuncName(wr), "the nodes file is written and read with the same compact list type", w.P.Pos(wr.Pos()), wt != "" && wt == rt, "writes "+wt+", reads "+rt)
	okTrunc := false
	det := "no os.OpenFile/os.Create/os.WriteFile call"
	eachInstr([]*ssa.Function{wr}, func(_ *ssa.Function, ins ssa.Instruction) {
		c := callInstrCommon(ins)
		if c == nil {
			return
		}
		o := calleeObj(c)
		if o == nil || o.Pkg() == nil || o.Pkg().Path() != "os" {
			return
		}
		switch o.Name() {
		case "Create", "WriteFile":
			okTrunc, det = true, "os."+o.Name()
		case "OpenFile":
			if k, ok := c.Args[1].(*ssa.Const); ok && k.Value != nil && k.Value.Kind() == constant.Int {
				flags, _ := constant.Int64Val(k.Value)
				const oTRUNC, oCREATE, oAPPEND = 0x200, 0x40, 0x400
				okTrunc = flags&oTRUNC != 0 && flags&oAPPEND == 0
				det = fmt.Sprintf("os.OpenFile flags %#x (O_TRUNC set: %v)", flags, flags&oTRUNC != 0)
			} else {
				det = "os.OpenFile with non-constant flags"
			}
		}
	})
	rr.Oblige(shortFuncName(wr), "writing the nodes file replaces its previous content (create + truncate)", w.P.Pos(wr.Pos()), okTrunc, det)
}

func c15r4(w *World, rr *RuleRun) {
	pk := w.P.Pkg("krpc")
	sc := pk.Types.Scope()
	n := 0
	for _, name := range sc.Names() {
		tn, ok := sc.Lookup(name).(*types.TypeName)
		if !ok || tn.IsAlias() {
			continue
		}
		st, ok := tn.Type().Underlying().(*types.Struct)
		if !ok {
			continue
		}
		// a wire struct: at least one bencode tag
		tagged := false
		for i := 0; i < st.NumFields(); i++ {
			if _, ok := reflect.StructTag(st.Tag(i)).Lookup("bencode"); ok {
				tagged = true
			}
		}
		if !tagged {
			continue
		}
		n++
		keys := map[string][]string{}
		var untagged []string
		var walk func(s *types.Struct, prefix string)
		walk = func(s *types.Struct, prefix string) {
			for i := 0; i < s.NumFields(); i++ {
				f := s.Field(i)
				tag, ok := reflect.StructTag(s.Tag(i)).Lookup("bencode")
				if f.Embedded() && !ok {
					if es, isS := f.Type().Underlying().(*types.Struct); isS {
						walk(es, prefix+f.Name()+".")
						continue
					}
				}
				if !ok {
					if f.Exported() {
						untagged = append(untagged, prefix+f.Name())
					}
					continue
				}
				key := strings.Split(tag, ",")[0]
				if key == "-" {
					continue
				}
				if key == "" {
					key = f.Name()
				}
				keys[key] = append(keys[key], prefix+f.Name())
			}
		}
		walk(st, "")
		var dups []string
		for k, fs := range keys {
			if len(fs) > 1 {
				dups = append(dups, fmt.Sprintf("%q: %v", k, fs))
			}
		}
		sort.Strings(dups)
		rr.Oblige("krpc."+name, "bencode keys are unique within the (flattened) struct", "-", len(dups) == 0, strings.Join(dups, "; "))
		rr.Oblige("krpc."+name, "every exported field of the wire struct carries a bencode tag", "-", len(untagged) == 0, strings.Join(untagged, ", "))
	}
	if n == 0 {
		rr.Oblige("krpc", "wire structs exist", "-", false, "")
	}
}

// c15r5: the encoders never use storage of the message as an output buffer.
func c15r5(w *World, rr *RuleRun) {
	var roots []*ssa.Function
	for _, f := range w.P.LibFuncs {
		if f.Pkg == nil || f.Pkg.Pkg.Name() != "krpc" || f.Signature.Recv() == nil || f.Parent() != nil {
			continue
		}
		if strings.HasPrefix(f.Name(), "Marshal") {
			roots = append(roots, f)
		}
	}
	if len(roots) < 5 {
		rr.Broken("only %d krpc Marshal* methods found", len(roots))
	}
	reach := w.CG.Reach(roots, func(e *Edge) bool { return w.P.IsLib(e.Callee) })
	// part of the encoded message: a field selection whose base involves a parameter/receiver
	var inMessage func(t *Term) bool
	inMessage = func(t *Term) bool {
		// the storage of append(dst, src...) is dst's (or fresh): what is appended does not matter
		if t.Op == OpCall && t.Name == "builtin.append" && len(t.Args) > 0 {
			return inMessage(t.Args[0])
		}
		hit := false
		t.Walk(func(x *Term) bool {
			if x.Op == OpField {
				x.Walk(func(y *Term) bool {
					if y.Op == OpParam {
						hit = true
					}
					return !hit
				})
			}
			return !hit
		})
		return hit
	}
	nDest := 0
	var fns []*ssa.Function
	for f := range reach {
		fns = append(fns, f)
		fns = append(fns, allAnon(f)...)
	}
	sort.Slice(fns, func(i, j int) bool { return fns[i].Pos() < fns[j].Pos() })
	seen := map[*ssa.Function]bool{}
	for _, f := range fns {
		if seen[f] {
			continue
		}
		seen[f] = true
		for _, b := range f.Blocks {
			for _, ins := range b.Instrs {
				if st, ok := ins.(*ssa.Store); ok {
					if ia, ok := st.Addr.(*ssa.IndexAddr); ok {
						if _, isSlice := ia.X.Type().Underlying().(*types.Slice); isSlice {
							nDest++
							t := w.TS.Of(ia.X)
							rr.At(w, ins, "element store while encoding does not target the message's own slices", !inMessage(t), "into "+trunc(t.String(), 120))
						}
					}
					continue
				}
				c := callInstrCommon(ins)
				if c == nil {
					continue
				}
				var dst ssa.Value
				what := ""
				if bi, ok := c.Value.(*ssa.Builtin); ok && (bi.Name() == "append" || bi.Name() == "copy") && len(c.Args) > 0 {
					dst, what = c.Args[0], bi.Name()
				} else if o := calleeObj(c); o != nil && strings.HasPrefix(o.Name(), "Append") && o.Pkg() != nil && !strings.HasPrefix(o.Pkg().Path(), modPath) {
					sig := o.Type().(*types.Signature)
					off := 0
					if sig.Recv() != nil && !c.IsInvoke() {
						off = 1
					}
					if sig.Params().Len() > 0 && off < len(c.Args) {
						if sl, ok := sig.Params().At(0).Type().Underlying().(*types.Slice); ok && types.Identical(sl.Elem(), types.Typ[types.Byte]) {
							dst, what = c.Args[off], o.Name()
						}
					}
				}
				if dst == nil {
					continue
				}
				nDest++
				t := w.TS.Of(dst)
				rr.At(w, ins, what+" destination while encoding is not storage of the message", !inMessage(t), "destination "+trunc(t.String(), 120))
			}
		}
	}
	rr.ObligeTrivial("krpc", "encoder closure analysed", "-", true, fmt.Sprintf("%d Marshal* roots, %d reachable functions, %d destinations", len(roots), len(reach), nDest))
	w.checkEncodersVerbatim(rr, roots)
	// the encoders do not panic either: every index / slice / unchecked assertion in the encoder
	// closure is in range by a length fact, a range index or a constant window (engine H)
	seenB := map[*ssa.Function]bool{}
	for _, f := range fns {
		if !seenB[f] {
			seenB[f] = true
			w.CheckBounds(rr, f)
		}
	}
}

func (w *World) krpcMarshalRoots() []*ssa.Function {
	var roots []*ssa.Function
	for _, f := range w.P.LibFuncs {
		if f.Pkg == nil || f.Pkg.Pkg.Name() != "krpc" || f.Signature.Recv() == nil || f.Parent() != nil {
			continue
		}
		if strings.HasPrefix(f.Name(), "Marshal") {
			roots = append(roots, f)
		}
	}
	return roots
}

// checkEncodersVerbatim: an encoder encodes the value it was handed. (a) no krpc Marshal* method with
// a value receiver assigns to its receiver copy (normalising there changes what goes on the wire but
// not what the caller holds: decode→encode stops being a fixpoint, and the address form chosen by
// the get_peers handler per family is undone); (b) NodeAddr's binary form is the IP bytes as held,
// followed by the port: the IP field reaches the output verbatim, never through a conversion.
func (w *World) checkEncodersVerbatim(rr *RuleRun, roots []*ssa.Function) {
	n := 0
	for _, f := range roots {
		if _, ptr := f.Signature.Recv().Type().(*types.Pointer); ptr || len(f.Blocks) == 0 || len(f.Params) == 0 {
			continue
		}
		recv := f.Params[0]
		var spill *ssa.Alloc
		if recv.Referrers() != nil {
			for _, r := range *recv.Referrers() {
				if st, ok := r.(*ssa.Store); ok && st.Val == ssa.Value(recv) {
					if al, ok := st.Addr.(*ssa.Alloc); ok {
						spill = al
					}
				}
			}
		}
		n++
		clean := true
		where := ssa.Instruction(nil)
		if spill != nil {
			eachInstr(append([]*ssa.Function{f}, allAnon(f)...), func(_ *ssa.Function, ins ssa.Instruction) {
				st, ok := ins.(*ssa.Store)
				if !ok || st.Val == ssa.Value(recv) {
					return
				}
				base := st.Addr
				for i := 0; i < 6; i++ {
					if fa, ok := base.(*ssa.FieldAddr); ok {
						base = fa.X
						continue
					}
					break
				}
				if base == ssa.Value(spill) {
					clean = false
					where = ins
				}
			})
		}
		if clean {
			rr.Oblige(shortFuncName(f), "the encoder does not assign to its receiver (it encodes the value it was handed)", w.P.Pos(f.Pos()), true, "")
		} else {
			rr.At(w, where, "the encoder does not assign to its receiver (it encodes the value it was handed)", false, "writes "+trunc(w.TS.Of(where.(*ssa.Store).Addr).String(), 80))
		}
	}
	if n == 0 {
		rr.Broken("no value-receiver krpc Marshal* method found")
	}
	mb := w.P.Func("(krpc.NodeAddr).MarshalBinary")
	ipF := w.P.Field("krpc", "NodeAddr", "IP")
	verbatim, converted := 0, 0
	eachInstr(w.regionFuncs(mb), func(fn *ssa.Function, ins ssa.Instruction) {
		c := callInstrCommon(ins)
		if c == nil {
			return
		}
		if b, ok := c.Value.(*ssa.Builtin); ok && (b.Name() == "len" || b.Name() == "cap") {
			return
		}
		for i := range c.Args {
			for _, t := range w.ArgTerms(ins, i) {
				// (only a count is taken from it under len / cap / copy: that is not the bytes)
				var carries func(x *Term) bool
				carries = func(x *Term) bool {
					if x == nil || x.Op == OpLen || (x.Op == OpCall && (x.Name == "builtin.copy" || x.Name == "builtin.len" || x.Name == "builtin.cap")) {
						return false
					}
					if isFieldTerm(x, ipF) {
						return true
					}
					for _, a := range x.Args {
						if carries(a) {
							return true
						}
					}
					return false
				}
				if !carries(t) {
					continue
				}
				var verb func(x *Term) bool
				verb = func(x *Term) bool {
					if isFieldTerm(x, ipF) && x.Args[0].Op == OpParam {
						return true
					}
					// append(buf, me.IP...) carries the bytes as they are
					if x.Op == OpCall && x.Name == "builtin.append" {
						for _, a := range x.Args {
							if carries(a) && !verb(a) {
								return false
							}
						}
						return true
					}
					return false
				}
				if verb(t) {
					verbatim++
				} else {
					converted++
					rr.At(w, ins, "NodeAddr's IP bytes reach its binary form verbatim (4 stays 4, 16 stays 16)", false, "operand "+trunc(t.String(), 120))
				}
			}
		}
	})
	if converted == 0 {
		rr.Oblige(shortFuncName(mb), "NodeAddr's IP bytes reach its binary form verbatim (4 stays 4, 16 stays 16)", w.P.Pos(mb.Pos()), verbatim > 0, fmt.Sprintf("%d verbatim uses", verbatim))
	}
}

// c15r6: reply() and sendError() encode with MustMarshal / panic-on-error inside a goroutine that
// nothing recovers; an encoder that starts rejecting some value turns that value - which may come
// straight from a datagram (announce_peer's port is stored unvalidated) - into a process crash.
func c15r6(w *World, rr *RuleRun) {
	var roots []*ssa.Function
	for _, f := range w.P.LibFuncs {
		if f.Pkg == nil || f.Pkg.Pkg.Name() != "krpc" || f.Signature.Recv() == nil || f.Parent() != nil {
			continue
		}
		if strings.HasPrefix(f.Name(), "Marshal") {
			roots = append(roots, f)
		}
	}
	reach := w.CG.Reach(roots, func(e *Edge) bool { return w.P.IsLib(e.Callee) })
	var fns []*ssa.Function
	seen := map[*ssa.Function]bool{}
	for f := range reach {
		for _, g := range append([]*ssa.Function{f}, allAnon(f)...) {
			if !seen[g] {
				seen[g] = true
				fns = append(fns, g)
			}
		}
	}
	sort.Slice(fns, func(i, j int) bool { return fns[i].Pos() < fns[j].Pos() })
	errT := types.Universe.Lookup("error").Type()
	var constructed func(v ssa.Value, depth int) string
	constructed = func(v ssa.Value, depth int) string {
		if depth > 6 {
			return ""
		}
		switch x := v.(type) {
		case *ssa.Const:
			return ""
		case *ssa.Parameter, *ssa.FreeVar:
			return ""
		case *ssa.Extract:
			return "" // handed up from a callee
		case *ssa.Phi:
			for _, e := range x.Edges {
				if s := constructed(e, depth+1); s != "" {
					return s
				}
			}
			return ""
		case *ssa.Call:
			if o := calleeObj(x.Common()); o != nil && o.Pkg() != nil {
				pp := o.Pkg().Path()
				if (pp == "errors" && o.Name() == "New") || (pp == "fmt" && o.Name() == "Errorf") {
					return pp + "." + o.Name()
				}
			}
			return ""
		case *ssa.UnOp:
			if al, ok := x.X.(*ssa.Alloc); ok && al.Referrers() != nil {
				for _, r := range *al.Referrers() {
					if st, ok := r.(*ssa.Store); ok && st.Addr == al {
						if s := constructed(st.Val, depth+1); s != "" {
							return s
						}
					}
				}
			}
			return ""
		case *ssa.MakeInterface:
			if c, ok := x.X.(*ssa.Const); ok && c.IsNil() {
				return ""
			}
			return "a value of type " + x.X.Type().String()
		}
		return ""
	}
	n := 0
	for _, f := range fns {
		res := f.Signature.Results()
		ei := -1
		for i := 0; i < res.Len(); i++ {
			if types.Identical(res.At(i).Type(), errT) {
				ei = i
			}
		}
		if ei < 0 {
			continue
		}
		for _, b := range f.Blocks {
			for _, ins := range b.Instrs {
				r, ok := ins.(*ssa.Return)
				if !ok || len(r.Results) <= ei {
					continue
				}
				n++
				what := constructed(r.Results[ei], 0)
				if what != "" {
					// wrapping a callee's failure is still handing it up: every path to this return
					// already carries "some callee returned a non-nil error"
					st := w.FE.StateBefore(ins)
					wrapped := true // an empty state: the callee cannot fail, the return is unreachable
					for _, alt := range st {
						if !alt.Has("n", true, func(x *Term) bool {
							return (x.Op == OpExtract && len(x.Args) == 1 && x.Args[0].Op == OpCall) || x.Op == OpCall
						}) {
							wrapped = false
						}
					}
					if wrapped {
						what = ""
					}
				}
				rr.At(w, ins, "an encoder returns nil or a callee's error, never an error of its own making", what == "", what)
			}
		}
	}
	if n == 0 {
		rr.Broken("no error-returning function under the krpc Marshal* methods")
	}
}

// c15r7: errors of the decoders propagate.
func c15r7(w *World, rr *RuleRun) {
	errT := types.Universe.Lookup("error").Type()
	isDecoderCall := func(t *Term) bool {
		if t.Op == OpExtract && len(t.Args) == 1 {
			t = t.Args[0]
		}
		if t.Op != OpCall && t.Op != OpDyn {
			return false
		}
		n := t.Name
		return strings.Contains(n, "Unmarshal") || strings.Contains(n, "unmarshal")
	}
	n := 0
	for _, f := range w.P.LibFuncs {
		res := f.Signature.Results()
		if res.Len() == 0 || !types.Identical(res.At(res.Len()-1).Type(), errT) || len(f.Blocks) == 0 {
			continue
		}
		calls := false
		eachInstr([]*ssa.Function{f}, func(_ *ssa.Function, ins ssa.Instruction) {
			if c := callInstrCommon(ins); c != nil {
				if v, ok := ins.(ssa.Value); ok && isDecoderCall(w.TS.Of(v)) {
					calls = true
				}
			}
		})
		if !calls {
			continue
		}
		fa := w.FE.analysisFor(f)
		for _, ex := range fa.exits {
			if len(ex.ret.Results) != res.Len() {
				continue
			}
			bad := ""
			seen := false
			for _, alt := range ex.st {
				failed := alt.Has("n", true, isDecoderCall)
				if !failed {
					continue
				}
				seen = true
				rv := w.FE.Resolve(alt, ex.ret.Results[res.Len()-1])
				if rv.IsConst("nil") || alt.HasKey("n", rv, false) {
					bad = "returns " + trunc(rv.String(), 80) + " (nil) although the decoder failed on this path"
				}
			}
			if !seen {
				continue
			}
			n++
			rr.At(w, ex.ret, "a failed decode is reported by the caller's error result", bad == "", bad)
		}
	}
	if n == 0 {
		rr.Broken("no function propagating a decoder error found")
	}
	// the error result of a decoder call is looked at (not dropped on the floor)
	eachInstr(w.P.LibFuncs, func(f *ssa.Function, ins ssa.Instruction) {
		c, ok := ins.(*ssa.Call)
		if !ok || !isDecoderCall(w.TS.Of(c)) {
			return
		}
		rs := c.Common().Signature().Results()
		if rs.Len() == 0 || !types.Identical(rs.At(rs.Len()-1).Type(), errT) {
			return
		}
		used := false
		if c.Referrers() != nil {
			for _, r := range *c.Referrers() {
				switch x := r.(type) {
				case *ssa.DebugRef:
				case *ssa.Extract:
					if x.Index == rs.Len()-1 && x.Referrers() != nil {
						for _, r2 := range *x.Referrers() {
							if _, dbg := r2.(*ssa.DebugRef); !dbg {
								used = true
							}
						}
					}
				default:
					if rs.Len() == 1 {
						used = true
					}
				}
			}
		}
		rr.At(w, ins, "the decoder's error result is used", used, trunc(w.TS.Of(c).String(), 100))
	})
}
