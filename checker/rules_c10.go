package main

import (
	"fmt"
	"go/token"
	"go/types"
	"strings"

	"golang.org/x/tools/go/ssa"
)

func init() {
	register(&Property{
		ID:    "C10",
		Title: "Writes need a fresh token issued to the same IP",
		Decided: "C10.1 in the announce_peer and put handlers every side effect (peer store, announce hook, item store) and every reply/error is dominated by validToken(args.token, source)=true; after validToken=false the handler does nothing but count; Server.validToken answers true only under tokenServer.ValidToken(token, addr)=true for its own arguments in the same call (no remembered verdicts); " +
			"C10.2 the token hashes exactly {source IP (16-byte form), interval index, secret} — not the port or the address string — and validation recomputes it for the same address over maxIntervalDelta+1 steps of one interval; the interval index is hashed at its full 64-bit width (no narrowing conversion, 64-bit encoder), so an expired token never becomes valid again; " +
			"C10.3 the window constants give ≥10 min and ≤15 min lifetimes; the secret is a buffer of constant length ≥ 8 filled by crypto/rand and, like the constants, written only at construction (NewServer or a constructor only it calls); C10.4 get and get_peers (with a peer store) replies carry a token created for the query source.",
		NotDecided: "SHA-1 unforgeability; the relation between wall-clock time and the rotation grid beyond the constants.",
		Rules: []*Rule{
			{ID: "C10.1", Doc: "token check dominates every effect", Floor: 8, Run: c10r1},
			{ID: "C10.2", Doc: "what the token binds", Floor: 6, Run: c10r2},
			{ID: "C10.3", Doc: "window constants and secret", Floor: 5, Run: c10r3},
			{ID: "C10.4", Doc: "tokens are handed out", Floor: 2, Run: c10r4},
		},
	})
}

// tokenFact: alt contains validToken(s, <m>.A.Token, source) with the given sign.
func (h *handler) tokenFact(w *World, alt *Alt, sign bool) bool {
	vt := w.tokenPredicate()
	argsTok := w.P.Field("krpc", "MsgArgs", "Token")
	return alt.Has("b", sign, func(t *Term) bool {
		if !isCall(t, vt) || len(t.Args) != 3 {
			return false
		}
		base, ok := fieldChain(t.Args[1], h.msgA, argsTok)
		return ok && termEq(base, h.m) && termEq(t.Args[2], h.source)
	})
}

func c10r1(w *World, rr *RuleRun) {
	h := w.handler()
	addPeer := w.P.Pkg("peer-store").Types.Scope().Lookup("Interface").Type().Underlying().(*types.Interface)
	var addPeerM *types.Func
	for i := 0; i < addPeer.NumMethods(); i++ {
		if addPeer.Method(i).Name() == "AddPeer" {
			addPeerM = addPeer.Method(i)
		}
	}
	onAnnounce := w.P.Field("", "ServerConfig", "OnAnnouncePeer")
	wput := w.P.Func("(*bep44.Wrapper).Put")
	kind := func(ins ssa.Instruction) string {
		c := callInstrCommon(ins)
		if c == nil {
			return ""
		}
		if c.IsInvoke() && c.Method == addPeerM {
			return "PeerStore.AddPeer"
		}
		if c.StaticCallee() == wput {
			return "store.Put"
		}
		if c.StaticCallee() == nil && !c.IsInvoke() {
			t := w.TS.Of(c.Value)
			if t.Op == OpField && t.Obj == onAnnounce {
				return "OnAnnouncePeer"
			}
		}
		if c.StaticCallee() == h.reply {
			return "reply"
		}
		if c.StaticCallee() == h.sendError {
			return "sendError"
		}
		return ""
	}
	effects := 0
	eachInstr(w.regionFuncs(h.fn), func(fn *ssa.Function, ins ssa.Instruction) {
		k := kind(ins)
		if k == "" {
			return
		}
		tokenCase := false
		for _, c := range h.casesAt(w, ins) {
			if c == "announce_peer" || c == "put" {
				tokenCase = true
			}
		}
		isEffect := k == "PeerStore.AddPeer" || k == "store.Put" || k == "OnAnnouncePeer"
		if !tokenCase && !isEffect {
			return
		}
		if isEffect {
			effects++
		}
		w.Require(rr, ins, k+" requires validToken(args.token, source)=true", func(alt *Alt) (bool, string) {
			if h.tokenFact(w, alt, true) {
				return true, "validToken(m.A.Token, source)=true [" + h.caseOf(alt) + "]"
			}
			// the missing-arguments error (m.A == nil) is sent before any token can be read
			if (k == "sendError") && alt.HasKey("n", FieldTerm(h.m, h.msgA), false) {
				return true, "missing-arguments error (no args, hence no token to check)"
			}
			return false, "effect or reply without a successful token check"
		})
	})
	if effects < 3 {
		rr.Oblige(shortFuncName(h.fn), "side-effect sites present", w.P.Pos(h.fn.Pos()), false, fmt.Sprintf("only %d of AddPeer / OnAnnouncePeer / store.Put call sites found in the handler", effects))
	}
	// invalid token: nothing but counters
	n := 0
	eachInstr(w.RegionOf(h.fn), func(fn *ssa.Function, ins ssa.Instruction) {
		c := callInstrCommon(ins)
		if c == nil {
			return
		}
		st := w.FE.StateBefore(ins)
		if st == nil {
			return
		}
		all := true
		for _, alt := range st {
			if !h.tokenFact(w, alt, false) {
				all = false
			}
		}
		if !all {
			return
		}
		n++
		o := calleeObj(c)
		ok := o != nil && o.Pkg() != nil && o.Pkg().Path() == "expvar"
		rr.At(w, ins, "after an invalid token only counters are touched", ok, "call: "+w.TS.Of(c.Value).String()+" "+funcObjName(o))
	})
	if n == 0 {
		rr.Oblige(shortFuncName(h.fn), "invalid-token edge exists", w.P.Pos(h.fn.Pos()), false, "no instruction is dominated by validToken=false")
	}
	// the exits on that edge send nothing: C08.3 counts; here: returns with validToken=false exist for both methods
	seen := map[string]bool{}
	for _, f := range w.RegionOf(h.fn) {
		for _, b := range f.Blocks {
			for _, ins := range b.Instrs {
				r, ok := ins.(*ssa.Return)
				if !ok {
					continue
				}
				for _, alt := range w.FE.StateBefore(r) {
					if h.tokenFact(w, alt, false) {
						seen[h.caseOf(alt)] = true
					}
				}
			}
		}
	}
	for _, m := range []string{"announce_peer", "put"} {
		rr.Oblige(shortFuncName(h.fn), m+" returns silently on an invalid token", w.P.Pos(h.fn.Pos()), seen[m], fmt.Sprintf("exits with validToken=false seen for: %v", seen))
	}
	// the handlers' predicate is the token server's verdict on the same token and source, computed in
	// this call: it answers true only under tokenServer.ValidToken(token, addr) = true (no remembered
	// verdicts, no second way to say yes)
	vt := w.tokenPredicate()
	vtok := w.P.Func("(*tokenServer).ValidToken")
	if vt == vtok {
		rr.ObligeTrivial(shortFuncName(vtok), "validToken answers true only under tokenServer.ValidToken(token, addr) = true for its own arguments", w.P.Pos(vtok.Pos()), true, "the handlers call the token server's predicate directly")
		return
	}
	tokP, addrP := w.TS.Of(vt.Params[1]), w.TS.Of(vt.Params[2])
	tsum := w.FE.Summary(vt, 0, "true", 0)
	if len(tsum) == 0 {
		rr.Oblige(shortFuncName(vt), "validToken answers true only under tokenServer.ValidToken(token, addr) = true for its own arguments", w.P.Pos(vt.Pos()), false, "no true-class summary")
	}
	for i, alt := range tsum {
		ok := alt.Has("b", true, func(t *Term) bool {
			return isCall(t, vtok) && len(t.Args) == 3 && termEq(t.Args[1], tokP) && termEq(t.Args[2], addrP)
		})
		c := "validToken answers true only under tokenServer.ValidToken(token, addr) = true for its own arguments"
		if i > 0 {
			c += fmt.Sprintf(" (case %d)", i+1)
		}
		rr.Oblige(shortFuncName(vt), c, w.P.Pos(vt.Pos()), ok, "{"+trunc(strings.Join(alt.Facts(), " ∧ "), 240)+"}")
	}
}

func c10r2(w *World, rr *RuleRun) {
	ct := w.P.Func("(tokenServer).createToken")
	vtok := w.P.Func("(*tokenServer).ValidToken")
	secret := w.P.Field("", "tokenServer", "secret")
	interval := w.P.Field("", "tokenServer", "interval")
	maxDelta := w.P.Field("", "tokenServer", "maxIntervalDelta")
	addr := w.ParamTerm(ct, "addr")
	// what is hashed: the arguments of the hasher's Write calls (streaming form), or the operands
	// appended to the buffer handed to a one-shot Sum (append / Append* chain from an empty slice)
	type hashInput struct {
		at    ssa.Instruction
		bytes ssa.Value // byte-slice operand (nil for a numeric Append*)
		num   ssa.Value // numeric operand of binary Append*/Put*
	}
	var inputs []hashInput
	eachInstr(w.RegionOf(ct), func(_ *ssa.Function, ins ssa.Instruction) {
		c := callInstrCommon(ins)
		if c != nil && c.IsInvoke() && c.Method.Name() == "Write" {
			inputs = append(inputs, hashInput{at: ins, bytes: c.Args[0]})
		}
	})
	if len(inputs) == 0 {
		eachInstr(w.RegionOf(ct), func(_ *ssa.Function, ins ssa.Instruction) {
			c := callInstrCommon(ins)
			if c == nil {
				return
			}
			o := calleeObj(c)
			if o == nil || o.Pkg() == nil || !strings.HasPrefix(o.Pkg().Path(), "crypto/") || !strings.HasPrefix(o.Name(), "Sum") || len(c.Args) != 1 {
				return
			}
			// walk the append chain backwards
			v := c.Args[0]
			for depth := 0; depth < 12 && v != nil; depth++ {
				call, ok := v.(*ssa.Call)
				if !ok {
					break
				}
				cc := call.Common()
				if b, isB := cc.Value.(*ssa.Builtin); isB && b.Name() == "append" && len(cc.Args) == 2 {
					inputs = append(inputs, hashInput{at: call, bytes: cc.Args[1]})
					v = cc.Args[0]
					continue
				}
				if co := calleeObj(cc); co != nil && strings.HasPrefix(co.Name(), "AppendUint") && len(cc.Args) >= 2 {
					inputs = append(inputs, hashInput{at: call, num: cc.Args[len(cc.Args)-1]})
					v = cc.Args[len(cc.Args)-2]
					continue
				}
				break
			}
		})
	}
	isIndexTerm := func(v string) bool {
		return strings.Contains(v, "UnixNano") && strings.Contains(v, ".interval") && strings.Contains(v, "/")
	}
	// the index enters the hash at full width: a conversion to an integer type narrower than 64 bits
	// on the way makes tokens repeat after 2^w intervals, i.e. an expired token becomes valid again
	// (C10-v2: uint16(ti))
	// (numeric conversions are transparent in the term language, so this looks at the SSA values)
	var narrowedV func(v ssa.Value, depth int) string
	narrowedV = func(v ssa.Value, depth int) string {
		if v == nil || depth > 8 {
			return ""
		}
		switch x := v.(type) {
		case *ssa.Convert:
			if tb, ok := x.Type().Underlying().(*types.Basic); ok && tb.Info()&types.IsInteger != 0 {
				if sz := types.SizesFor("gc", "amd64").Sizeof(tb); sz < 8 {
					return tb.Name()
				}
			}
			return narrowedV(x.X, depth+1)
		case *ssa.ChangeType:
			return narrowedV(x.X, depth+1)
		case *ssa.BinOp:
			if r := narrowedV(x.X, depth+1); r != "" {
				return r
			}
			return narrowedV(x.Y, depth+1)
		case *ssa.UnOp:
			return narrowedV(x.X, depth+1)
		case *ssa.Phi:
			for _, e := range x.Edges {
				if r := narrowedV(e, depth+1); r != "" {
					return r
				}
			}
		}
		return ""
	}
	sawIP, sawSecret, sawTime := false, false, false
	for _, in := range inputs {
		kind, s, bad := "?", "", ""
		if in.num != nil {
			nt := w.TS.Of(in.num)
			s = nt.String()
			if isIndexTerm(s) {
				kind = "interval-index"
				sawTime = true
			}
			rr.At(w, in.at, "token hash input", kind == "interval-index", kind+": "+s)
			if kind == "interval-index" {
				co := calleeObj(callInstrCommon(in.at))
				nb := narrowedV(in.num, 0)
				rr.At(w, in.at, "the interval index is hashed at its full 64-bit width", nb == "" && co != nil && strings.HasSuffix(co.Name(), "Uint64"), fmt.Sprintf("encoder %v, narrowing conversion %q", co, nb))
			}
			continue
		}
		t := w.TS.Of(in.bytes)
		s = t.String()
		// Write(binary.BigEndian.AppendUint64(nil, v)): the bytes are the big-endian encoding of v
		if t.Op == OpCall && strings.Contains(t.Name, "AppendUint") && len(t.Args) >= 2 {
			dst := t.Args[len(t.Args)-2]
			if dst.IsConst("nil") && isIndexTerm(t.Args[len(t.Args)-1].String()) {
				sawTime = true
				rr.At(w, in.at, "token hash input", true, "interval-index: "+s)
				nb := ""
				if cv, isCall := in.bytes.(*ssa.Call); isCall && len(cv.Call.Args) > 0 {
					nb = narrowedV(cv.Call.Args[len(cv.Call.Args)-1], 0)
				}
				rr.At(w, in.at, "the interval index is hashed at its full 64-bit width", nb == "" && strings.Contains(t.Name, "AppendUint64"), fmt.Sprintf("encoder %s, narrowing conversion %q", t.Name, nb))
				continue
			}
		}
		t.Walk(func(x *Term) bool {
			if x.Op == OpCall && len(x.Args) > 0 && termEq(x.Args[0], addr) {
				n := x.Name
				if strings.HasSuffix(n, ".Port") || strings.HasSuffix(n, ".String") || strings.HasSuffix(n, ".Raw") || strings.HasSuffix(n, ".KRPC") {
					bad = n
				}
			}
			return true
		})
		switch {
		case bad != "":
			kind = "forbidden"
		case strings.Contains(s, ".IP(addrₚ)") && strings.Contains(s, "To16"):
			kind = "ip"
			sawIP = true
		case t.Op == OpField && t.Obj == secret:
			kind = "secret"
			sawSecret = true
		case t.Op == OpSlice && t.Args[0].Op == OpDeref && t.Args[0].Args[0].Op == OpLocal:
			// local buffer: must be filled by PutUint64 with t.UnixNano()/interval
			kind = "buffer"
			bufLocal, _ := t.Args[0].Args[0].Obj.(*ssa.Alloc)
			eachInstr(w.RegionOf(ct), func(f *ssa.Function, ins ssa.Instruction) {
				c := callInstrCommon(ins)
				if c == nil {
					return
				}
				if o := calleeObj(c); o != nil && o.Name() == "PutUint64" && len(c.Args) >= 3 {
					if f != ct && !(bufLocal != nil && storedFromCallTo(bufLocal, f)) {
						return // fills some other helper's buffer
					}
					if isIndexTerm(w.TS.Of(c.Args[2]).String()) {
						kind = "interval-index"
						sawTime = true
						nb := narrowedV(c.Args[2], 0)
						rr.At(w, ins, "the interval index is hashed at its full 64-bit width", nb == "", fmt.Sprintf("encoder PutUint64, narrowing conversion %q", nb))
					}
				}
			})
		}
		rr.At(w, in.at, "token hash input", kind == "ip" || kind == "secret" || kind == "interval-index", kind+": "+s+" "+bad)
	}
	rr.Oblige(shortFuncName(ct), "token hashes the source IP", w.P.Pos(ct.Pos()), sawIP, "")
	rr.Oblige(shortFuncName(ct), "token hashes the secret", w.P.Pos(ct.Pos()), sawSecret, "")
	rr.Oblige(shortFuncName(ct), "token hashes the interval index (time / interval)", w.P.Pos(ct.Pos()), sawTime, "")
	// validation
	vaddr := w.ParamTerm(vtok, "addr")
	vtoken := w.ParamTerm(vtok, "token")
	calls := w.CallsIn(vtok, ct, true)
	rr.Oblige(shortFuncName(vtok), "validation recomputes the token", w.P.Pos(vtok.Pos()), len(calls) >= 1, fmt.Sprintf("%d createToken calls", len(calls)))
	for _, c := range calls {
		a := w.TS.Of(callInstrCommon(c).Args[1])
		rr.At(w, c, "token recomputed for the same address", termEq(a, vaddr), "address argument: "+a.String())
		// compared with the presented token; true only under equality
		v := c.(ssa.Value)
		okCmp := false
		for _, r := range *v.Referrers() {
			if bo, ok := r.(*ssa.BinOp); ok && bo.Op.String() == "==" {
				other := bo.X
				if other == v {
					other = bo.Y
				}
				if termEq(w.TS.Of(other), vtoken) {
					okCmp = true
				}
			}
		}
		rr.At(w, c, "recomputed token compared with the presented token", okCmp, "")
	}
	// true only under equality
	nTrue := 0
	eachInstr([]*ssa.Function{vtok}, func(_ *ssa.Function, ins ssa.Instruction) {
		r, ok := ins.(*ssa.Return)
		if !ok || len(r.Results) != 1 {
			return
		}
		st := w.FE.StateBefore(r)
		for _, alt := range st {
			if !w.FE.Resolve(alt, r.Results[0]).IsConst("true") {
				continue
			}
			nTrue++
			ok := alt.Has("b", true, func(t *Term) bool {
				if t.Op != OpBin || t.Name != "==" {
					return false
				}
				return (isCall(t.Args[0], ct) && termEq(t.Args[1], vtoken)) || (isCall(t.Args[1], ct) && termEq(t.Args[0], vtoken))
			})
			rr.At(w, r, "ValidToken returns true only under createToken(addr, t) == token", ok, "{"+strings.Join(alt.Facts(), " ∧ ")+"}")
		}
	})
	if nTrue == 0 {
		rr.Oblige(shortFuncName(vtok), "ValidToken returns true only under createToken(addr, t) == token", w.P.Pos(vtok.Pos()), false, "no return-true path found")
	}
	// iteration count and step
	okN, okStep := false, false
	eachInstr([]*ssa.Function{vtok}, func(_ *ssa.Function, ins ssa.Instruction) {
		c := callInstrCommon(ins)
		if c == nil {
			return
		}
		o := calleeObj(c)
		if o == nil {
			return
		}
		if o.Name() == "N" && len(c.Args) == 1 {
			t := w.TS.Of(c.Args[0])
			if t.Op == OpBin && t.Name == "+" && t.Args[0].Op == OpField && t.Args[0].Obj == maxDelta && t.Args[1].IsConst("1") {
				okN = true
			}
		}
		if o.Name() == "Add" && o.Pkg() != nil && o.Pkg().Path() == "time" && len(c.Args) == 2 {
			t := w.TS.Of(c.Args[1])
			if t.Op == OpNeg && t.Args[0].Op == OpField && t.Args[0].Obj == interval {
				okStep = true
			}
		}
	})
	if !okN {
		// range-over-int / counted loop: some comparison bounds a counter by maxIntervalDelta + 1
		eachInstr([]*ssa.Function{vtok}, func(_ *ssa.Function, ins ssa.Instruction) {
			bo, ok := ins.(*ssa.BinOp)
			if !ok || !(bo.Op == token.LSS || bo.Op == token.GTR || bo.Op == token.LEQ || bo.Op == token.GEQ) {
				return
			}
			for _, side := range []ssa.Value{bo.X, bo.Y} {
				t := w.TS.Of(side)
				if t.Op == OpBin && t.Name == "+" && t.Args[0].Op == OpField && t.Args[0].Obj == maxDelta && t.Args[1].IsConst("1") && blockInCycle(bo.Block()) || (t.Op == OpBin && t.Name == "+" && t.Args[0].Op == OpField && t.Args[0].Obj == maxDelta && t.Args[1].IsConst("1") && bo.Op == token.LSS) {
					okN = true
				}
			}
		})
	}
	rr.Oblige(shortFuncName(vtok), "validation tries maxIntervalDelta+1 intervals", w.P.Pos(vtok.Pos()), okN, "")
	rr.Oblige(shortFuncName(vtok), "validation steps back by one interval", w.P.Pos(vtok.Pos()), okStep, "")
	// loop bound variant: a for-loop with counter compared against maxIntervalDelta is not recognised → would be BROKEN by floor
}

func c10r3(w *World, rr *RuleRun) {
	ns := w.P.Func("NewServer")
	interval := w.P.Field("", "tokenServer", "interval")
	maxDelta := w.P.Field("", "tokenServer", "maxIntervalDelta")
	secret := w.P.Field("", "tokenServer", "secret")
	var iv, dv int64 = -1, -1
	for _, fv := range []*types.Var{interval, maxDelta, secret} {
		for _, st := range w.FieldWrites(w.P.LibFuncs, fv) {
			fn := enclosingNamed(st.Parent())
			inCtor := fn == ns || w.withinUp(fn, ns)
			rr.At(w, st, "tokenServer."+fv.Name()+" written only at construction", inCtor, "in "+shortFuncName(fn))
			if s, ok := st.(*ssa.Store); ok && inCtor {
				if n, ok := ConstInt(s.Val); ok {
					if fv == interval {
						iv = n
					}
					if fv == maxDelta {
						dv = n
					}
				}
			}
		}
	}
	const minute = int64(60e9)
	ok1 := iv > 0 && dv >= 0 && dv*iv >= 10*minute
	ok2 := iv > 0 && dv >= 0 && (dv+1)*iv <= 15*minute
	rr.Oblige("NewServer", "token honoured ≥ 10 min: maxIntervalDelta × interval ≥ 10 min", w.P.Pos(ns.Pos()), ok1, fmt.Sprintf("interval=%dns delta=%d", iv, dv))
	rr.Oblige("NewServer", "token dead after 15 min: (maxIntervalDelta+1) × interval ≤ 15 min", w.P.Pos(ns.Pos()), ok2, fmt.Sprintf("interval=%dns delta=%d", iv, dv))
	// secret filled from crypto/rand
	okRand := false
	eachInstr([]*ssa.Function{ns}, func(_ *ssa.Function, ins ssa.Instruction) {
		c := callInstrCommon(ins)
		if c == nil {
			return
		}
		if o := calleeObj(c); o != nil && o.Pkg() != nil && o.Pkg().Path() == "crypto/rand" && o.Name() == "Read" {
			t := w.TS.Of(c.Args[0])
			if t.Op == OpField && t.Obj == secret {
				okRand = true
			}
		}
	})
	rr.Oblige("NewServer", "secret filled from crypto/rand", w.P.Pos(ns.Pos()), okRand, "")
	// rand.Read fills len(secret) bytes: the buffer must have a fixed non-trivial length
	nSec := 0
	for _, st := range w.FieldWrites(w.P.LibFuncs, secret) {
		s, ok := st.(*ssa.Store)
		if !ok {
			continue
		}
		if fn := enclosingNamed(st.Parent()); fn != ns && !w.withinUp(fn, ns) {
			continue
		}
		nSec++
		var ln int64 = -1
		switch mk := s.Val.(type) {
		case *ssa.MakeSlice:
			if n, ok := ConstInt(mk.Len); ok {
				ln = n
			}
		case *ssa.Slice:
			// new([N]byte)[:] lowering of make with constant size
			if al, ok := mk.X.(*ssa.Alloc); ok && mk.Low == nil {
				if at, ok := al.Type().Underlying().(*types.Pointer).Elem().Underlying().(*types.Array); ok {
					ln = at.Len()
					if mk.High != nil {
						ln = -1
						if n, ok := ConstInt(mk.High); ok {
							ln = n
						}
					}
				}
			}
		}
		rr.At(w, st, "the secret buffer handed to crypto/rand has a constant length of at least 8 bytes", ln >= 8, fmt.Sprintf("length %d", ln))
	}
	if nSec == 0 {
		rr.Oblige("NewServer", "the secret buffer handed to crypto/rand has a constant length of at least 8 bytes", w.P.Pos(ns.Pos()), false, "no store to tokenServer.secret")
	}
	// timeNow hook: only tests set it
	tn := w.P.Field("", "tokenServer", "timeNow")
	ws := w.FieldWrites(w.P.LibFuncs, tn)
	rr.Oblige("(library)", "tokenServer.timeNow never overridden by library code", "-", len(ws) == 0, fmt.Sprintf("%d stores", len(ws)))
}

func c10r4(w *World, rr *RuleRun) {
	h := w.handler()
	createToken := w.tokenIssuer()
	retToken := w.P.Field("krpc", "Return", "Token")
	peerStore := w.P.Field("", "ServerConfig", "PeerStore")
	n := 0
	for _, site := range w.CallsInRegion(h.fn, h.reply) {
		rarg := callInstrCommon(site).Args[3]
		for _, c := range h.casesAt(w, site) {
			if c != "get" && c != "get_peers" {
				continue
			}
			n++
			method := c
			w.Require(rr, site, method+" reply carries a token created for the source", func(alt *Alt) (bool, string) {
				if h.caseOf(alt) != method {
					return true, "other case"
				}
				if method == "get_peers" && !alt.Has("n", true, func(t *Term) bool { return t.Op == OpField && t.Obj == peerStore }) {
					return true, "no peer store on this path"
				}
				rt := w.FE.Resolve(alt, rarg)
				// the reply argument is (a load of) the local r; its Token field binding:
				tokPath := FieldTerm(rt, retToken)
				if b, ok := alt.bind[tokPath.String()]; ok {
					x := b
					if x.Op == OpAddr {
						x = x.Args[0]
					} else if x.Op == OpLocal {
						// address of a local: what does the local hold on this path?
						if bb, ok := alt.bind[normalizeTerm(&Term{Op: OpDeref, Args: []*Term{x}}).String()]; ok {
							x = bb
						}
					}
					if isCall(x, createToken) && len(x.Args) == 2 && termEq(x.Args[1], h.source) {
						return true, "r.Token = &createToken(source)"
					}
					return false, "r.Token bound to " + b.String()
				}
				return false, "r.Token not assigned from createToken(source) on this path"
			})
		}
	}
	if n < 2 {
		rr.Oblige(shortFuncName(h.fn), "get and get_peers reply sites found", w.P.Pos(h.fn.Pos()), false, fmt.Sprintf("%d", n))
	}
}

// storedFromCallTo: the local is assigned the result of a call to fn.
func storedFromCallTo(a *ssa.Alloc, fn *ssa.Function) bool {
	if a.Referrers() == nil {
		return false
	}
	for _, r := range *a.Referrers() {
		if st, ok := r.(*ssa.Store); ok && st.Addr == a {
			if c, ok := st.Val.(*ssa.Call); ok && c.Common().StaticCallee() == fn {
				return true
			}
		}
	}
	return false
}

// tokenPredicate / tokenIssuer: the functions the handlers call to check and to create a token - the
// Server's forwarding wrappers when they exist, else the token server's own methods (same shapes:
// receiver, token, address / receiver, address).
func (w *World) tokenPredicate() *ssa.Function {
	if f := w.P.FuncOpt("(*Server).validToken"); f != nil {
		return f
	}
	return w.P.Func("(*tokenServer).ValidToken")
}

func (w *World) tokenIssuer() *ssa.Function {
	if f := w.P.FuncOpt("(*Server).createToken"); f != nil {
		return f
	}
	return w.P.Func("(tokenServer).CreateToken")
}
