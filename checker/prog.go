package main

// Engine A (part 1): program loading. Loads /repo's current working tree with go/packages,
// type-checks it, builds go/ssa for the module's packages and offers lookup helpers that resolve
// anchors (functions, fields, types, globals) by type information — never by source position.

import (
	"fmt"
	"go/ast"
	"go/token"
	"go/types"
	"os"
	"sort"
	"strings"

	"golang.org/x/tools/go/packages"
	"golang.org/x/tools/go/ssa"
	"golang.org/x/tools/go/ssa/ssautil"
)

const modPath = "github.com/anacrolix/dht/v2"

type Program struct {
	Dir      string
	Fset     *token.FileSet
	Pkgs     []*packages.Package // module packages, sorted by path
	AllPkgs  map[string]*packages.Package
	SSA      *ssa.Program
	SSAPkgs  map[string]*ssa.Package
	ModFuncs []*ssa.Function // every function with a body that belongs to a module package (incl. anonymous, bound/thunk wrappers, generic instances)
	LibFuncs []*ssa.Function // ModFuncs minus cmd/... and internal/testutil
	funcSet  map[*ssa.Function]bool
	byName   map[string]*ssa.Function
	BuildCfg string
}

// BrokenError is raised (via panic) when the checker cannot decide: missing anchor, load error...
type BrokenError struct{ Msg string }

func (b BrokenError) Error() string { return b.Msg }

func broken(format string, args ...interface{}) {
	panic(BrokenError{fmt.Sprintf(format, args...)})
}

func isLibPkgPath(p string) bool {
	if !(p == modPath || strings.HasPrefix(p, modPath+"/")) {
		return false
	}
	rest := strings.TrimPrefix(p, modPath)
	if strings.HasPrefix(rest, "/cmd/") || rest == "/cmd" || strings.HasPrefix(rest, "/internal/") {
		return false
	}
	return true
}

func isModPkgPath(p string) bool {
	return p == modPath || strings.HasPrefix(p, modPath+"/")
}

func LoadProgram(dir string, extraEnv []string, overlay map[string][]byte) *Program {
	env := append(os.Environ(),
		"GOFLAGS=-mod=mod", "GOPROXY=off", "GOSUMDB=off", "GOWORK=off", "GOTOOLCHAIN=local")
	env = append(env, extraEnv...)
	cfg := &packages.Config{
		Mode:    packages.LoadSyntax,
		Dir:     dir,
		Env:     env,
		Tests:   false,
		Overlay: overlay,
	}
	pkgs, err := packages.Load(cfg, "./...")
	if err != nil {
		broken("packages.Load: %v", err)
	}
	if len(pkgs) == 0 {
		broken("packages.Load returned zero packages")
	}
	p := &Program{Dir: dir, AllPkgs: map[string]*packages.Package{}, SSAPkgs: map[string]*ssa.Package{}, BuildCfg: strings.Join(extraEnv, " ")}
	nMod := 0
	var errs []string
	packages.Visit(pkgs, nil, func(pk *packages.Package) {
		p.AllPkgs[pk.PkgPath] = pk
		if isModPkgPath(pk.PkgPath) {
			for _, e := range pk.Errors {
				errs = append(errs, e.Error())
			}
		}
	})
	for _, pk := range pkgs {
		if isModPkgPath(pk.PkgPath) {
			nMod++
			p.Pkgs = append(p.Pkgs, pk)
			if pk.Types == nil || pk.TypesInfo == nil || len(pk.Syntax) == 0 {
				errs = append(errs, "package "+pk.PkgPath+" has no type information / syntax")
			}
		}
	}
	if len(errs) > 0 {
		broken("type/load errors in module packages: %s", strings.Join(errs, "; "))
	}
	if nMod == 0 {
		broken("no module packages loaded from %s", dir)
	}
	sort.Slice(p.Pkgs, func(i, j int) bool { return p.Pkgs[i].PkgPath < p.Pkgs[j].PkgPath })
	p.Fset = pkgs[0].Fset
	// Dependencies come from export data (types only): rules never descend into external code.
	prog, _ := ssautil.Packages(pkgs, ssa.InstantiateGenerics)
	p.SSA = prog
	for _, sp := range prog.AllPackages() {
		p.SSAPkgs[sp.Pkg.Path()] = sp
	}
	// Build only module packages: rules never descend into external code.
	for _, pk := range p.Pkgs {
		sp := p.SSAPkgs[pk.PkgPath]
		if sp == nil {
			broken("no SSA package for %s", pk.PkgPath)
		}
		sp.Build()
	}
	p.collectFuncs()
	return p
}

func (p *Program) collectFuncs() {
	p.funcSet = map[*ssa.Function]bool{}
	p.byName = map[string]*ssa.Function{}
	var add func(f *ssa.Function)
	add = func(f *ssa.Function) {
		if f == nil || p.funcSet[f] {
			return
		}
		if f.Blocks == nil {
			return
		}
		p.funcSet[f] = true
		p.ModFuncs = append(p.ModFuncs, f)
		for _, a := range f.AnonFuncs {
			add(a)
		}
	}
	for _, pk := range p.Pkgs {
		sp := p.SSAPkgs[pk.PkgPath]
		for _, m := range sp.Members {
			switch m := m.(type) {
			case *ssa.Function:
				add(m)
			case *ssa.Type:
				for _, t := range []types.Type{m.Type(), types.NewPointer(m.Type())} {
					ms := p.SSA.MethodSets.MethodSet(t)
					for i := 0; i < ms.Len(); i++ {
						f := p.SSA.MethodValue(ms.At(i))
						if f != nil && f.Pkg == sp {
							add(f)
						}
					}
				}
			}
		}
	}
	// Generic instances, bound-method closures and thunks referenced from module code: discover by
	// walking operands until fixpoint.
	for i := 0; i < len(p.ModFuncs); i++ {
		f := p.ModFuncs[i]
		for _, b := range f.Blocks {
			for _, ins := range b.Instrs {
				if mi, ok := ins.(*ssa.MakeInterface); ok {
					// methods of instantiated generic module types that are only ever called through an
					// interface by external code (e.g. lessComparer[Key].Compare handed to immutable)
					if n, ok := types.Unalias(mi.X.Type()).(*types.Named); ok && n.TypeArgs().Len() > 0 && n.Obj().Pkg() != nil && isModPkgPath(n.Obj().Pkg().Path()) {
						for _, t := range []types.Type{n, types.NewPointer(n)} {
							ms := p.SSA.MethodSets.MethodSet(t)
							for k := 0; k < ms.Len(); k++ {
								if g := p.SSA.MethodValue(ms.At(k)); g != nil && g.Synthetic == "" || g != nil && strings.HasPrefix(g.Synthetic, "instance") {
									add(g)
								}
							}
						}
					}
				}
				for _, op := range ins.Operands(nil) {
					if op == nil || *op == nil {
						continue
					}
					if g, ok := (*op).(*ssa.Function); ok && p.isModFuncObj(g) {
						if g.Blocks == nil && g.Synthetic != "" {
							// wrappers are built lazily by Program.Build; force.
						}
						add(g)
					}
				}
			}
		}
	}
	sort.SliceStable(p.ModFuncs, func(i, j int) bool { return p.ModFuncs[i].String() < p.ModFuncs[j].String() })
	for _, f := range p.ModFuncs {
		p.byName[f.String()] = f
		if isLibPkgPath(p.pkgPathOf(f)) {
			p.LibFuncs = append(p.LibFuncs, f)
		}
	}
}

// isModFuncObj reports whether f belongs to the module (declared there, an instance of a generic
// declared there, a closure inside one, or a synthetic wrapper of a module method).
func (p *Program) isModFuncObj(f *ssa.Function) bool {
	return isModPkgPath(p.pkgPathOf(f))
}

func (p *Program) pkgPathOf(f *ssa.Function) string {
	for f != nil {
		if f.Pkg != nil {
			return f.Pkg.Pkg.Path()
		}
		if f.Parent() != nil {
			f = f.Parent()
			continue
		}
		if o := f.Origin(); o != nil && o != f {
			f = o
			continue
		}
		if obj := f.Object(); obj != nil && obj.Pkg() != nil {
			return obj.Pkg().Path()
		}
		// bound / thunk wrappers: name like (*T).m$bound; find via Signature? use the object of the method
		return ""
	}
	return ""
}

func (p *Program) IsMod(f *ssa.Function) bool { return p.funcSet[f] }

func (p *Program) IsLib(f *ssa.Function) bool {
	return p.funcSet[f] && isLibPkgPath(p.pkgPathOf(f))
}

// Func finds a module function by its ssa String(), e.g.
// "(*github.com/anacrolix/dht/v2.Server).handleQuery" or "github.com/anacrolix/dht/v2/bep44.Check".
// Short forms relative to the module path are accepted: "(*Server).handleQuery", "bep44.Check",
// "(*bep44.Wrapper).Put".
func (p *Program) Func(name string) *ssa.Function {
	if f := p.lookupFunc(name); f != nil {
		return f
	}
	broken("anchor function %q not found in module", name)
	return nil
}

func (p *Program) FuncOpt(name string) *ssa.Function { return p.lookupFunc(name) }

func (p *Program) lookupFunc(name string) *ssa.Function {
	if f := p.byName[name]; f != nil {
		return f
	}
	for _, f := range p.ModFuncs {
		if shortFuncName(f) == name {
			return f
		}
	}
	return nil
}

// shortFuncName renders f relative to the module path: root package members carry no qualifier.
func shortFuncName(f *ssa.Function) string {
	s := f.String()
	s = strings.ReplaceAll(s, modPath+"/", "")
	s = strings.ReplaceAll(s, modPath+".", "")
	return s
}

func (p *Program) Pkg(rel string) *packages.Package {
	path := modPath
	if rel != "" {
		path += "/" + rel
	}
	pk := p.AllPkgs[path]
	if pk == nil {
		broken("anchor package %q not loaded", path)
	}
	return pk
}

// NamedType finds a named type in a module package ("" = root).
func (p *Program) NamedType(rel, name string) *types.Named {
	pk := p.Pkg(rel)
	obj := pk.Types.Scope().Lookup(name)
	if obj == nil {
		broken("anchor type %s.%s not found", rel, name)
	}
	tn, ok := obj.(*types.TypeName)
	if !ok {
		broken("anchor %s.%s is not a type", rel, name)
	}
	n, ok := types.Unalias(tn.Type()).(*types.Named)
	if !ok {
		broken("anchor type %s.%s is not a named type", rel, name)
	}
	return n
}

// Field finds a struct field by type and name (embedded structs are not searched).
func (p *Program) Field(rel, typ, field string) *types.Var {
	v := p.FieldOpt(rel, typ, field)
	if v == nil {
		broken("anchor field %s.%s.%s not found", rel, typ, field)
	}
	return v
}

func (p *Program) FieldOpt(rel, typ, field string) *types.Var {
	n := p.NamedType(rel, typ)
	st, ok := n.Underlying().(*types.Struct)
	if !ok {
		broken("anchor type %s.%s is not a struct", rel, typ)
	}
	for i := 0; i < st.NumFields(); i++ {
		if st.Field(i).Name() == field {
			return st.Field(i)
		}
	}
	return nil
}

func (p *Program) Global(rel, name string) *ssa.Global {
	pk := p.Pkg(rel)
	sp := p.SSAPkgs[pk.PkgPath]
	g, ok := sp.Members[name].(*ssa.Global)
	if !ok {
		broken("anchor global %s.%s not found", rel, name)
	}
	return g
}

func (p *Program) GlobalOpt(rel, name string) *ssa.Global {
	pk := p.Pkg(rel)
	sp := p.SSAPkgs[pk.PkgPath]
	g, _ := sp.Members[name].(*ssa.Global)
	return g
}

// Method finds the *types.Func of a method on a named type in any loaded package.
func (p *Program) ExtMethod(pkgPath, typ, method string) *types.Func {
	pk := p.AllPkgs[pkgPath]
	if pk == nil {
		broken("external package %q not loaded", pkgPath)
	}
	obj := pk.Types.Scope().Lookup(typ)
	if obj == nil {
		broken("external type %s.%s not found", pkgPath, typ)
	}
	t := obj.Type()
	o, _, _ := types.LookupFieldOrMethod(t, true, pk.Types, method)
	if f, ok := o.(*types.Func); ok {
		return f
	}
	broken("external method %s.%s.%s not found", pkgPath, typ, method)
	return nil
}

func (p *Program) ExtFunc(pkgPath, name string) *types.Func {
	pk := p.AllPkgs[pkgPath]
	if pk == nil {
		broken("external package %q not loaded", pkgPath)
	}
	f, ok := pk.Types.Scope().Lookup(name).(*types.Func)
	if !ok {
		broken("external function %s.%s not found", pkgPath, name)
	}
	return f
}

func (p *Program) Pos(pos token.Pos) string {
	if !pos.IsValid() {
		return "-"
	}
	ps := p.Fset.Position(pos)
	fn := ps.Filename
	if strings.HasPrefix(fn, p.Dir+"/") {
		fn = fn[len(p.Dir)+1:]
	}
	return fmt.Sprintf("%s:%d", fn, ps.Line)
}

// InstrPos gives the best available position for an instruction (falls back to operands and
// neighbouring instructions, since several SSA instructions carry NoPos).
func (p *Program) InstrPos(ins ssa.Instruction) string {
	if ins.Pos().IsValid() {
		return p.Pos(ins.Pos())
	}
	for _, op := range ins.Operands(nil) {
		if op != nil && *op != nil && (*op).Pos().IsValid() {
			return p.Pos((*op).Pos())
		}
	}
	b := ins.Block()
	if b != nil {
		for _, j := range b.Instrs {
			if j.Pos().IsValid() {
				return p.Pos(j.Pos())
			}
		}
		if b.Parent() != nil {
			return p.Pos(b.Parent().Pos())
		}
	}
	return "-"
}

// FileOf returns the syntax file containing pos within module packages.
func (p *Program) FileOf(pos token.Pos) (*packages.Package, *ast.File) {
	for _, pk := range p.Pkgs {
		for _, f := range pk.Syntax {
			if f.Pos() <= pos && pos <= f.End() {
				return pk, f
			}
		}
	}
	return nil, nil
}

// calleeObj returns the statically known callee of a call as a types.Func: the static callee, or the
// abstract interface method for an invoke. nil for calls through function values.
func calleeObj(c *ssa.CallCommon) *types.Func {
	if c.IsInvoke() {
		return c.Method
	}
	if f := c.StaticCallee(); f != nil {
		if o, ok := f.Object().(*types.Func); ok {
			return o
		}
		if f.Origin() != nil {
			if o, ok := f.Origin().Object().(*types.Func); ok {
				return o
			}
		}
	}
	return nil
}

// funcObjName: "pkgpath.(Recv).Name" rendering of a types.Func for messages and tables.
func funcObjName(f *types.Func) string {
	if f == nil {
		return "<nil>"
	}
	s := f.FullName()
	s = strings.ReplaceAll(s, modPath+"/", "")
	s = strings.ReplaceAll(s, modPath+".", "")
	return s
}

func callInstrCommon(ins ssa.Instruction) *ssa.CallCommon {
	if ci, ok := ins.(ssa.CallInstruction); ok {
		return ci.Common()
	}
	return nil
}
