package main

import (
	"flag"
	"fmt"
	"os"
	"runtime/debug"
	"strconv"
	"strings"
	"time"

	"golang.org/x/tools/go/ssa"
)

// World bundles the engines built once per process.
type World struct {
	P  *Program
	TS *Terms
	CG *CallGraph
	MR *ModRef
	FE *FactEngine
	LK *LockEngine
}

func BuildWorld(dir string, env []string, overlay map[string][]byte) *World {
	p := LoadProgram(dir, env, overlay)
	ts := NewTerms(p)
	cg := BuildCallGraph(p)
	ts.cg = cg
	mr := BuildModRef(p, cg, ts)
	fe := NewFactEngine(p, ts, cg, mr)
	w := &World{P: p, TS: ts, CG: cg, MR: mr, FE: fe}
	w.LK = NewLockEngine(w)
	return w
}

func main() {
	var (
		property = flag.String("property", "", "property id (C01..C20) or 'all'")
		tier     = flag.String("tier", "", "quick|thorough (default: $VERIF_TIER or quick)")
		rule     = flag.String("rule", "", "run only this rule id (e.g. C01.1)")
		explain  = flag.Bool("explain", false, "print every obligation with the facts that discharged it")
		repo     = flag.String("repo", "/repo", "repository root")
		verif    = flag.String("verif", "/verif", "verif root (evidence, known findings)")
		dump     = flag.String("dump", "", "debug: dump SSA and fact states of the named function")
		mutant   = flag.String("mutant", "", "internal: run the property on an overlay mutant and print reports")
		noEvid   = flag.Bool("no-evidence", false, "do not write the evidence file")
		genMan   = flag.Bool("gen-manifest", false, "print MANIFEST.json for the registered properties")
		warm     = flag.Bool("warm", false, "load /repo once to warm the build cache (setup)")
	)
	flag.Parse()
	if *genMan {
		genManifest()
		return
	}
	if *warm {
		w := BuildWorld(*repo, nil, nil)
		fmt.Printf("warm: %d packages, %d functions\n", len(w.P.Pkgs), len(w.P.ModFuncs))
		return
	}
	if *tier == "" {
		*tier = os.Getenv("VERIF_TIER")
	}
	if *tier == "" {
		*tier = "quick"
	}
	seed := 0
	if s := os.Getenv("VERIF_SEED"); s != "" {
		if n, err := strconv.Atoi(s); err == nil {
			seed = n
		}
	}
	start := time.Now()
	if *dump != "" {
		w := BuildWorld(*repo, nil, nil)
		if strings.HasPrefix(*dump, "path:") {
			parts := strings.Split(strings.TrimPrefix(*dump, "path:"), "=>")
			a, b := w.P.Func(parts[0]), w.P.Func(parts[1])
			r := w.CG.Reach([]*ssa.Function{a}, nil)
			if _, ok := r[b]; ok {
				f := b
				for f != nil {
					e := r[f]
					if e == nil {
						fmt.Println(shortFuncName(f))
						break
					}
					fmt.Printf("%s  <-[%s cb=%v @%s]- ", shortFuncName(f), e.Mode, e.Callback, w.P.InstrPos(e.Site))
					f = e.Caller
				}
			} else {
				fmt.Println("unreachable")
			}
			return
		}
		if strings.HasPrefix(*dump, "mod:") {
			dumpModRef(w, strings.TrimPrefix(*dump, "mod:"))
			return
		}
		dumpFunc(w, *dump)
		return
	}
	if *property == "" {
		fmt.Fprintln(os.Stderr, "usage: dhtlint -property Cnn [-tier quick|thorough] [-rule Cnn.k] [-explain]")
		os.Exit(2)
	}
	props := []string{*property}
	if *property == "all" {
		props = nil
		for _, pr := range allProperties() {
			props = append(props, pr.ID)
		}
	}
	code := 0
	var shared *World
	for _, id := range props {
		c := runProperty(id, RunOpts{Tier: *tier, Rule: *rule, Explain: *explain, Repo: *repo, Verif: *verif, Seed: seed, Start: start, Mutant: *mutant, NoEvidence: *noEvid, Shared: &shared})
		if c > code {
			code = c
		}
	}
	os.Exit(code)
}

type RunOpts struct {
	Tier, Rule    string
	Explain       bool
	Repo, Verif   string
	Seed          int
	Start         time.Time
	Mutant        string
	NoEvidence    bool
	Shared        **World
}

// runProperty runs all rules of one property; returns the process exit code contribution.
func runProperty(id string, o RunOpts) (code int) {
	prop := findProperty(id)
	if prop == nil {
		fmt.Printf("BROKEN property=%s unknown property\n", id)
		return 2
	}
	rep := NewReport(prop, o)
	defer func() {
		if r := recover(); r != nil {
			msg := fmt.Sprint(r)
			if be, ok := r.(BrokenError); ok {
				msg = be.Msg
			} else {
				msg = msg + "\n" + string(debug.Stack())
			}
			rep.Broken(msg)
			code = rep.Finish()
		}
	}()
	var w *World
	if o.Shared != nil && *o.Shared != nil {
		w = *o.Shared
	} else {
		w = BuildWorld(o.Repo, nil, nil)
		if o.Shared != nil {
			*o.Shared = w
		}
	}
	rep.W = w
	for _, r := range prop.Rules {
		if o.Rule != "" && r.ID != o.Rule {
			continue
		}
		rep.RunRule(w, r)
	}
	if o.Tier == "thorough" && o.Mutant == "" {
		runThorough(rep, prop, o)
	}
	return rep.Finish()
}

func dumpFunc(w *World, name string) {
	var fns []*ssa.Function
	for _, f := range w.P.ModFuncs {
		if strings.Contains(shortFuncName(f), name) {
			fns = append(fns, f)
		}
	}
	for _, f := range fns {
		fmt.Printf("=== %s (%s)\n", shortFuncName(f), f.Synthetic)
		for _, b := range f.Blocks {
			fmt.Printf(" block %d %s preds=%v succs=%v\n", b.Index, b.Comment, blockIdx(b.Preds), blockIdx(b.Succs))
			for _, ins := range b.Instrs {
				st := w.FE.StateBefore(ins)
				v, isV := ins.(ssa.Value)
				line := ""
				if isV {
					line = fmt.Sprintf("%s = %s    ⟦%s⟧", v.Name(), ins.String(), w.TS.Of(v))
				} else {
					line = ins.String()
				}
				fmt.Printf("   [%s] %s\n", w.LK.DepthString(ins), line)
				if _, ok := ins.(*ssa.Phi); !ok {
					if c := callInstrCommon(ins); c != nil || isInteresting(ins) {
						if os.Getenv("DUMP_FACTS") != "0" {
							fmt.Printf("        facts: %s\n", st)
						}
						for _, e := range w.CG.SiteOut[ins] {
							fmt.Printf("        -> %s (%s cb=%v)\n", shortFuncName(e.Callee), e.Mode, e.Callback)
						}
					}
				}
			}
		}
	}
}

func isInteresting(ins ssa.Instruction) bool {
	switch ins.(type) {
	case *ssa.Return, *ssa.Store, *ssa.MapUpdate, *ssa.Send, *ssa.Select:
		return true
	}
	return false
}

func blockIdx(bs []*ssa.BasicBlock) []int {
	var out []int
	for _, b := range bs {
		out = append(out, b.Index)
	}
	return out
}

func dumpModRef(w *World, name string) {
	for _, f := range w.P.ModFuncs {
		if shortFuncName(f) != name {
			continue
		}
		var m []string
		for v := range w.MR.Mod[f] {
			m = append(m, v.String())
		}
		fmt.Println("MOD", name, m)
		for k := range w.MR.Via[f] {
			fmt.Println("   via", k.fv.Name(), k.via)
		}
	}
}
