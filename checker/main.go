package main

import (
	"flag"
	"fmt"
	"go/types"
	"os"
	"runtime/debug"
	"strconv"
	"strings"
	"time"

	"golang.org/x/tools/go/ssa"
)

// World bundles the engines built once per process.
type World struct {
	P  *Program
	TS *Terms
	CG *CallGraph
	MR *ModRef
	FE *FactEngine
	LK *LockEngine
	// Region: for a root function, the single-call-site helpers (transitively) that are analysed as
	// part of it (parameters bound to the arguments of their one call site, facts flowing in and out)
	Region map[*ssa.Function][]*ssa.Function
}

// resetGlobals clears every package-level cache: a World is built from scratch for each build
// configuration, mutant overlay and refactoring overlay, and nothing computed for one program may
// leak into the analysis of another (interned call environments are keyed by rendered names,
// which coincide across programs).
func resetGlobals() {
	implCache = map[*types.Func][]*ssa.Function{}
	cycleCache = map[*ssa.BasicBlock]bool{}
	mustTrackedCache = map[ssa.Instruction][]ssa.Instruction{}
	envIntern = map[string]*Env{}
	deferMarkers = map[ssa.Instruction]ssa.Instruction{}
	singleSite = map[*ssa.Function]ssa.Instruction{}
	goStarted = map[*ssa.Function]ssa.Instruction{}
}

func BuildWorld(dir string, env []string, overlay map[string][]byte) *World {
	resetGlobals()
	p := LoadProgram(dir, env, overlay)
	ts := NewTerms(p)
	cg := BuildCallGraph(p)
	ts.cg = cg
	region := map[*ssa.Function][]*ssa.Function{}
	isRoot := map[*ssa.Function]bool{}
	for _, rootName := range regionRoots {
		if root := p.FuncOpt(rootName); root != nil {
			isRoot[root] = true
		}
	}
	for _, rootName := range regionRoots {
		if root := p.FuncOpt(rootName); root != nil {
			region[root] = foldRegion(p, cg, ts, root, isRoot)
		}
	}
	mr := BuildModRef(p, cg, ts)
	fe := NewFactEngine(p, ts, cg, mr)
	for _, members := range region {
		for _, g := range members {
			if singleSite[g] != nil {
				fe.inlineAt[g] = singleSite[g]
			}
		}
	}
	w := &World{P: p, TS: ts, CG: cg, MR: mr, FE: fe, Region: region}
	w.LK = NewLockEngine(w)
	// "offered to the result set": the K-nearest Push and the named functions that wrap it
	fe.extraTracked = map[*ssa.Function]string{}
	if push := p.FuncOpt("(k-nearest-nodes.Type).Push"); push != nil {
		fe.extraTracked[push] = "offer"
		for _, e := range cg.CallersOf(push) {
			if f := enclosingNamed(e.Caller); f != nil && p.IsLib(f) && f.Signature.Recv() != nil && len(f.Params) >= 2 {
				fe.extraTracked[f] = "offer"
			}
		}
	}
	return w
}

func main() {
	var (
		property = flag.String("property", "", "property id (C01..C20) or 'all'")
		tier     = flag.String("tier", "", "quick|thorough (default: $VERIF_TIER or quick)")
		rule     = flag.String("rule", "", "run only this rule id (e.g. C01.1)")
		explain  = flag.Bool("explain", false, "print every obligation with the facts that discharged it")
		repo     = flag.String("repo", "/repo", "repository root")
		verif    = flag.String("verif", "/verif", "verif root (evidence, known findings)")
		dump     = flag.String("dump", "", "debug: dump SSA and fact states of the named function")
		mutant   = flag.String("mutant", "", "internal: run the property on an overlay mutant and print reports")
		noEvid   = flag.Bool("no-evidence", false, "do not write the evidence file")
		genMan   = flag.Bool("gen-manifest", false, "print MANIFEST.json for the registered properties")
		warm     = flag.Bool("warm", false, "load /repo once to warm the build cache (setup)")
	)
	flag.Parse()
	if *genMan {
		genManifest()
		return
	}
	if *warm {
		w := BuildWorld(*repo, nil, nil)
		fmt.Printf("warm: %d packages, %d functions\n", len(w.P.Pkgs), len(w.P.ModFuncs))
		return
	}
	if *tier == "" {
		*tier = os.Getenv("VERIF_TIER")
	}
	if *tier == "" {
		*tier = "quick"
	}
	seed := 0
	if s := os.Getenv("VERIF_SEED"); s != "" {
		if n, err := strconv.Atoi(s); err == nil {
			seed = n
		}
	}
	start := time.Now()
	if *dump != "" {
		w := BuildWorld(*repo, nil, nil)
		if strings.HasPrefix(*dump, "path:") {
			parts := strings.Split(strings.TrimPrefix(*dump, "path:"), "=>")
			a, b := w.P.Func(parts[0]), w.P.Func(parts[1])
			r := w.CG.Reach([]*ssa.Function{a}, nil)
			if _, ok := r[b]; ok {
				f := b
				for f != nil {
					e := r[f]
					if e == nil {
						fmt.Println(shortFuncName(f))
						break
					}
					fmt.Printf("%s  <-[%s cb=%v @%s]- ", shortFuncName(f), e.Mode, e.Callback, w.P.InstrPos(e.Site))
					f = e.Caller
				}
			} else {
				fmt.Println("unreachable")
			}
			return
		}
		if strings.HasPrefix(*dump, "mod:") {
			dumpModRef(w, strings.TrimPrefix(*dump, "mod:"))
			return
		}
		dumpFunc(w, *dump)
		return
	}
	if *property == "" {
		fmt.Fprintln(os.Stderr, "usage: dhtlint -property Cnn [-tier quick|thorough] [-rule Cnn.k] [-explain]")
		os.Exit(2)
	}
	props := []string{*property}
	if *property == "all" {
		props = nil
		for _, pr := range allProperties() {
			props = append(props, pr.ID)
		}
	}
	code := 0
	var shared *World
	for _, id := range props {
		c := runProperty(id, RunOpts{Tier: *tier, Rule: *rule, Explain: *explain, Repo: *repo, Verif: *verif, Seed: seed, Start: start, Mutant: *mutant, NoEvidence: *noEvid, Shared: &shared})
		if c > code {
			code = c
		}
	}
	os.Exit(code)
}

type RunOpts struct {
	Tier, Rule  string
	Explain     bool
	Repo, Verif string
	Seed        int
	Start       time.Time
	Mutant      string
	NoEvidence  bool
	Shared      **World
}

// runProperty runs all rules of one property; returns the process exit code contribution.
func runProperty(id string, o RunOpts) (code int) {
	prop := findProperty(id)
	if prop == nil {
		fmt.Printf("BROKEN property=%s unknown property\n", id)
		return 2
	}
	rep := NewReport(prop, o)
	defer func() {
		if r := recover(); r != nil {
			msg := fmt.Sprint(r)
			if be, ok := r.(BrokenError); ok {
				msg = be.Msg
			} else {
				msg = msg + "\n" + string(debug.Stack())
			}
			rep.Broken(msg)
			code = rep.Finish()
		}
	}()
	var w *World
	if o.Shared != nil && *o.Shared != nil {
		w = *o.Shared
	} else {
		w = BuildWorld(o.Repo, nil, nil)
		if o.Shared != nil {
			*o.Shared = w
		}
	}
	rep.W = w
	for _, r := range prop.Rules {
		if o.Rule != "" && r.ID != o.Rule {
			continue
		}
		rep.RunRule(w, r)
	}
	if o.Tier == "thorough" && o.Mutant == "" {
		runThorough(rep, prop, o)
	}
	return rep.Finish()
}

func dumpFunc(w *World, name string) {
	var fns []*ssa.Function
	for _, f := range w.P.ModFuncs {
		if strings.Contains(shortFuncName(f), name) {
			fns = append(fns, f)
		}
	}
	for _, f := range fns {
		fmt.Printf("=== %s (%s)\n", shortFuncName(f), f.Synthetic)
		for _, b := range f.Blocks {
			fmt.Printf(" block %d %s preds=%v succs=%v\n", b.Index, b.Comment, blockIdx(b.Preds), blockIdx(b.Succs))
			for _, ins := range b.Instrs {
				st := w.FE.StateBefore(ins)
				v, isV := ins.(ssa.Value)
				line := ""
				if isV {
					line = fmt.Sprintf("%s = %s    ⟦%s⟧", v.Name(), ins.String(), w.TS.Of(v))
				} else {
					line = ins.String()
				}
				fmt.Printf("   [%s] %s\n", w.LK.DepthString(ins), line)
				if _, ok := ins.(*ssa.Phi); !ok {
					if c := callInstrCommon(ins); c != nil || isInteresting(ins) {
						if os.Getenv("DUMP_FACTS") != "0" {
							fmt.Printf("        facts: %s\n", st)
						}
						for _, e := range w.CG.SiteOut[ins] {
							fmt.Printf("        -> %s (%s cb=%v)\n", shortFuncName(e.Callee), e.Mode, e.Callback)
						}
					}
				}
			}
		}
	}
}

func isInteresting(ins ssa.Instruction) bool {
	switch ins.(type) {
	case *ssa.Return, *ssa.Store, *ssa.MapUpdate, *ssa.Send, *ssa.Select:
		return true
	}
	return false
}

func blockIdx(bs []*ssa.BasicBlock) []int {
	var out []int
	for _, b := range bs {
		out = append(out, b.Index)
	}
	return out
}

func dumpModRef(w *World, name string) {
	for _, f := range w.P.ModFuncs {
		if shortFuncName(f) != name {
			continue
		}
		var m []string
		for v := range w.MR.Mod[f] {
			m = append(m, v.String())
		}
		fmt.Println("MOD", name, m)
		for k := range w.MR.Via[f] {
			fmt.Println("   via", k.fv.Name(), k.via)
		}
	}
}

// regionRoots: functions whose single-call-site helpers are folded into them. The query handler is the
// one place where "extract this switch case into a method" is a likely, behaviour-preserving edit that
// must not change any verdict.
var regionRoots = []string{
	"(*Server).handleQuery", "(*Server).processPacket", "(*Server).Query",
	"(*Server).AnnounceTraversal", "filterPeers", "(*Server).setReturnNodes", "(*Server).writeToNode",
	"(*traversal.Operation).startQuery", "(*traversal.Operation).run", "(*traversal.Operation).addClosest",
	"(*bep44.Wrapper).Put", "(*bep44.Wrapper).Get", "(k-nearest-nodes.Type).Push",
	"(tokenServer).createToken", "(*tokenServer).ValidToken", "(*Server).transactionQuerySender",
	"(*bucket).GetNode", "(*Server).reply", "(*Server).sendError",
}

var singleSite = map[*ssa.Function]ssa.Instruction{}

// goStarted: region members that are started with `go` at their only site.
var goStarted = map[*ssa.Function]ssa.Instruction{}

// foldRegion finds the module functions that are called (statically, synchronously) from exactly one
// call instruction in the whole module, that instruction lying in root or in an already folded
// helper (closures of those included), and binds their parameters to the arguments of that site.
func foldRegion(p *Program, cg *CallGraph, ts *Terms, root *ssa.Function, isRoot map[*ssa.Function]bool) []*ssa.Function {
	sites := map[*ssa.Function][]ssa.Instruction{}
	goSites := map[*ssa.Function][]ssa.Instruction{}
	other := map[*ssa.Function]bool{} // referenced in some other way (defer, value, callback)
	for _, f := range p.ModFuncs {
		for _, b := range f.Blocks {
			for _, ins := range b.Instrs {
				c := callInstrCommon(ins)
				if c != nil {
					if sc := c.StaticCallee(); sc != nil && p.IsMod(sc) {
						switch ins.(type) {
						case *ssa.Call:
							sites[sc] = append(sites[sc], ins)
						case *ssa.Go:
							goSites[sc] = append(goSites[sc], ins)
						default:
							other[sc] = true
						}
					}
				}
				for _, op := range ins.Operands(nil) {
					if g, ok := (*op).(*ssa.Function); ok && c != nil && c.Value != ssa.Value(g) {
						other[g] = true
					} else if ok && c == nil {
						other[g] = true
					}
				}
			}
		}
	}
	inRegion := map[*ssa.Function]bool{root: true}
	var members []*ssa.Function
	work := []*ssa.Function{root}
	depthOf := map[*ssa.Function]int{root: 0}
	for len(work) > 0 {
		f := work[0]
		work = work[1:]
		for _, fn := range append([]*ssa.Function{f}, allAnon(f)...) {
			for _, b := range fn.Blocks {
				for _, ins := range b.Instrs {
					if gi, isGo := ins.(*ssa.Go); isGo {
						// a named function started with `go` from its only site: a member of the region
						// (containment, parameter binding) but never inlined - it runs later
						g := gi.Call.StaticCallee()
						if g == nil || !p.IsLib(g) || inRegion[g] || isRoot[g] || other[g] || len(sites[g]) != 0 || len(goSites[g]) != 1 || g.Parent() != nil || g.Synthetic != "" || len(g.Blocks) == 0 {
							continue
						}
						if obj, ok := g.Object().(*types.Func); !ok || obj.Exported() || depthOf[f] >= 3 {
							continue
						}
						inRegion[g] = true
						depthOf[g] = depthOf[f] + 1
						members = append(members, g)
						goStarted[g] = gi
						for i, prm := range g.Params {
							if i < len(gi.Call.Args) {
								ts.paramBind[prm] = gi.Call.Args[i]
							}
						}
						work = append(work, g)
						continue
					}
					call, ok := ins.(*ssa.Call)
					if !ok {
						continue
					}
					g := call.Call.StaticCallee()
					if g == nil || !p.IsLib(g) || inRegion[g] || isRoot[g] || other[g] || len(sites[g]) != 1 || len(goSites[g]) != 0 || g.Parent() != nil || g.Synthetic != "" || len(g.Blocks) == 0 {
						continue
					}
					if obj, ok := g.Object().(*types.Func); !ok || obj.Exported() {
						continue // exported API may be called from outside the module
					}
					if depthOf[f] >= 3 {
						continue
					}
					inRegion[g] = true
					depthOf[g] = depthOf[f] + 1
					members = append(members, g)
					singleSite[g] = call
					for i, prm := range g.Params {
						if i < len(call.Call.Args) {
							ts.paramBind[prm] = call.Call.Args[i]
						}
					}
					work = append(work, g)
				}
			}
		}
	}
	return members
}

// RegionOf: root plus its folded helpers.
func (w *World) RegionOf(root *ssa.Function) []*ssa.Function {
	return append([]*ssa.Function{root}, w.Region[root]...)
}
