package main

// Thorough tier: everything the quick tier does, plus
//   (i)   the same rules on two more build configurations (GOOS=windows, GOARCH=386), which must
//         agree with the default configuration obligation for obligation;
//   (ii)  the same rules with a deeper summary-inlining bound, which must agree as well;
//   (iii) checker self-validation: every seeded mutant of this property under /verif/seeded (patches
//         written by independent agents from the property text alone, each confirmed to break the
//         property while passing the test suite) is applied as an in-memory overlay of /repo's
//         current source - nothing is written to disk - and must be reported by this property's
//         rules. A patch that no longer applies to the current tree is skipped and listed; a patch
//         that applies and is NOT reported makes the check BROKEN (a rule lost its teeth).
// Nothing here executes repository code.

import (
	"encoding/json"
	"fmt"
	"os"
	"path/filepath"
	"sort"
	"strconv"
	"strings"
)

type verdictSet struct {
	keys   []string // sorted obligation keys with verdict
	viol   []Obligation
	broken []string
}

// runRulesOn runs the property's rules on a freshly built world and returns the verdicts.
func runRulesOn(prop *Property, o RunOpts, env []string, overlay map[string][]byte, depth int) (vs verdictSet, err error) {
	defer func() {
		if r := recover(); r != nil {
			if be, ok := r.(BrokenError); ok {
				err = fmt.Errorf("%s", be.Msg)
				return
			}
			err = fmt.Errorf("%v", r)
		}
	}()
	w := BuildWorld(o.Repo, env, overlay)
	if depth > 0 {
		w.FE.Depth = depth
	}
	rep := NewReport(prop, RunOpts{Tier: "quick", Repo: o.Repo, Verif: o.Verif, NoEvidence: true, Mutant: "overlay"})
	rep.W = w
	for _, r := range prop.Rules {
		rep.RunRule(w, r)
	}
	for _, ob := range rep.Obs {
		v := "ok"
		if !ob.OK {
			v = "FAIL"
			if rep.isKnown(ob) == nil {
				vs.viol = append(vs.viol, ob)
			}
		}
		vs.keys = append(vs.keys, ob.Key()+"="+v)
	}
	sort.Strings(vs.keys)
	vs.broken = rep.BrokenBy
	return vs, nil
}

func diffKeys(a, b []string) []string {
	am := map[string]bool{}
	for _, k := range a {
		am[k] = true
	}
	bm := map[string]bool{}
	for _, k := range b {
		bm[k] = true
	}
	var out []string
	for k := range am {
		if !bm[k] {
			out = append(out, "- "+k)
		}
	}
	for k := range bm {
		if !am[k] {
			out = append(out, "+ "+k)
		}
	}
	sort.Strings(out)
	return out
}

func runThorough(rep *Report, prop *Property, o RunOpts) {
	// reference: the verdicts of this very run
	var ref []string
	for _, ob := range rep.Obs {
		v := "ok"
		if !ob.OK {
			v = "FAIL"
		}
		ref = append(ref, ob.Key()+"="+v)
	}
	sort.Strings(ref)
	// (i) build configurations
	type cfgRes struct {
		Config      string `json:"config"`
		Obligations int    `json:"obligations"`
		Agrees      bool   `json:"agrees_with_default"`
		Error       string `json:"error,omitempty"`
	}
	var cfgs []cfgRes
	for _, env := range [][]string{{"GOOS=windows", "GOARCH=amd64"}, {"GOOS=linux", "GOARCH=386"}} {
		name := strings.Join(env, " ")
		vs, err := runRulesOn(prop, o, env, nil, 0)
		cr := cfgRes{Config: name, Obligations: len(vs.keys)}
		if err != nil {
			cr.Error = err.Error()
			rep.Broken("build configuration " + name + ": " + err.Error())
		} else {
			d := diffKeys(ref, vs.keys)
			cr.Agrees = len(d) == 0
			if !cr.Agrees {
				// a rule that fails only on another platform's files is a violation there
				for _, v := range vs.viol {
					v.Construct += " [" + name + "]"
					rep.Obs = append(rep.Obs, v)
				}
				if len(vs.viol) == 0 {
					rep.Broken(fmt.Sprintf("build configuration %s disagrees with the default on %d obligations: %s", name, len(d), strings.Join(firstN(d, 6), "; ")))
				}
			}
			for _, b := range vs.broken {
				rep.Broken("build configuration " + name + ": " + b)
			}
		}
		cfgs = append(cfgs, cr)
	}
	rep.Extra["build_configs"] = cfgs
	// (ii) deeper summaries
	deep, err := runRulesOn(prop, o, nil, nil, 6)
	if err != nil {
		rep.Broken("deeper summary bound: " + err.Error())
	} else {
		d := diffKeys(ref, deep.keys)
		rep.Extra["deeper_summary_bound"] = map[string]interface{}{"depth": 6, "obligations": len(deep.keys), "agrees": len(d) == 0}
		if len(d) != 0 {
			rep.Broken(fmt.Sprintf("verdicts change with summary depth 6 (%d differences): %s", len(d), strings.Join(firstN(d, 6), "; ")))
		}
	}
	// (iii) seeded mutants as overlays
	type mutRes struct {
		ID       string   `json:"id"`
		Applied  bool     `json:"applied"`
		Detected bool     `json:"detected"`
		By       []string `json:"reported_by,omitempty"`
		Note     string   `json:"note,omitempty"`
	}
	var muts []mutRes
	dirs, _ := filepath.Glob(filepath.Join(o.Verif, "seeded", "*"))
	sort.Strings(dirs)
	applied, detected, skipped := 0, 0, 0
	for _, d := range dirs {
		mb, err := os.ReadFile(filepath.Join(d, "meta.json"))
		if err != nil {
			continue
		}
		var meta struct {
			Property string `json:"property"`
		}
		if json.Unmarshal(mb, &meta) != nil || meta.Property != prop.ID {
			continue
		}
		id := filepath.Base(d)
		pb, err := os.ReadFile(filepath.Join(d, "patch.diff"))
		if err != nil {
			continue
		}
		ov, err := overlayFromPatch(o.Repo, string(pb))
		mr := mutRes{ID: id}
		if err != nil {
			skipped++
			mr.Note = "patch does not apply to the current tree: " + err.Error()
			muts = append(muts, mr)
			continue
		}
		mr.Applied = true
		applied++
		vs, err := runRulesOn(prop, o, nil, ov, 0)
		if err != nil {
			// the mutant does not type-check / cannot be analysed: not a verdict on the rules
			mr.Note = "mutant could not be analysed: " + err.Error()
			muts = append(muts, mr)
			continue
		}
		seen := map[string]bool{}
		for _, v := range vs.viol {
			if !seen[v.Rule] {
				seen[v.Rule] = true
				mr.By = append(mr.By, v.Rule)
			}
		}
		sort.Strings(mr.By)
		mr.Detected = len(vs.viol) > 0
		if mr.Detected {
			detected++
		} else {
			rep.Broken(fmt.Sprintf("self-validation: seeded mutant %s applies to the current tree and breaks %s, but no rule reports it (a rule has lost its teeth)", id, prop.ID))
		}
		muts = append(muts, mr)
	}
	rep.Extra["seeded_mutants"] = muts
	rep.Extra["mutants_applied"] = applied
	rep.Extra["mutants_detected"] = detected
	rep.Extra["mutants_skipped"] = skipped
	// (iv) behaviour-preserving refactorings (written by independent agents told to change nothing
	// observable, plus a few of our own) that touch one of this property's anchor files must leave
	// every verdict silent: no violation, nothing undecided.
	anchors := anchorFiles(o.Verif, prop.ID)
	type refRes struct {
		ID      string `json:"id"`
		Applied bool   `json:"applied"`
		Silent  bool   `json:"silent"`
		Note    string `json:"note,omitempty"`
	}
	var refs []refRes
	rdirs, _ := filepath.Glob(filepath.Join(o.Verif, "refactors", "*"))
	sort.Strings(rdirs)
	nRef, nSilent := 0, 0
	for _, d := range rdirs {
		pb, err := os.ReadFile(filepath.Join(d, "patch.diff"))
		if err != nil {
			continue
		}
		touches := false
		for _, l := range strings.Split(string(pb), "\n") {
			if strings.HasPrefix(l, "+++ b/") && anchors[strings.TrimPrefix(l, "+++ b/")] {
				touches = true
			}
		}
		if !touches {
			continue
		}
		rr := refRes{ID: filepath.Base(d)}
		ov, err := overlayFromPatch(o.Repo, string(pb))
		if err != nil {
			rr.Note = "patch does not apply to the current tree: " + err.Error()
			refs = append(refs, rr)
			continue
		}
		rr.Applied = true
		nRef++
		vs, err := runRulesOn(prop, o, nil, ov, 0)
		switch {
		case err != nil:
			rr.Note = "could not be analysed: " + err.Error()
			rep.Broken("refactoring " + rr.ID + ": " + err.Error())
		case len(vs.viol) > 0:
			rr.Note = fmt.Sprintf("FALSE ALARM: %s %s %s", vs.viol[0].Rule, vs.viol[0].Function, vs.viol[0].Construct)
			rep.Broken("behaviour-preserving refactoring " + rr.ID + " is reported as a violation (false alarm): " + vs.viol[0].Rule + " " + vs.viol[0].Function + ": " + vs.viol[0].Construct)
		case len(vs.broken) > 0:
			rr.Note = "undecided: " + vs.broken[0]
			rep.Broken("behaviour-preserving refactoring " + rr.ID + " leaves a rule undecided: " + vs.broken[0])
		default:
			rr.Silent = true
			nSilent++
		}
		refs = append(refs, rr)
	}
	rep.Extra["refactorings"] = refs
	rep.Extra["refactorings_applied"] = nRef
	rep.Extra["refactorings_silent"] = nSilent
}

// anchorFiles: the files named in the property's anchors (properties.jsonl).
func anchorFiles(verif, id string) map[string]bool {
	out := map[string]bool{}
	b, err := os.ReadFile(filepath.Join(verif, "properties.jsonl"))
	if err != nil {
		return out
	}
	for _, line := range strings.Split(string(b), "\n") {
		var p struct {
			ID      string `json:"id"`
			Anchors struct {
				Files []string `json:"files"`
			} `json:"anchors"`
		}
		if json.Unmarshal([]byte(line), &p) == nil && p.ID == id {
			for _, f := range p.Anchors.Files {
				out[f] = true
			}
		}
	}
	return out
}

func firstN(s []string, n int) []string {
	if len(s) > n {
		return s[:n]
	}
	return s
}

// overlayFromPatch applies a unified diff to the current files of repo in memory.
func overlayFromPatch(repo, patch string) (map[string][]byte, error) {
	out := map[string][]byte{}
	lines := strings.Split(patch, "\n")
	i := 0
	for i < len(lines) {
		if !strings.HasPrefix(lines[i], "+++ ") {
			i++
			continue
		}
		name := strings.TrimPrefix(lines[i], "+++ ")
		name = strings.TrimPrefix(strings.Fields(name)[0], "b/")
		i++
		path := filepath.Join(repo, name)
		var src []string
		if cur, ok := out[path]; ok {
			src = strings.Split(string(cur), "\n")
		} else {
			b, err := os.ReadFile(path)
			if err != nil {
				return nil, err
			}
			src = strings.Split(string(b), "\n")
		}
		offset := 0
		for i < len(lines) && strings.HasPrefix(lines[i], "@@") {
			// @@ -a,b +c,d @@
			hdr := lines[i]
			i++
			parts := strings.Fields(hdr)
			if len(parts) < 3 {
				return nil, fmt.Errorf("bad hunk header %q", hdr)
			}
			old := strings.TrimPrefix(parts[1], "-")
			startS := strings.Split(old, ",")[0]
			start, err := strconv.Atoi(startS)
			if err != nil {
				return nil, fmt.Errorf("bad hunk header %q", hdr)
			}
			var before, after []string
			for i < len(lines) {
				l := lines[i]
				if strings.HasPrefix(l, "@@") || strings.HasPrefix(l, "diff ") || strings.HasPrefix(l, "--- ") {
					break
				}
				if strings.HasPrefix(l, "\\") {
					i++
					continue
				}
				if l == "" && i == len(lines)-1 {
					i++
					continue
				}
				switch {
				case strings.HasPrefix(l, "+"):
					after = append(after, l[1:])
				case strings.HasPrefix(l, "-"):
					before = append(before, l[1:])
				default:
					t := l
					if strings.HasPrefix(t, " ") {
						t = t[1:]
					}
					before = append(before, t)
					after = append(after, t)
				}
				i++
			}
			// locate `before` near start-1+offset
			pos := -1
			want := start - 1 + offset
			for delta := 0; delta <= 200 && pos < 0; delta++ {
				for _, cand := range []int{want + delta, want - delta} {
					if cand >= 0 && cand+len(before) <= len(src) && equalLines(src[cand:cand+len(before)], before) {
						pos = cand
						break
					}
				}
			}
			if pos < 0 {
				return nil, fmt.Errorf("hunk at %s:%d does not match", name, start)
			}
			ns := append([]string{}, src[:pos]...)
			ns = append(ns, after...)
			ns = append(ns, src[pos+len(before):]...)
			offset += len(after) - len(before)
			src = ns
		}
		out[path] = []byte(strings.Join(src, "\n"))
	}
	if len(out) == 0 {
		return nil, fmt.Errorf("no file sections in patch")
	}
	return out, nil
}

func equalLines(a, b []string) bool {
	if len(a) != len(b) {
		return false
	}
	for i := range a {
		if a[i] != b[i] {
			return false
		}
	}
	return true
}
