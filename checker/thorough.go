package main

func runThorough(rep *Report, prop *Property, o RunOpts) {}
