package main

import (
	"fmt"
	"go/token"
	"go/types"
	"sort"
	"strings"

	"golang.org/x/tools/go/ssa"
)

func init() {
	register(&Property{
		ID:    "C18",
		Title: "XOR metric, bucket index and closeness orders obey their laws",
		Decided: "C18.1 every key of the closeness comparators (AddrMaybeId.CloserThan, the K-nearest less function, NodeAddrPort.Compare) is one projection applied to the left element and to the right element, in that order; the three-way adaptors return -1 on less(l,r), +1 on less(r,l), else 0; int160 Cmp scans bytes from index 0 upward over the whole array and returns -1 on the first l<r, +1 on the first l>r; " +
			"C18.2 key sequences: CloserThan = [ID unknown (known first), distance to target (only when both IDs are known), address, port]; K-nearest = [distance of the element's ID to the construction-time target, address tie-break]; " +
			"C18.3 totality by coverage: on every path on which the earlier keys have not already decided, CloserThan applies the address and port keys, so two candidates compare equal only if ID presence, ID, address and port agree; the K-nearest order always applies its address tie-break; " +
			"C18.6 nothing reachable from a closeness comparator draws randomness or reads the clock, and every maphash seed used inside one is a value captured from outside the comparison, so comparing the same pair twice gives the same answer; " +
			"C18.4 Xor writes every byte i of the result as a[i]^b[i]; Distance passes its two operands to Xor; bucketIndex = 160 - BitLen(root xor id) behind the root-ID guard; randomIdInBucket copies bits [0,i) from the root and stores the negation of bit i.",
		NotDecided: "the metric and order laws as statements about all values (antisymmetry/transitivity of the composed order, big.Int BitLen arithmetic, SetBit/GetBit masks), which follow from the decided shapes only together with the semantics of multiless, netip.Addr.Compare and math/big.",
		Assume: []string{
			"github.com/anacrolix/multiless: keys are applied lexicographically in call order; Bool orders false before true; Ok() reports whether an earlier key already decided; Lazy defers a sub-chain",
			"netip.Addr.Compare and integer comparison are total orders",
		},
		Rules: []*Rule{
			{ID: "C18.1", Doc: "orientation and symmetry of comparator keys; adaptors; int160 Cmp", Floor: 12, Run: c18r1},
			{ID: "C18.2", Doc: "key sequences", Floor: 6, Run: c18r2},
			{ID: "C18.3", Doc: "totality by coverage", Floor: 4, Run: c18r3},
			{ID: "C18.4", Doc: "Xor / Distance / bucketIndex / randomIdInBucket shapes", Floor: 6, Run: c18r4},
			{ID: "C18.6", Doc: "comparators are deterministic functions of their operands: the tie-break hash is seeded from outside the comparison", Floor: 3, Run: c18r6},
			{ID: "C18.5", Doc: "the K-nearest container trims only from the far end and only above K (shared with C02.4)", Floor: 6, Run: c02r4},
		},
	})
}

type cmpAnchor struct {
	fn   *ssa.Function
	l, r *Term
	name string
}

func (w *World) knnLess() *ssa.Function {
	newFn := w.P.Func("k-nearest-nodes.New")
	var less *ssa.Function
	for _, a := range newFn.AnonFuncs {
		if len(a.Params) == 2 && isBoolType(a.Signature.Results().At(0).Type()) {
			less = a
		}
	}
	if less == nil {
		broken("k-nearest-nodes.New has no less closure")
	}
	return less
}

func (w *World) closenessComparators() []cmpAnchor {
	ct := w.P.Func("(types.AddrMaybeId).CloserThan")
	less := w.knnLess()
	nap := w.P.Func("(krpc.NodeAddrPort).Compare")
	return []cmpAnchor{
		{ct, w.TS.Of(ct.Params[0]), w.TS.Of(ct.Params[1]), "CloserThan"},
		{less, w.TS.Of(less.Params[0]), w.TS.Of(less.Params[1]), "K-nearest less"},
		{nap, w.TS.Of(nap.Params[0]), w.TS.Of(nap.Params[1]), "NodeAddrPort.Compare"},
	}
}

// checkKNearestComparator (C02.3): first key of the K-nearest order is distance to the construction
// target, left element first.
func (w *World) checkKNearestComparator(rr *RuleRun, t *trav) {
	less := w.knnLess()
	l, r := w.TS.Of(less.Params[0]), w.TS.Of(less.Params[1])
	target := w.ParamTerm(t.knnNew, "target")
	paths := w.comparatorPaths(less)
	if len(paths) == 0 {
		rr.Oblige(shortFuncName(less), "K-nearest comparator understood", w.P.Pos(less.Pos()), false, "no exit path")
	}
	for _, p := range paths {
		if p.Err != "" {
			rr.Broken("K-nearest comparator shape not recognised: %s", p.Err)
			continue
		}
		if len(p.Keys) == 0 {
			rr.At(w, p.Ret, "K-nearest order has a distance key", false, "no keys")
			continue
		}
		k := p.Keys[0]
		ok, proj, why := w.keyOriented(k, l, r)
		rr.At(w, p.Ret, "first key of the K-nearest order is oriented (left element first, same projection)", ok, why+" projection "+trunc(proj, 160))
		isDist := k.L.Op == OpCall && suffixName(k.L) == "Distance" && len(k.L.Args) == 2 && termEq(k.L.Args[1], target) && k.L.Args[0].Contains(l) && strings.Contains(k.L.Args[0].String(), ".ID")
		rr.At(w, p.Ret, "first key of the K-nearest order is the XOR distance of the element's ID to the construction-time target", isDist, "left operand "+trunc(k.L.String(), 200))
	}
}

func c18r1(w *World, rr *RuleRun) {
	for _, ca := range w.closenessComparators() {
		paths := w.comparatorPaths(ca.fn)
		if len(paths) == 0 {
			rr.Oblige(shortFuncName(ca.fn), ca.name+" understood", w.P.Pos(ca.fn.Pos()), false, "no exit path")
		}
		seen := map[string]bool{}
		for _, p := range paths {
			if p.Err != "" {
				rr.Broken("%s: comparator shape not recognised: %s", ca.name, p.Err)
				continue
			}
			for i, k := range p.Keys {
				ok, proj, why := w.keyOriented(k, ca.l, ca.r)
				id := fmt.Sprintf("%d|%s|%v", i, proj, ok)
				if seen[id] {
					continue
				}
				seen[id] = true
				rr.At(w, p.Ret, fmt.Sprintf("%s key %d is one projection applied to l then r", ca.name, i+1), ok, why+" projection "+trunc(proj, 160))
			}
		}
	}
	// three-way adaptors: whatever concrete comparer is handed to the sorted containers
	ads := w.sortedMapComparers()
	if len(ads) < 2 {
		rr.Broken("three-way adaptors handed to immutable.NewSortedMap: found %d, expected at least 2", len(ads))
	}
	for _, fn := range ads {
		w.checkAdaptor(rr, fn)
	}
	w.checkInt160Cmp(rr)
}

// sortedMapComparers: the Compare methods of the concrete types converted to immutable.Comparer at
// NewSortedMap call sites in the library (found by call and type, not by name).
func (w *World) sortedMapComparers() []*ssa.Function {
	var out []*ssa.Function
	seen := map[*ssa.Function]bool{}
	for _, f := range w.P.LibFuncs {
		for _, b := range f.Blocks {
			for _, ins := range b.Instrs {
				c, ok := ins.(*ssa.Call)
				if !ok {
					continue
				}
				cal := c.Call.StaticCallee()
				if cal == nil || cal.Pkg == nil && cal.Origin() == nil {
					continue
				}
				o := cal
				if o.Origin() != nil {
					o = o.Origin()
				}
				if o.Name() != "NewSortedMap" || o.Pkg == nil || !strings.HasSuffix(o.Pkg.Pkg.Path(), "benbjohnson/immutable") || len(c.Call.Args) == 0 {
					continue
				}
				mi, ok := c.Call.Args[0].(*ssa.MakeInterface)
				if !ok {
					broken(fmt.Sprintf("%s: comparer handed to NewSortedMap is not a concrete value", shortFuncName(f)))
				}
				ms := w.P.SSA.MethodSets.MethodSet(mi.X.Type())
				var fn *ssa.Function
				for i := 0; i < ms.Len(); i++ {
					if ms.At(i).Obj().Name() == "Compare" {
						fn = w.P.SSA.MethodValue(ms.At(i))
					}
				}
				if fn == nil || len(fn.Blocks) == 0 {
					broken(fmt.Sprintf("%s: comparer type %s has no analysable Compare", shortFuncName(f), mi.X.Type()))
				}
				if !seen[fn] {
					seen[fn] = true
					out = append(out, fn)
				}
			}
		}
	}
	return out
}

// checkAdaptor: Compare(l, r) returns -1 under less(l,r), +1 under ¬less(l,r) ∧ less(r,l), 0 under both false.
func (w *World) checkAdaptor(rr *RuleRun, fn *ssa.Function) {
	np := len(fn.Params)
	if np < 3 {
		rr.Broken("adaptor %s has unexpected arity", shortFuncName(fn))
		return
	}
	l, r := w.TS.Of(fn.Params[np-2]), w.TS.Of(fn.Params[np-1])
	// lessFact: alt knows sign for a boolean call whose first two element operands are (a, b)
	lessFact := func(alt *Alt, a, b *Term) (bool, bool) {
		for k, t := range alt.terms {
			if k[0] != 'b' {
				continue
			}
			var args []*Term
			switch t.Op {
			case OpCall:
				args = t.Args
			case OpDyn:
				args = t.Args[1:]
			default:
				continue
			}
			if len(args) >= 2 && termEq(args[0], a) && termEq(args[1], b) {
				return alt.facts[k], true
			}
		}
		return false, false
	}
	ff := w.FE.analysisFor(fn)
	saw := map[string]bool{}
	for _, ex := range ff.exits {
		for _, alt := range ex.st {
			v := w.FE.Resolve(alt, ex.ret.Results[0])
			lr, haveLR := lessFact(alt, l, r)
			rl, haveRL := lessFact(alt, r, l)
			switch {
			case v.IsConst("-1"):
				saw["-1"] = true
				rr.At(w, ex.ret, "adaptor returns -1 exactly under less(l, r)", haveLR && lr, fmt.Sprintf("less(l,r) known=%v value=%v", haveLR, lr))
			case v.IsConst("1"):
				saw["1"] = true
				rr.At(w, ex.ret, "adaptor returns +1 under ¬less(l, r) ∧ less(r, l)", haveLR && !lr && haveRL && rl, fmt.Sprintf("less(l,r)=%v/%v less(r,l)=%v/%v", haveLR, lr, haveRL, rl))
			case v.IsConst("0"):
				saw["0"] = true
				rr.At(w, ex.ret, "adaptor returns 0 only when neither is less", haveLR && !lr && haveRL && !rl, fmt.Sprintf("less(l,r)=%v/%v less(r,l)=%v/%v", haveLR, lr, haveRL, rl))
			default:
				rr.At(w, ex.ret, "adaptor returns one of -1, 0, +1", false, "returns "+v.String())
			}
		}
	}
	for _, c := range []string{"-1", "0", "1"} {
		if !saw[c] {
			rr.Oblige(shortFuncName(fn), "adaptor can return "+c, w.P.Pos(fn.Pos()), false, "no such return")
		}
	}
}

// rangeIndexOver: idx is the induction value of a `for i := range <array of length n>` loop
// (phi starting at -1, incremented by one, compared with n); returns n.
func rangeIndexOver(idx ssa.Value) (int64, bool) {
	bo, ok := idx.(*ssa.BinOp)
	if !ok || bo.Op != token.ADD {
		return 0, false
	}
	phi, ok := bo.X.(*ssa.Phi)
	if !ok {
		return 0, false
	}
	if c, ok := ConstInt(bo.Y); !ok || c != 1 {
		return 0, false
	}
	start := false
	for _, e := range phi.Edges {
		if e == ssa.Value(bo) {
			continue
		}
		if c, ok := ConstInt(e); ok && c == -1 {
			start = true
		} else {
			return 0, false
		}
	}
	if !start || bo.Referrers() == nil {
		return 0, false
	}
	for _, r := range *bo.Referrers() {
		if cmp, ok := r.(*ssa.BinOp); ok && cmp.Op == token.LSS && cmp.X == ssa.Value(bo) {
			if n, ok := ConstInt(cmp.Y); ok {
				return n, true
			}
		}
	}
	return 0, false
}

func (w *World) checkInt160Cmp(rr *RuleRun) {
	fn := w.P.Func("(int160.T).Cmp")
	bits := w.P.Field("int160", "T", "bits")
	arrLen, _ := arrayLen(bits.Type())
	l, r := w.TS.Of(fn.Params[0]), w.TS.Of(fn.Params[1])
	// alternative whole-array form
	ff := w.FE.analysisFor(fn)
	elem := func(t *Term) (*Term, *Term, bool) { // t = X.bits[I] -> (X, I)
		if t.Op == OpIndex && isFieldTerm(t.Args[0], bits) {
			return t.Args[0].Args[0], t.Args[1], true
		}
		return nil, nil, false
	}
	// ltFact: alt has (a.bits[I] < b.bits[I]) with given sign, same I; returns I
	ltFact := func(alt *Alt, a, b *Term, sign bool) (*Term, bool) {
		for k, t := range alt.terms {
			if k[0] != 'b' || alt.facts[k] != sign || t.Op != OpBin || t.Name != "<" {
				continue
			}
			xa, ia, ok1 := elem(t.Args[0])
			xb, ib, ok2 := elem(t.Args[1])
			if ok1 && ok2 && termEq(xa, a) && termEq(xb, b) && termEq(ia, ib) {
				return ia, true
			}
		}
		return nil, false
	}
	saw := map[string]bool{}
	for _, ex := range ff.exits {
		for _, alt := range ex.st {
			v := w.FE.Resolve(alt, ex.ret.Results[0])
			if x, y, ok := threeWay(v); ok {
				// bytes.Compare(l.bits[:], r.bits[:])
				full := func(s, e *Term) bool {
					return s.Op == OpSlice && isFieldTerm(s.Args[0], bits) && termEq(s.Args[0].Args[0], e) && s.Args[1].IsConst("-") && s.Args[2].IsConst("-")
				}
				saw["-1"], saw["0"], saw["1"] = true, true, true
				rr.At(w, ex.ret, "Cmp compares the whole byte arrays, left operand first", full(x, l) && full(y, r), "returns "+trunc(v.String(), 160))
				continue
			}
			switch {
			case v.IsConst("-1"):
				saw["-1"] = true
				_, ok := ltFact(alt, l, r, true)
				rr.At(w, ex.ret, "Cmp returns -1 at the first byte with l < r", ok, "facts {"+trunc(strings.Join(alt.Facts(), " ∧ "), 300)+"}")
			case v.IsConst("1"):
				saw["1"] = true
				_, ok := ltFact(alt, r, l, true)
				rr.At(w, ex.ret, "Cmp returns +1 at the first byte with l > r", ok, "facts {"+trunc(strings.Join(alt.Facts(), " ∧ "), 300)+"}")
			case v.IsConst("0"):
				saw["0"] = true
				// loop exhausted: ¬(i' < len)
				ok := alt.Has("b", false, func(t *Term) bool {
					if t.Op != OpBin || t.Name != "<" {
						return false
					}
					n, isC := constOf(t.Args[1])
					return isC && n == arrLen
				})
				rr.At(w, ex.ret, fmt.Sprintf("Cmp returns 0 only after all %d bytes were scanned", arrLen), ok, "facts {"+trunc(strings.Join(alt.Facts(), " ∧ "), 300)+"}")
			default:
				rr.Broken("int160 Cmp: unrecognised return %s", trunc(v.String(), 120))
			}
		}
	}
	for _, c := range []string{"-1", "0", "1"} {
		if !saw[c] {
			rr.Oblige(shortFuncName(fn), "Cmp can return "+c, w.P.Pos(fn.Pos()), false, "no such return")
		}
	}
	// every indexed read of the operands uses an ascending range index over the whole array, and the
	// scan continues to the next byte only when the current bytes are equal
	n := 0
	eachInstr([]*ssa.Function{fn}, func(_ *ssa.Function, ins ssa.Instruction) {
		ia, ok := ins.(*ssa.IndexAddr)
		if !ok || fieldOfAddr(ia.X) != bits {
			return
		}
		n++
		ln, isRange := rangeIndexOver(ia.Index)
		rr.At(w, ins, "Cmp indexes the operands with an ascending index covering the whole array", isRange && ln == arrLen, fmt.Sprintf("range bound %d, array length %d", ln, arrLen))
	})
	for _, b := range fn.Blocks {
		for si, s := range b.Succs {
			if !isLoopHeader(s) || !s.Dominates(b) {
				continue
			}
			st := w.FE.StateOnEdge(b, si)
			ok := len(st) > 0
			for _, alt := range st {
				_, a := ltFact(alt, l, r, false)
				_, c := ltFact(alt, r, l, false)
				if !a || !c {
					ok = false
				}
			}
			rr.At(w, b.Instrs[len(b.Instrs)-1], "Cmp moves to the next byte only when the current bytes are equal", ok, "back-edge facts "+trunc(st.String(), 300))
		}
	}
	_ = types.Typ
}

func c18r2(w *World, rr *RuleRun) {
	ct := w.P.Func("(types.AddrMaybeId).CloserThan")
	l, r := w.TS.Of(ct.Params[0]), w.TS.Of(ct.Params[1])
	target := w.ParamTerm(ct, "target")
	idF := w.P.Field("types", "AddrMaybeId", "Id")
	addrF := w.P.Field("types", "AddrMaybeId", "Addr")
	okTerm := func(e *Term) string { return FieldTerm(e, idF).String() + ".Ok" }
	for _, p := range w.comparatorPaths(ct) {
		if p.Err != "" {
			rr.Broken("CloserThan: %s", p.Err)
			continue
		}
		if len(p.Keys) == 0 {
			rr.At(w, p.Ret, "CloserThan has keys", false, "")
			continue
		}
		// key 1: !Id.Ok (false first = known first)
		k0 := p.Keys[0]
		ok0 := k0.Kind == "bool" && k0.L.Op == OpNot && k0.L.Args[0].String() == okTerm(l) && k0.R.Op == OpNot && k0.R.Args[0].String() == okTerm(r)
		rr.At(w, p.Ret, "CloserThan ranks known IDs first: key 1 is Bool(!l.Id.Ok, !r.Id.Ok)", ok0, "key 1: "+k0.Kind+" "+trunc(k0.L.String(), 80)+" / "+trunc(k0.R.String(), 80))
		// distance key: present iff both known; must be key 2
		bothKnown := alt2(p.Alt, okTerm(l), true) && alt2(p.Alt, okTerm(r), true)
		hasDist := false
		for i, k := range p.Keys {
			isDist := k.Kind == "cmp" && suffixName(k.L) == "Distance" && len(k.L.Args) == 2 && termEq(k.L.Args[1], target) && k.L.Args[0].Contains(l) && strings.Contains(k.L.Args[0].String(), ".Id.Value")
			if isDist {
				hasDist = true
				rr.At(w, p.Ret, "distance key is key 2 and only used when both IDs are known", i == 1 && bothKnown, fmt.Sprintf("position %d, both IDs known on this path: %v", i+1, bothKnown))
			}
		}
		if bothKnown && !hasDist {
			rr.At(w, p.Ret, "when both IDs are known the second key is XOR distance to the target", false, "no distance key on a path where both IDs are known")
		}
		// address keys come after
		for i, k := range p.Keys {
			if k.L.Contains(FieldTerm(l, addrF)) && i == 0 {
				rr.At(w, p.Ret, "address keys come after ID keys", false, "address key first")
			}
		}
	}
	// K-nearest: [distance to construction target, address tie-break]
	less := w.knnLess()
	kl := w.TS.Of(less.Params[0])
	for _, p := range w.comparatorPaths(less) {
		if p.Err != "" {
			rr.Broken("K-nearest less: %s", p.Err)
			continue
		}
		okSeq := len(p.Keys) >= 2 && suffixName(p.Keys[0].L) == "Distance"
		tie := false
		for _, k := range p.Keys[1:] {
			if w.mentionsElem(k.L, kl) && strings.Contains(w.projection(k.L, kl), ".Addr") {
				tie = true
			}
		}
		rr.At(w, p.Ret, "K-nearest key sequence is [distance to target, address tie-break]", okSeq && tie, fmt.Sprintf("%d keys", len(p.Keys)))
	}
}

func alt2(a *Alt, boolTerm string, sign bool) bool {
	v, ok := a.facts["b:"+boolTerm]
	return ok && v == sign
}

func c18r3(w *World, rr *RuleRun) {
	ct := w.P.Func("(types.AddrMaybeId).CloserThan")
	l := w.TS.Of(ct.Params[0])
	addrF := w.P.Field("types", "AddrMaybeId", "Addr")
	for _, p := range w.comparatorPaths(ct) {
		if p.Err != "" {
			continue
		}
		hasAddr, hasPort := false, false
		for _, k := range p.Keys {
			if !k.L.Contains(FieldTerm(l, addrF)) {
				continue
			}
			s := k.L.String()
			// the steps between the element's Addr field and the compared value must not identify
			// distinct addresses (Unmap, To4, As16 ... merge the 4-byte and the mapped form of a host)
			lossy := ""
			for x := k.L; x != nil && x.Op == OpCall && len(x.Args) > 0; x = x.Args[0] {
				switch suffixName(x) {
				case "Addr", "Port", "String", "Compare":
				default:
					lossy = suffixName(x)
				}
				if isFieldTerm(x.Args[0], addrF) {
					break
				}
			}
			if lossy != "" {
				rr.At(w, p.Ret, "the address key distinguishes every two different addresses", false, "the key goes through "+lossy+"(), which maps different addresses to one value: "+trunc(s, 120))
				continue
			}
			if strings.Contains(s, ".Addr(") || strings.HasSuffix(suffixName(k.L), "Addr") {
				hasAddr = true
			}
			if strings.Contains(s, ".Port(") || suffixName(k.L) == "Port" {
				hasPort = true
			}
		}
		// decided earlier: a fact Ok(<chain>) = true on this path
		decided := p.Alt.Has("b", true, func(t *Term) bool { return t.Op == OpCall && isMultiless(t.Name) && suffixName(t) == "Ok" })
		rr.At(w, p.Ret, "address and port keys apply on every path where the ID keys have not decided", (hasAddr && hasPort) || decided,
			fmt.Sprintf("address key %v, port key %v, earlier keys known to have decided (Ok()=true) %v", hasAddr, hasPort, decided))
		if hasAddr || hasPort {
			// they must be guarded by exactly "not decided" (otherwise harmless), nothing to add
		}
	}
	// K-nearest: tie-break unconditional (Lazy sub-chain is part of every path)
	less := w.knnLess()
	kl := w.TS.Of(less.Params[0])
	for _, p := range w.comparatorPaths(less) {
		if p.Err != "" {
			continue
		}
		tie := false
		for _, k := range p.Keys {
			if strings.Contains(w.projection(k.L, kl), ".Addr") {
				tie = true
			}
		}
		rr.At(w, p.Ret, "K-nearest order applies its address tie-break on every path", tie, "")
	}
	// coverage of the compared types' fields
	idF := w.P.Field("types", "AddrMaybeId", "Id")
	cover := map[*types.Var]bool{}
	for _, p := range w.comparatorPaths(ct) {
		for _, k := range p.Keys {
			for fv := range fieldsOfProjection(k.L) {
				cover[fv] = true
			}
		}
	}
	rr.Oblige(shortFuncName(ct), "CloserThan's keys read both fields of AddrMaybeId (Id and Addr)", w.P.Pos(ct.Pos()), cover[idF] && cover[addrF], fmt.Sprintf("Id read: %v, Addr read: %v", cover[idF], cover[addrF]))
}

func c18r4(w *World, rr *RuleRun) {
	bits := w.P.Field("int160", "T", "bits")
	arrLen, _ := arrayLen(bits.Type())
	xor := w.P.Func("(*int160.T).Xor")
	a, b := w.ParamTerm(xor, "a"), w.ParamTerm(xor, "b")
	me := w.TS.Of(xor.Params[0])
	n := 0
	eachInstr([]*ssa.Function{xor}, func(_ *ssa.Function, ins ssa.Instruction) {
		st, ok := ins.(*ssa.Store)
		if !ok || fieldOfAddr(st.Addr) != bits {
			return
		}
		n++
		ia, _ := st.Addr.(*ssa.IndexAddr)
		okIdx := false
		var idx *Term
		if ia != nil {
			ln, isRange := rangeIndexOver(ia.Index)
			okIdx = isRange && ln == arrLen && termEq(w.TS.Of(ia.X), &Term{Op: OpAddr, Args: []*Term{FieldTerm(me, bits)}})
			idx = w.TS.Of(ia.Index)
		}
		rr.At(w, ins, "Xor writes every byte of the receiver (range over the whole array)", okIdx, "")
		v := w.TS.Of(st.Val)
		okVal := false
		if v.Op == OpBin && v.Name == "^" && idx != nil {
			want := func(p *Term) string {
				return (&Term{Op: OpIndex, Args: []*Term{FieldTerm(p, bits), idx}}).String()
			}
			x, y := v.Args[0].String(), v.Args[1].String()
			okVal = (x == want(a) && y == want(b)) || (x == want(b) && y == want(a))
		}
		rr.At(w, ins, "byte i of the result is a[i] ^ b[i]", okVal, "stored "+trunc(v.String(), 160))
	})
	if n == 0 {
		rr.Oblige(shortFuncName(xor), "Xor writes the receiver's bytes", w.P.Pos(xor.Pos()), false, "no store")
	}
	// Distance (function and method) hand their two operands to Xor
	for _, name := range []string{"int160.Distance", "(int160.T).Distance"} {
		fn := w.P.Func(name)
		for _, site := range w.CallsIn(fn, xor, false) {
			c := callInstrCommon(site)
			x, y := w.TS.Of(c.Args[1]), w.TS.Of(c.Args[2])
			p0, p1 := w.TS.Of(fn.Params[0]), w.TS.Of(fn.Params[1])
			addr := func(p *Term) string { return (&Term{Op: OpAddr, Args: []*Term{p}}).String() }
			ok := (x.String() == addr(p0) && y.String() == addr(p1)) || (x.String() == addr(p1) && y.String() == addr(p0))
			rr.At(w, site, "Distance xors its two operands", ok, "Xor("+x.String()+", "+y.String()+")")
			// result is the xor receiver
			okRet := false
			for _, bb := range fn.Blocks {
				for _, ins := range bb.Instrs {
					if ret, isR := ins.(*ssa.Return); isR && len(ret.Results) == 1 {
						if al := allocOfLoad(ret.Results[0]); al != nil && c.Args[0] == ssa.Value(al) {
							okRet = true
						}
					}
				}
			}
			rr.At(w, site, "Distance returns the value Xor wrote", okRet, "")
		}
	}
	// bucketIndex = 160 - BitLen(root ^ id), behind the root guard
	bi := w.P.Func("(*table).bucketIndex")
	rootID := w.P.Field("", "table", "rootID")
	idp := w.ParamTerm(bi, "id")
	tbl := w.TS.Of(bi.Params[0])
	ff := w.FE.analysisFor(bi)
	for _, ex := range ff.exits {
		for _, alt := range ex.st {
			v := w.FE.Resolve(alt, ex.ret.Results[0])
			okShape := false
			det := "returns " + trunc(v.String(), 160)
			if v.Op == OpBin && v.Name == "-" && v.Args[0].IsConst(fmt.Sprint(arrLen*8)) && suffixName(v.Args[1]) == "BitLen" {
				// the BitLen receiver is a local cell whose only initialiser is Xor(&root, &id)
				recv := v.Args[1].Args[0]
				if recv.Op == OpLocal {
					if al, ok := recv.Obj.(*ssa.Alloc); ok {
						rec := w.cellRecipe(al, idp)
						rootS := (&Term{Op: OpAddr, Args: []*Term{FieldTerm(tbl, rootID)}}).String()
						want1 := "Xor(" + rootS + ",&(" + hole + "))"
						want2 := "Xor(&(" + hole + ")," + rootS + ")"
						okShape = strings.HasPrefix(rec, want1) || strings.HasPrefix(rec, want2)
						det += " cell recipe " + rec
					}
				}
			}
			rr.At(w, ex.ret, "bucketIndex = 160 - BitLen(rootID xor id)", okShape, det)
			// guard: id ≠ rootID on this path
			guard := alt.Has("b", false, func(t *Term) bool {
				return t.Op == OpBin && t.Name == "==" && ((termEq(t.Args[0], idp) && isFieldTerm(t.Args[1], rootID)) || (termEq(t.Args[1], idp) && isFieldTerm(t.Args[0], rootID)))
			})
			rr.At(w, ex.ret, "bucketIndex is computed only for id ≠ rootID", guard, "")
		}
	}
	// randomIdInBucket
	rib := w.P.Func("randomIdInBucket")
	root := w.ParamTerm(rib, "rootId")
	bidx := w.ParamTerm(rib, "bucketIndex")
	neg, copies := 0, 0
	eachInstr([]*ssa.Function{rib}, func(_ *ssa.Function, ins ssa.Instruction) {
		c := callInstrCommon(ins)
		if c == nil {
			return
		}
		o := calleeObj(c)
		if o == nil || o.Name() != "SetBit" || len(c.Args) != 3 {
			return
		}
		idx := w.TS.Of(c.Args[1])
		val := w.TS.Of(c.Args[2])
		isGet := func(t *Term) (*Term, bool) {
			if t.Op == OpCall && suffixName(t) == "GetBit" && len(t.Args) == 2 {
				rv := t.Args[0]
				if rv.Op == OpAddr {
					rv = rv.Args[0]
				}
				if termEq(rv, root) {
					return t.Args[1], true
				}
			}
			return nil, false
		}
		if val.Op == OpNot {
			gi, ok := isGet(val.Args[0])
			neg++
			okN := ok && termEq(gi, bidx) && termEq(idx, bidx)
			rr.At(w, ins, "bit bucketIndex of the random ID is the negation of the root's bit bucketIndex", okN, "SetBit("+idx.String()+", "+trunc(val.String(), 120)+")")
			// not inside the copy loop
			rr.At(w, ins, "the differing bit is set after the prefix copy (outside the loop)", !blockInCycle(ins.Block()), "")
			return
		}
		gi, ok := isGet(val)
		copies++
		// index is a loop counter running over [0, bucketIndex)
		bounded := w.counterBelow(c.Args[1], bidx)
		rr.At(w, ins, "prefix bits [0, bucketIndex) are copied from the root, same index on both sides", ok && termEq(gi, idx) && bounded, "SetBit("+trunc(idx.String(), 80)+", "+trunc(val.String(), 120)+") bounded by bucketIndex: "+fmt.Sprint(bounded))
	})
	if neg != 1 || copies < 1 {
		rr.Oblige(shortFuncName(rib), "randomIdInBucket copies a prefix and negates exactly one bit", w.P.Pos(rib.Pos()), false, fmt.Sprintf("%d negated bits, %d copy sites", neg, copies))
	}
}

// counterBelow: idx is a loop counter that starts at a constant ≥ 0, steps by one, and is < bound
// whenever the loop body runs. Two SSA shapes: the classic range form (phi from -1, idx = phi+1
// compared with the bound at the loop head) and the rotated form go/ssa emits for `for i := range n`
// (phi from c0 guarded by `c0 < n` on entry, back edge guarded by `phi+1 < n`).
func (w *World) counterBelow(idx ssa.Value, bound *Term) bool {
	lssBound := func(v ssa.Value) bool {
		if v.Referrers() == nil {
			return false
		}
		for _, r := range *v.Referrers() {
			if cmp, ok := r.(*ssa.BinOp); ok && cmp.Op == token.LSS && cmp.X == v && termEq(w.TS.Of(cmp.Y), bound) {
				return true
			}
		}
		return false
	}
	switch x := idx.(type) {
	case *ssa.BinOp:
		if x.Op != token.ADD {
			return false
		}
		ph, ok := x.X.(*ssa.Phi)
		if !ok {
			return false
		}
		if c, ok := ConstInt(x.Y); !ok || c != 1 {
			return false
		}
		for _, e := range ph.Edges {
			if e == ssa.Value(x) {
				continue
			}
			if c, ok := ConstInt(e); !ok || c != -1 {
				return false
			}
		}
		return lssBound(x)
	case *ssa.Phi:
		var inc *ssa.BinOp
		for i, e := range x.Edges {
			if bo, ok := e.(*ssa.BinOp); ok && bo.Op == token.ADD && bo.X == ssa.Value(x) {
				if c, ok := ConstInt(bo.Y); ok && c == 1 {
					inc = bo
					continue
				}
			}
			c0, ok := ConstInt(e)
			if !ok || c0 < 0 {
				return false
			}
			// entry edge: predecessor ends in `if c0 < bound` with the loop as true successor
			pred := x.Block().Preds[i]
			ifi, ok := pred.Instrs[len(pred.Instrs)-1].(*ssa.If)
			if !ok || pred.Succs[0] != x.Block() {
				return false
			}
			cmp, ok := ifi.Cond.(*ssa.BinOp)
			if !ok || cmp.Op != token.LSS || !termEq(w.TS.Of(cmp.Y), bound) {
				return false
			}
			if c, ok := ConstInt(cmp.X); !ok || c != c0 {
				return false
			}
		}
		return inc != nil && lssBound(inc)
	}
	return false
}

// c18r6: a comparator consulted many times by a sorted container must answer consistently: it may
// not draw a fresh hash seed, random number or timestamp per comparison.
func c18r6(w *World, rr *RuleRun) {
	nondet := func(o *types.Func) bool {
		if o == nil || o.Pkg() == nil {
			return false
		}
		switch o.Pkg().Path() {
		case "hash/maphash":
			return o.Name() == "MakeSeed"
		case "math/rand", "math/rand/v2", "crypto/rand":
			return true
		case "time":
			return o.Name() == "Now" || o.Name() == "Since" || o.Name() == "Until"
		}
		return false
	}
	for _, ca := range w.closenessComparators() {
		reach := w.CG.Reach([]*ssa.Function{ca.fn}, func(e *Edge) bool { return w.P.IsLib(e.Callee) })
		var fns []*ssa.Function
		seen := map[*ssa.Function]bool{}
		for f := range reach {
			for _, g := range append([]*ssa.Function{f}, allAnon(f)...) {
				if !seen[g] {
					seen[g] = true
					fns = append(fns, g)
				}
			}
		}
		sort.Slice(fns, func(i, j int) bool { return fns[i].Pos() < fns[j].Pos() })
		inCmp := func(f *ssa.Function) bool { return seen[f] }
		var bad []string
		nSeed := 0
		eachInstr(fns, func(f *ssa.Function, ins ssa.Instruction) {
			c := callInstrCommon(ins)
			if c == nil {
				return
			}
			o := calleeObj(c)
			if nondet(o) {
				bad = append(bad, o.Pkg().Name()+"."+o.Name()+" at "+w.P.InstrPos(ins))
			}
			if o != nil && o.Pkg() != nil && o.Pkg().Path() == "hash/maphash" && o.Name() == "SetSeed" && len(c.Args) == 2 {
				nSeed++
				// the seed value must originate outside the comparison: a captured variable or a global
				v := c.Args[1]
				for i := 0; i < 4; i++ {
					if u, ok := v.(*ssa.UnOp); ok && u.Op == token.MUL {
						v = u.X
						continue
					}
					break
				}
				outside := false
				switch x := v.(type) {
				case *ssa.FreeVar:
					// bound where the closure is made: that site must itself be outside the comparison
					outside = x.Parent() == ca.fn || !inCmp(x.Parent().Parent())
					if x.Parent() != ca.fn && inCmp(x.Parent().Parent()) {
						// nested closure capturing from the comparator: follow one level
						if b, ok := w.TS.fvBind[x]; ok {
							if u, ok := b.(*ssa.UnOp); ok {
								b = u.X
							}
							_, isFV := b.(*ssa.FreeVar)
							outside = isFV
						}
					}
				case *ssa.Global:
					outside = true
				}
				rr.At(w, ins, ca.name+": the hash seed is a value captured from outside the comparison", outside, "seed "+trunc(w.TS.Of(c.Args[1]).String(), 100))
			}
		})
		rr.Oblige(shortFuncName(ca.fn), ca.name+" reaches no source of randomness or time", w.P.Pos(ca.fn.Pos()), len(bad) == 0, fmt.Sprintf("%d functions; %s", len(fns), strings.Join(bad, ", ")))
	}
}
