package main

// Engine G: comparator shapes. A comparator's result term (per path alternative, with phis resolved
// by the fact engine's bindings) is parsed as a lexicographic chain of keys. Each key is a pair of
// operand terms (what is computed from the left element, what from the right one). Rules then ask:
// is every key the same projection applied to l and to r, in that order; which fields do the
// projections read; on which paths are which keys present.
//
// Recognised front ends: github.com/anacrolix/multiless chains (New, Bool, Cmp, Int64, Int,
// EagerOrdered, Lazy; finished by Less / MustLess / OrderingInt), three-way calls (x.Cmp(y),
// x.Compare(y), bytes.Compare(x, y)) optionally compared with 0, and direct `<`.

import (
	"fmt"
	"go/types"
	"sort"
	"strings"

	"golang.org/x/tools/go/ssa"
)

type cmpKeyT struct {
	Kind string // bool | cmp | ordered
	L, R *Term
}

type cmpPath struct {
	Alt  *Alt
	Ret  *ssa.Return
	Raw  *Term
	Keys []cmpKeyT
	Err  string // non-empty when the shape was not recognised
}

const hole = "◇"

func isMultiless(name string) bool { return strings.Contains(name, "anacrolix/multiless") }

func suffixName(t *Term) string {
	if t == nil || (t.Op != OpCall) {
		return ""
	}
	n := t.Name
	if i := strings.LastIndex(n, "."); i >= 0 {
		n = n[i+1:]
	}
	if j := strings.Index(n, "["); j >= 0 {
		n = n[:j]
	}
	return n
}

// threeWay: t is a three-way comparison x ? y; returns (x, y).
func threeWay(t *Term) (*Term, *Term, bool) {
	if t == nil || t.Op != OpCall {
		return nil, nil, false
	}
	switch suffixName(t) {
	case "Cmp", "Compare":
		if len(t.Args) == 2 {
			return t.Args[0], t.Args[1], true
		}
	}
	return nil, nil, false
}

// chainKeys parses a multiless computation term.
func (w *World) chainKeys(t *Term, depth int) ([]cmpKeyT, string) {
	if depth > 6 {
		return nil, "chain too deep"
	}
	if t == nil || t.Op != OpCall || !isMultiless(t.Name) {
		return nil, "not a multiless computation: " + trunc(t.String(), 120)
	}
	switch suffixName(t) {
	case "New":
		return nil, ""
	case "Bool", "Int64", "Int", "Uint32", "Uint64", "EagerOrdered", "EagerSameLess":
		if len(t.Args) != 3 {
			return nil, "unexpected arity in " + suffixName(t)
		}
		pre, err := w.chainKeys(t.Args[0], depth+1)
		if err != "" {
			return nil, err
		}
		kind := "ordered"
		if suffixName(t) == "Bool" {
			kind = "bool"
		}
		return append(pre, cmpKeyT{kind, t.Args[1], t.Args[2]}), ""
	case "Cmp":
		if len(t.Args) != 2 {
			return nil, "unexpected arity in Cmp"
		}
		pre, err := w.chainKeys(t.Args[0], depth+1)
		if err != "" {
			return nil, err
		}
		x, y, ok := threeWay(t.Args[1])
		if !ok {
			return nil, "Cmp operand is not a three-way comparison: " + trunc(t.Args[1].String(), 120)
		}
		return append(pre, cmpKeyT{"cmp", x, y}), ""
	case "Lazy":
		if len(t.Args) != 2 {
			return nil, "unexpected arity in Lazy"
		}
		pre, err := w.chainKeys(t.Args[0], depth+1)
		if err != "" {
			return nil, err
		}
		cl := t.Args[1]
		fn, _ := cl.Obj.(*ssa.Function)
		if cl.Op != OpClosure || fn == nil {
			return nil, "Lazy operand is not a closure literal"
		}
		ff := w.FE.analysisFor(fn)
		var sub []cmpKeyT
		n := 0
		for _, ex := range ff.exits {
			for _, a := range ex.st {
				n++
				ks, e := w.chainKeys(w.FE.Resolve(a, ex.ret.Results[0]), depth+1)
				if e != "" {
					return nil, e
				}
				sub = ks
			}
		}
		if n != 1 {
			return nil, fmt.Sprintf("lazy closure has %d return paths (1 supported)", n)
		}
		return append(pre, sub...), ""
	}
	return nil, "unrecognised multiless step " + suffixName(t)
}

// comparatorPaths analyses fn (a less / three-way function) and returns one entry per exit path.
func (w *World) comparatorPaths(fn *ssa.Function) []cmpPath {
	ff := w.FE.analysisFor(fn)
	var out []cmpPath
	for _, ex := range ff.exits {
		if len(ex.ret.Results) != 1 {
			continue
		}
		for _, a := range ex.st {
			t := w.FE.Resolve(a, ex.ret.Results[0])
			p := cmpPath{Alt: a, Ret: ex.ret, Raw: t}
			p.Keys, p.Err = w.parseComparatorResult(t)
			out = append(out, p)
		}
	}
	return out
}

func (w *World) parseComparatorResult(t *Term) ([]cmpKeyT, string) {
	// strip "x < 0"
	if t.Op == OpBin && t.Name == "<" && t.Args[1].IsConst("0") {
		if x, y, ok := threeWay(t.Args[0]); ok {
			return []cmpKeyT{{"cmp", x, y}}, ""
		}
		return nil, "unrecognised three-way operand"
	}
	if x, y, ok := threeWay(t); ok && !isMultiless(t.Name) {
		return []cmpKeyT{{"cmp", x, y}}, ""
	}
	if t.Op == OpCall && isMultiless(t.Name) {
		switch suffixName(t) {
		case "Less", "MustLess", "OrderingInt":
			if len(t.Args) == 1 {
				return w.chainKeys(t.Args[0], 0)
			}
		}
	}
	return nil, "unrecognised comparator result " + trunc(t.String(), 160)
}

// projection renders operand x with the element term e replaced by a hole; local hash cells and
// the like are rendered by the recipe of calls that initialise them.
func (w *World) projection(x, e *Term) string {
	s := x.Subst(map[string]*Term{e.String(): constTerm(hole)})
	out := s.String()
	// expand local cells
	locals := map[ssa.Value]bool{}
	rootLocals(s, locals)
	var names []string
	for v := range locals {
		if al, ok := v.(*ssa.Alloc); ok {
			rec := w.cellRecipe(al, e)
			lt := w.TS.Of(al)
			out = strings.ReplaceAll(out, lt.String(), "&cell{"+rec+"}")
			// the dereferenced form
			if lt.Op == OpLocal {
				out = strings.ReplaceAll(out, lt.Name, "cell{"+rec+"}")
			}
			names = append(names, rec)
		}
	}
	sort.Strings(names)
	return out
}

// cellRecipe: the ordered calls performed on a local cell (method name + argument projections).
func (w *World) cellRecipe(al *ssa.Alloc, e *Term) string {
	if al.Referrers() == nil {
		return ""
	}
	type call struct {
		pos int
		s   string
	}
	var cs []call
	for _, r := range *al.Referrers() {
		ci, ok := r.(ssa.CallInstruction)
		if !ok {
			continue
		}
		c := ci.Common()
		o := calleeObj(c)
		if o == nil {
			continue
		}
		var args []string
		for i, a := range c.Args {
			if i == 0 && a == ssa.Value(al) {
				continue
			}
			at := w.TS.Of(a).Subst(map[string]*Term{e.String(): constTerm(hole)})
			args = append(args, at.String())
		}
		cs = append(cs, call{ci.Block().Index*10000 + instrIndex(ci), o.Name() + "(" + strings.Join(args, ",") + ")"})
	}
	sort.Slice(cs, func(i, j int) bool { return cs[i].pos < cs[j].pos })
	var parts []string
	for _, c := range cs {
		parts = append(parts, c.s)
	}
	return strings.Join(parts, ";")
}

// mentionsElem: x mentions element term e, directly or through a local cell initialised from it.
func (w *World) mentionsElem(x, e *Term) bool {
	if x.Contains(e) {
		return true
	}
	locals := map[ssa.Value]bool{}
	rootLocals(x, locals)
	for v := range locals {
		if al, ok := v.(*ssa.Alloc); ok && strings.Contains(w.cellRecipe(al, e), hole) {
			return true
		}
	}
	return false
}

// keyOriented: key k applies one projection to l (left operand) and to r (right operand).
func (w *World) keyOriented(k cmpKeyT, l, r *Term) (bool, string, string) {
	pl := w.projection(k.L, l)
	pr := w.projection(k.R, r)
	if w.mentionsElem(k.L, r) {
		return false, pl, "left operand is computed from the right element: " + trunc(k.L.String(), 140)
	}
	if w.mentionsElem(k.R, l) {
		return false, pl, "right operand is computed from the left element: " + trunc(k.R.String(), 140)
	}
	if !strings.Contains(pl, hole) {
		return false, pl, "left operand does not depend on the left element: " + trunc(k.L.String(), 140)
	}
	if pl != pr {
		return false, pl, "operands are different projections: " + trunc(pl, 120) + "  vs  " + trunc(pr, 120)
	}
	return true, pl, ""
}

// fieldsOfProjection: struct fields read by the operand term.
func fieldsOfProjection(x *Term) map[*types.Var]bool {
	out := map[*types.Var]bool{}
	fieldVarsIn(x, out)
	return out
}
