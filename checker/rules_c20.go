package main

import (
	"fmt"
	"go/token"
	"go/types"
	"strings"

	"golang.org/x/tools/go/ssa"
)

// anchors shared by C19/C20/C14/C08: the socket write site(s) and the function that contains them.
type sendAnchors struct {
	writeTo    *types.Func       // net.PacketConn.WriteTo
	sites      []ssa.Instruction // invoke sites in library code
	limWait    *types.Func
	limAllow   *types.Func
	limAllowN  *types.Func
	cfgLimiter *types.Var // ServerConfig.SendLimiter
}

func (w *World) sendAnchors() *sendAnchors {
	a := &sendAnchors{}
	a.writeTo = w.P.ExtMethod("net", "PacketConn", "WriteTo")
	a.sites = w.AllCallsTo(w.P.LibFuncs, a.writeTo)
	a.limWait = w.P.ExtMethod("golang.org/x/time/rate", "Limiter", "Wait")
	a.limAllow = w.P.ExtMethod("golang.org/x/time/rate", "Limiter", "Allow")
	a.limAllowN = w.P.ExtMethod("golang.org/x/time/rate", "Limiter", "AllowN")
	a.cfgLimiter = w.P.Field("", "ServerConfig", "SendLimiter")
	return a
}

// isConfigLimiter: t is <X>.config.SendLimiter (a read of the configured limiter field).
func (a *sendAnchors) isConfigLimiter(t *Term) bool {
	return t != nil && t.Op == OpField && t.Obj == a.cfgLimiter
}

// acquired reports whether the alternative contains a successful limiter acquisition on the
// configured limiter, and which form.
func (a *sendAnchors) acquired(alt *Alt) (bool, string) {
	if alt.Has("n", false, func(t *Term) bool { return isCall(t, a.limWait) && len(t.Args) > 0 && a.isConfigLimiter(t.Args[0]) }) {
		return true, "Wait(ctx)=nil on config.SendLimiter"
	}
	if alt.Has("b", true, func(t *Term) bool { return isCall(t, a.limAllow) && len(t.Args) > 0 && a.isConfigLimiter(t.Args[0]) }) {
		return true, "Allow()=true on config.SendLimiter"
	}
	if alt.Has("b", true, func(t *Term) bool {
		return isCall(t, a.limAllowN) && len(t.Args) == 3 && a.isConfigLimiter(t.Args[0]) && t.Args[2].IsConst("1")
	}) {
		return true, "AllowN(t, 1)=true on config.SendLimiter"
	}
	return false, ""
}

// rateParam discovers, at a socket write site, the boolean parameter of the enclosing function whose
// falsity is the only excuse for writing without a limiter acquisition. Returns nil if every path
// acquires (no excuse needed) and an error text if some path neither acquires nor is excused.
func (a *sendAnchors) rateParams(w *World, site ssa.Instruction) ([]*ssa.Parameter, string) {
	fn := site.Parent()
	st := w.FE.StateBefore(site)
	var cands []*ssa.Parameter
	for _, p := range fn.Params {
		if isBoolType(p.Type()) {
			cands = append(cands, p)
		}
	}
	needExcuse := false
	for _, alt := range st {
		if ok, _ := a.acquired(alt); ok {
			continue
		}
		needExcuse = true
		var keep []*ssa.Parameter
		for _, p := range cands {
			if alt.HasKey("b", w.TS.Of(p), false) {
				keep = append(keep, p)
			}
		}
		cands = keep
		if len(cands) == 0 {
			return nil, "a path reaches the socket write with neither a limiter acquisition nor a false rate flag: {" + strings.Join(alt.Facts(), " ∧ ") + "}"
		}
	}
	if !needExcuse {
		return nil, ""
	}
	return cands, ""
}

func init() {
	register(&Property{
		ID:    "C20",
		Title: "Outbound traffic never exceeds the configured send budget",
		Decided: "C20.1 every socket write is dominated, on every path, by a successful acquisition (Wait(ctx)=nil or Allow()=true) on the configured limiter unless the caller's rate flag is false; one acquisition per write (no loop); " +
			"C20.2 replies and errors pass rate=true; C20.3 a query send is unrated only under the caller's explicit opt-out fields (NotAny, or NotFirst on the first write) and no library code sets those fields; " +
			"C20.4 a failed acquisition returns wrote=false with a non-nil error before the write, the give-back AllowN(-1) happens only after a write error on a rated path; one limiter object (config.SendLimiter, defaulted in NewServer).",
		NotDecided: "the token-bucket inequality itself (golang.org/x/time/rate is trusted), wall-clock windows, behaviour under actual load.",
		Assume:     []string{"rate.Limiter.Wait returns nil only after reserving one token; Allow returns true only after taking one token (external API table)"},
		Rules: []*Rule{
			{ID: "C20.1", Doc: "limiter acquisition dominates the socket write on rated paths", Floor: 3, Run: c20r1},
			{ID: "C20.2", Doc: "replies and errors are always rated", Floor: 2, Run: c20r2},
			{ID: "C20.3", Doc: "query sends are unrated only by explicit caller opt-out", Floor: 3, Run: c20r3},
			{ID: "C20.4", Doc: "failure paths: no write, wrote=false, error; give-back only on rated write error", Floor: 3, Run: c20r4},
		},
	})
}

func c20r1(w *World, rr *RuleRun) {
	a := w.sendAnchors()
	if len(a.sites) == 0 {
		rr.Broken("no net.PacketConn.WriteTo call site found in library code")
		return
	}
	for _, site := range a.sites {
		w.Require(rr, site, "PacketConn.WriteTo requires limiter acquisition or rate=false", func(alt *Alt) (bool, string) {
			if ok, how := a.acquired(alt); ok {
				return true, how
			}
			for _, p := range site.Parent().Params {
				if isBoolType(p.Type()) && alt.HasKey("b", w.TS.Of(p), false) {
					return true, "unrated by flag " + p.Name() + "=false"
				}
			}
			return false, "neither Wait()=nil nor Allow()=true on config.SendLimiter, nor an unrated flag"
		})
		// a consistent excuse flag must exist
		ps, err := a.rateParams(w, site)
		rr.At(w, site, "single rate flag excuses unrated writes", err == "", fmt.Sprintf("flag candidates: %v %s", paramNames(ps), err))
		if blockInCycle(site.Block()) {
			rr.At(w, site, "socket write not in a loop", false, "the write site is inside a loop: one acquisition could cover several writes")
		} else {
			rr.At(w, site, "socket write not in a loop", true, "block not on a cycle")
		}
		// acquisitions in the same function are not in loops either (one token per write)
		for _, obj := range []*types.Func{a.limWait, a.limAllow} {
			for _, c := range w.CallsIn(site.Parent(), obj, true) {
				rr.At(w, c, "limiter "+obj.Name()+" not in a loop", !blockInCycle(c.Block()), "")
				// acquisition must use the configured limiter
				lim := w.TS.Of(callInstrCommon(c).Args[0])
				rr.At(w, c, "limiter object is config.SendLimiter", a.isConfigLimiter(lim), "limiter operand: "+lim.String())
			}
		}
	}
	// one limiter: config.SendLimiter is written only in NewServer / config constructors (defaulting)
	for _, st := range w.FieldWrites(w.P.LibFuncs, a.cfgLimiter) {
		fn := shortFuncName(enclosingNamed(st.Parent()))
		ok := fn == "NewServer" || fn == "NewDefaultServerConfig"
		rr.At(w, st, "config.SendLimiter written only by constructors", ok, "writer: "+fn)
	}
	// non-nil after NewServer: the store in NewServer is under a nil test (defaulting)
	ns := w.P.Func("NewServer")
	found := false
	for _, st := range w.FieldWrites([]*ssa.Function{ns}, a.cfgLimiter) {
		found = true
		w.Require(rr, st, "NewServer defaults a nil SendLimiter", func(alt *Alt) (bool, string) {
			if alt.Has("n", false, func(t *Term) bool { return a.isConfigLimiter(t) }) {
				return true, "store guarded by SendLimiter == nil"
			}
			return false, "defaulting store not guarded by a nil test"
		})
	}
	if !found {
		rr.Oblige("NewServer", "NewServer defaults a nil SendLimiter", w.P.Pos(ns.Pos()), false, "no store to config.SendLimiter in NewServer: a nil limiter would crash or bypass rate limiting")
	}
}

func paramNames(ps []*ssa.Parameter) []string {
	var out []string
	for _, p := range ps {
		out = append(out, p.Name())
	}
	return out
}

// sendFuncAndFlag returns the function containing the (single) socket write and the index of its
// rate flag parameter.
func (a *sendAnchors) sendFuncAndFlag(w *World) (*ssa.Function, int, string) {
	if len(a.sites) == 0 {
		return nil, -1, "no socket write site"
	}
	fn := a.sites[0].Parent()
	ps, err := a.rateParams(w, a.sites[0])
	if err != "" {
		return fn, -1, err
	}
	if len(ps) == 0 {
		return fn, -1, "" // every path acquires
	}
	for i, p := range fn.Params {
		if p == ps[0] {
			return fn, i, ""
		}
	}
	return fn, -1, "flag not a parameter"
}

func c20r2(w *World, rr *RuleRun) {
	a := w.sendAnchors()
	sendFn, flag, err := a.sendFuncAndFlag(w)
	if sendFn == nil || err != "" {
		rr.Broken("cannot identify the send routine's rate flag: %s", err)
		return
	}
	reply := w.P.Func("(*Server).reply")
	sendError := w.P.Func("(*Server).sendError")
	for _, owner := range []*ssa.Function{reply, sendError} {
		calls := w.CallsInRegion(owner, sendFn)
		if len(calls) == 0 {
			rr.Oblige(shortFuncName(owner), "reply/error goes through the rated send routine", w.P.Pos(owner.Pos()), false, "no call of "+shortFuncName(sendFn)+" inside "+shortFuncName(owner))
			continue
		}
		for _, c := range calls {
			if flag < 0 {
				rr.At(w, c, "rate argument is true", true, "send routine acquires on every path")
				continue
			}
			arg := callInstrCommon(c).Args[flag]
			t := w.TS.Of(arg)
			rr.At(w, c, "rate argument is true", t.IsConst("true"), "rate argument: "+t.String())
		}
	}
}

func c20r3(w *World, rr *RuleRun) {
	a := w.sendAnchors()
	sendFn, flag, err := a.sendFuncAndFlag(w)
	if sendFn == nil || err != "" {
		rr.Broken("cannot identify the send routine's rate flag: %s", err)
		return
	}
	notAny := w.P.Field("", "QueryRateLimiting", "NotAny")
	notFirst := w.P.Field("", "QueryRateLimiting", "NotFirst")
	reply := w.P.Func("(*Server).reply")
	sendError := w.P.Func("(*Server).sendError")
	n := 0
	for _, e := range w.CG.CallersOf(sendFn) {
		if within(e.Caller, reply) || within(e.Caller, sendError) {
			continue
		}
		if !w.P.IsLib(e.Caller) {
			continue
		}
		n++
		site := e.Site
		if flag < 0 {
			rr.At(w, site, "query send rate flag", true, "send routine acquires on every path")
			continue
		}
		arg := callInstrCommon(site).Args[flag]
		w.Require(rr, site, "query send is unrated only under NotAny / NotFirst-on-first-write", func(alt *Alt) (bool, string) {
			t := w.FE.Resolve(alt, arg)
			// fold negations of constants: !(first && NotFirst) resolves to !false / !true on a path
			for t.Op == OpNot && len(t.Args) == 1 && (t.Args[0].IsConst("true") || t.Args[0].IsConst("false")) {
				if t.Args[0].IsConst("true") {
					t = constTerm("false")
				} else {
					t = constTerm("true")
				}
			}
			firstWrite := func() bool {
				return alt.Has("b", true, func(x *Term) bool {
					return x.Op == OpBin && x.Name == "==" && (x.Args[0].IsConst("0") || x.Args[1].IsConst("0"))
				})
			}
			switch {
			case t.IsConst("true"):
				return true, "rated"
			case t.IsConst("false"):
				if alt.Has("b", true, func(x *Term) bool { return x.Op == OpField && x.Obj == notAny }) {
					return true, "unrated under RateLimiting.NotAny"
				}
				if alt.Has("b", true, func(x *Term) bool { return x.Op == OpField && x.Obj == notFirst }) && firstWrite() {
					return true, "unrated under RateLimiting.NotFirst on the first write (writes == 0)"
				}
				return false, "rate flag is false without the caller's NotAny opt-out (or NotFirst on the first write)"
			case t.Op == OpNot && t.Args[0].Op == OpField && t.Args[0].Obj == notFirst:
				// rate == !NotFirst: unrated only if NotFirst; must be the first write
				if alt.Has("b", true, func(x *Term) bool {
					return x.Op == OpBin && x.Name == "==" && (x.Args[0].IsConst("0") || x.Args[1].IsConst("0"))
				}) {
					return true, "rate = !NotFirst on the first write (writes == 0)"
				}
				return false, "rate = !NotFirst on a path that is not restricted to the first write"
			}
			return false, "rate flag has an unrecognised origin: " + t.String()
		})
	}
	if n == 0 {
		rr.Oblige(shortFuncName(sendFn), "query send path exists", "-", false, "no caller of the send routine other than reply/sendError found")
	}
	// "first write" means something only if the counter the policy reads moves with the writes: the
	// function that performs a send also advances that very cell (not a private copy published later)
	for _, e := range w.CG.CallersOf(sendFn) {
		if within(e.Caller, reply) || within(e.Caller, sendError) || !w.P.IsLib(e.Caller) {
			continue
		}
		f := e.Caller
		var cells []*Term
		scope := append([]*ssa.Function{f}, allAnon(f)...)
		eachInstr(scope, func(_ *ssa.Function, ins ssa.Instruction) {
			if bo, ok := ins.(*ssa.BinOp); ok && bo.Op == token.EQL {
				if c, isC := ConstInt(bo.Y); isC && c == 0 {
					if ld, isLd := bo.X.(*ssa.UnOp); isLd && ld.Op == token.MUL {
						cells = append(cells, w.TS.Of(ld.X))
					}
				}
			}
		})
		if len(cells) == 0 {
			continue // the policy does not look at a write counter here
		}
		advanced := false
		eachInstr(scope, func(_ *ssa.Function, ins ssa.Instruction) {
			st, ok := ins.(*ssa.Store)
			if !ok {
				return
			}
			at := w.TS.Of(st.Addr)
			for _, cell := range cells {
				if termEq(at, cell) {
					v := w.TS.Of(st.Val)
					if v.Op == OpBin && v.Name == "+" && v.Args[1].IsConst("1") {
						advanced = true
					}
				}
			}
		})
		rr.At(w, e.Site, "the write counter the send policy reads is advanced by the send itself", advanced, "counter "+trunc(cells[0].String(), 80))
	}
	// no library code sets the opt-out fields
	for _, fv := range []*types.Var{notAny, notFirst} {
		ws := w.FieldWrites(w.P.LibFuncs, fv)
		if len(ws) == 0 {
			rr.Oblige("(library)", "no library writer of QueryRateLimiting."+fv.Name(), "-", true, "0 stores in library code")
		}
		for _, st := range ws {
			ok := false
			det := "store of a non-constant"
			if s, isStore := st.(*ssa.Store); isStore {
				t := w.TS.Of(s.Val)
				det = "stores " + t.String()
				ok = t.IsConst("false")
			}
			rr.At(w, st, "no library writer of QueryRateLimiting."+fv.Name(), ok, det)
		}
	}
}

func c20r4(w *World, rr *RuleRun) {
	a := w.sendAnchors()
	sendFn, flag, err := a.sendFuncAndFlag(w)
	if sendFn == nil || err != "" {
		rr.Broken("cannot identify the send routine: %s", err)
		return
	}
	// returns on failed acquisition
	ff := w.FE.analysisFor(sendFn)
	cnt := 0
	for _, ex := range ff.exits {
		for _, alt := range ex.st {
			failedWait := alt.Has("n", true, func(t *Term) bool { return isCall(t, a.limWait) })
			failedAllow := alt.Has("b", false, func(t *Term) bool { return isCall(t, a.limAllow) })
			if !failedWait && !failedAllow {
				continue
			}
			cnt++
			okW, okE := false, false
			det := ""
			if len(ex.ret.Results) >= 2 {
				wt := w.FE.Resolve(alt, ex.ret.Results[0])
				et := w.FE.Resolve(alt, ex.ret.Results[1])
				okW = wt.IsConst("false") || alt.HasKey("b", wt, false)
				okE = isCallNamed(et, "errors.New") || isCallNamed(et, "fmt.Errorf") || alt.HasKey("n", et, true)
				det = fmt.Sprintf("returns wrote=%s err=%s", wt, et)
			}
			rr.At(w, ex.ret, "failed acquisition returns wrote=false and an error", okW && okE, det)
			// and did not write
			wrote := alt.Has("n", true, func(t *Term) bool { c, _ := stripExtract(t); return isCall(c, a.writeTo) }) ||
				alt.Has("n", false, func(t *Term) bool { c, _ := stripExtract(t); return isCall(c, a.writeTo) })
			rr.At(w, ex.ret, "failed acquisition path performed no socket write", !wrote, "")
		}
	}
	if cnt == 0 {
		rr.Oblige(shortFuncName(sendFn), "failed acquisition returns wrote=false and an error", "-", false, "no return path with a failed acquisition found (acquisition result ignored?)")
	}
	// give-back only under rated write error
	for _, c := range w.AllCallsTo(w.P.LibFuncs, a.limAllowN) {
		cc := callInstrCommon(c)
		if len(cc.Args) == 3 {
			if n, ok := ConstInt(cc.Args[2]); ok && n > 0 {
				continue // an acquisition, judged by C20.1
			}
		}
		// the token is handed back at the time of the hand-back: the time argument is a clock reading
		// taken after the failed write, not one taken before the acquisition (which would rewind the
		// limiter and credit the waited interval twice)
		if len(cc.Args) == 3 {
			okNow := false
			if tc, isCall := cc.Args[1].(*ssa.Call); isCall {
				if o := calleeObj(tc.Common()); o != nil && o.Pkg() != nil && o.Pkg().Path() == "time" && o.Name() == "Now" {
					okNow = PrecededBy(tc, func(i ssa.Instruction) bool {
						for _, ws := range a.sites {
							if i == ws {
								return true
							}
						}
						return false
					})
				}
			}
			rr.At(w, c, "the give-back is booked at a clock reading taken after the failed write", okNow, "time argument "+trunc(w.TS.Of(cc.Args[1]).String(), 80))
		}
		w.Require(rr, c, "AllowN give-back only after a write error on a rated path", func(alt *Alt) (bool, string) {
			rated := flag < 0
			if flag >= 0 && c.Parent() == sendFn && alt.HasKey("b", w.TS.Of(sendFn.Params[flag]), true) {
				rated = true
			}
			werr := alt.Has("n", true, func(t *Term) bool { cc, i := stripExtract(t); return i == 1 && isCall(cc, a.writeTo) })
			if rated && werr {
				return true, "rate=true ∧ WriteTo error ≠ nil"
			}
			return false, fmt.Sprintf("rated=%v writeError=%v", rated, werr)
		})
	}
}
