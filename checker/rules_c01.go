package main

import (
	"fmt"
	"go/token"
	"go/types"
	"reflect"
	"sort"
	"strings"

	"golang.org/x/tools/go/ssa"
)

func init() {
	register(&Property{
		ID:    "C01",
		Title: "No inbound datagram can crash, wedge or silence the node",
		Decided: "C01.1 every dereference of a wire-optional pointer (bencode-tagged pointer/interface fields of krpc structs, and module functions that may return nil pointers derived from them) is dominated by a nil test on every path; " +
			"C01.2 every index/slice of wire bytes in the decoders and the packet entry is guarded by a length fact or by a recover that turns the panic into an error; " +
			"C01.3 lock pairing for all mutex classes (no exit holding a lock, no unlock of an unheld lock); C01.4 no lock re-entry on any call path; " +
			"C01.5 the packet-reader path (serve → processPacket → handlers, synchronous edges) performs no blocking operation besides the socket read and mutex acquisition; " +
			"C01.6 census of explicit panic sites reachable from the packet path: each is discharged by a visible guard or listed as an assumed invariant (inherited by helpers extracted from the listed functions); integer divisions on that path have a divisor that is a non-zero constant, a field that only ever receives non-zero constants, or non-zero by a path fact; C01.9 nothing under the krpc Marshal* methods constructs an error, so MustMarshal in the unrecovered reply goroutine cannot be tripped by a field value taken from the wire; " +
			"C01.8 bucketIndex (which panics on the root ID) is called only under id ≠ rootID / id ≠ own ID established in the caller or its callers; Server.addNode reaches table.addNode (whose refusal it turns into a panic under Server.mu) only with room in the bucket: Len < k, or the eviction loop stopped because its callback saw Len < k; " +
			"C01.7 no library code performs a blocking operation (channel send/receive, blocking select, WaitGroup/limiter wait, sleep, socket I/O) while Server.mu is held in any mode, on any call path - the reader needs that lock for every datagram. C01.2 also covers the query handler and its closures (the statistics goroutine included) and every encoding/binary fixed-width accessor; C01.13 a candidate popped for a query leaves the frontier on every path, so the fan-out loop cannot spin under the lookup lock (shared with C03.10).",
		NotDecided: "absence of all panics (integer arithmetic, allocation, third-party code such as bencode/immutable/log), liveness under load, scheduler fairness, behaviour of user hooks.",
		Assume: []string{
			"user hooks (OnQuery, OnAnnouncePeer, PeerStore, Store, Conn) do not call back into the Server while it holds Server.mu and do not mutate the *krpc.Msg they are shown",
			"bencode.Unmarshal leaves absent optional fields nil and never yields a partially initialised value",
		},
		Rules: []*Rule{
			{ID: "C01.1", Doc: "wire-optional pointers nil-checked before use", Floor: 20, Run: c01r1},
			{ID: "C01.2", Doc: "wire bytes never indexed unguarded", Floor: 8, Run: c01r2},
			{ID: "C01.3", Doc: "lock pairing on all exits", Floor: 20, Run: c01r3},
			{ID: "C01.4", Doc: "no lock re-entry", Floor: 20, Run: c01r4},
			{ID: "C01.5", Doc: "reader path never blocks", Floor: 5, Run: c01r5},
			{ID: "C01.6", Doc: "panic-site census on the packet path", Floor: 8, Run: c01r6},
			{ID: "C01.7", Doc: "nothing blocks while Server.mu is held", Floor: 8, Run: c01r7},
			{ID: "C01.9", Doc: "the unrecovered reply goroutine cannot be crashed through the encoder: krpc Marshal* never construct an error of their own (shared with C15.6)", Floor: 10, Run: c15r6},
			{ID: "C01.10", Doc: "a fresh address gets its answer: the received source address is never rewritten in place (shared with C08.8)", Floor: 1, Run: c08r8},
			{ID: "C01.11", Doc: "no send on a closed channel: the announce's peers channel is closed only after the traversal reported Stopped, i.e. after every delivering query has returned (shared with C16.3)", Floor: 8, Run: c16r3},
			{ID: "C01.12", Doc: "the node cannot be silenced through the handler: every path of a query ends in exactly one datagram unless passive, vetoed or badly tokened (shared with C08.3)", Floor: 8, Run: c08r3},
			{ID: "C01.13", Doc: "a lookup cannot be made to spin under its lock: a candidate popped for a query leaves the frontier on every path, so each turn of the fan-out loop makes progress (shared with C03.10; a spinning lookup wedges Bootstrap, Announce and every API call that joins it)", Floor: 3, Run: c03r10},
			{ID: "C01.8", Doc: "the table's self-check panics are unreachable from wire data: room in the bucket before table.addNode; id ≠ rootID before bucketIndex", Floor: 5, Run: func(w *World, rr *RuleRun) { w.checkAddNodeRoom(rr); w.checkRootGuards(rr) }},
		},
	})
}

// wireOptionalFields: pointer- or interface-typed fields with a bencode tag in structs of package krpc.
func (w *World) wireOptionalFields() map[*types.Var]string {
	out := map[*types.Var]string{}
	pk := w.P.Pkg("krpc")
	sc := pk.Types.Scope()
	for _, n := range sc.Names() {
		tn, ok := sc.Lookup(n).(*types.TypeName)
		if !ok {
			continue
		}
		st, ok := tn.Type().Underlying().(*types.Struct)
		if !ok {
			continue
		}
		for i := 0; i < st.NumFields(); i++ {
			f := st.Field(i)
			tag := reflect.StructTag(st.Tag(i)).Get("bencode")
			if tag == "" {
				continue
			}
			switch f.Type().Underlying().(type) {
			case *types.Pointer:
				out[f] = tn.Name() + "." + f.Name()
			}
		}
	}
	return out
}

// mayReturnNil: module functions with a pointer result some return of which is a nil constant or a
// wire-optional field load ("derived optional pointers", e.g. Msg.SenderID, Msg.Error).
func (w *World) nilReturningFuncs(opt map[*types.Var]string) map[*ssa.Function]bool {
	out := map[*ssa.Function]bool{}
	for _, f := range w.P.LibFuncs {
		res := f.Signature.Results()
		if res.Len() != 1 {
			continue
		}
		if _, ok := res.At(0).Type().Underlying().(*types.Pointer); !ok {
			continue
		}
		for _, b := range f.Blocks {
			for _, ins := range b.Instrs {
				r, ok := ins.(*ssa.Return)
				if !ok || len(r.Results) != 1 {
					continue
				}
				vals := []ssa.Value{r.Results[0]}
				if phi, ok := r.Results[0].(*ssa.Phi); ok {
					vals = phi.Edges
				}
				for _, v := range vals {
					t := w.TS.Of(v)
					if t.IsConst("nil") {
						out[f] = true
					}
					if t.Op == OpField {
						if fv, ok := t.Obj.(*types.Var); ok && opt[fv] != "" {
							out[f] = true
						}
					}
				}
			}
		}
	}
	return out
}

// isOptionalValue: does v (a pointer value about to be dereferenced) come from a wire-optional source?
func (w *World) optionalSource(v ssa.Value, opt map[*types.Var]string, nilFns map[*ssa.Function]bool) (string, bool) {
	t := w.TS.Of(v)
	if t.Op == OpField {
		if fv, ok := t.Obj.(*types.Var); ok && opt[fv] != "" {
			return "wire-optional field " + opt[fv], true
		}
	}
	if t.Op == OpCall {
		if f := w.FE.calleeFunc(t); f != nil && nilFns[f] {
			return "result of " + shortFuncName(f) + " (may be nil)", true
		}
	}
	return "", false
}

func c01r1(w *World, rr *RuleRun) {
	opt := w.wireOptionalFields()
	nilFns := w.nilReturningFuncs(opt)
	var names []string
	for _, n := range opt {
		names = append(names, n)
	}
	sort.Strings(names)
	rr.rep.Extra["wire_optional_fields"] = names
	rr.rep.Extra["nil_returning_funcs"] = funcNamesSet(nilFns)
	if len(opt) < 8 {
		rr.Broken("only %d wire-optional fields found in package krpc (expected ≥ 8): %v", len(opt), names)
	}
	check := func(ins ssa.Instruction, ptr ssa.Value, how string) {
		src, ok := w.optionalSource(ptr, opt, nilFns)
		if !ok {
			return
		}
		w.Require(rr, ins, how+" of "+w.TS.Of(ptr).String()+" ("+src+") requires non-nil", func(alt *Alt) (bool, string) {
			t := w.FE.Resolve(alt, ptr)
			if alt.HasKey("n", t, true) {
				return true, "non-nil on this path"
			}
			if t.Op == OpAddr {
				return true, "address of a variable"
			}
			return false, "no nil test dominates the dereference"
		})
	}
	eachInstr(w.P.LibFuncs, func(fn *ssa.Function, ins ssa.Instruction) {
		switch ins := ins.(type) {
		case *ssa.FieldAddr:
			check(ins, ins.X, "field access")
		case *ssa.UnOp:
			if ins.Op == token.MUL {
				if _, isPtr := ins.X.Type().Underlying().(*types.Pointer); isPtr {
					check(ins, ins.X, "dereference")
				}
			}
		case *ssa.IndexAddr:
			if _, isPtr := ins.X.Type().Underlying().(*types.Pointer); isPtr {
				check(ins, ins.X, "array element access")
			}
		default:
			// passing a possibly-nil optional pointer to a module function that dereferences the
			// parameter unconditionally (one level)
			c := callInstrCommon(ins)
			if c == nil {
				return
			}
			for ai, a := range c.Args {
				if _, isPtr := a.Type().Underlying().(*types.Pointer); !isPtr {
					continue
				}
				src, ok := w.optionalSource(a, opt, nilFns)
				if !ok {
					continue
				}
				for _, e := range w.CG.SiteOut[ins] {
					if e.Callback {
						continue
					}
					pi := ai
					if c.IsInvoke() {
						pi = ai + 1
					}
					if pi >= len(e.Callee.Params) {
						continue
					}
					prm := e.Callee.Params[pi]
					if site := w.unguardedDerefOfParam(e.Callee, prm); site != nil {
						arg := a
						w.Require(rr, ins, "argument "+w.TS.Of(arg).String()+" ("+src+") passed to "+shortFuncName(e.Callee)+" which dereferences it", func(alt *Alt) (bool, string) {
							if alt.HasKey("n", w.FE.Resolve(alt, arg), true) {
								return true, "non-nil at the call"
							}
							return false, "callee dereferences parameter " + prm.Name() + " at " + w.P.InstrPos(site) + " without a nil test"
						})
					} else {
						rr.At(w, ins, "argument "+w.TS.Of(a).String()+" ("+src+") passed to "+shortFuncName(e.Callee), true, "callee tests parameter "+prm.Name()+" before use (or never dereferences it)")
					}
				}
			}
		}
	})
}

func funcNamesSet(m map[*ssa.Function]bool) []string {
	var out []string
	for f := range m {
		out = append(out, shortFuncName(f))
	}
	sort.Strings(out)
	return out
}

// unguardedDerefOfParam: an instruction in fn that dereferences prm on a path without nonnil(prm).
func (w *World) unguardedDerefOfParam(fn *ssa.Function, prm *ssa.Parameter) ssa.Instruction {
	pt := w.TS.Of(prm)
	var bad ssa.Instruction
	for _, b := range fn.Blocks {
		for _, ins := range b.Instrs {
			var x ssa.Value
			switch i := ins.(type) {
			case *ssa.FieldAddr:
				x = i.X
			case *ssa.UnOp:
				if i.Op == token.MUL {
					x = i.X
				}
			}
			if x == nil || !termEq(w.TS.Of(x), pt) {
				continue
			}
			st := w.FE.StateBefore(ins)
			for _, alt := range st {
				if !alt.HasKey("n", pt, true) {
					bad = ins
				}
			}
		}
	}
	return bad
}

// ---- C01.3 / C01.4 ------------------------------------------------------------------------------------

func c01r3(w *World, rr *RuleRun) {
	w.LK.Run()
	// one obligation per lock operation: it must be executed in a state where it is legal
	bad := map[ssa.Instruction]LockIssue{}
	for _, is := range w.LK.Issues {
		if is.Kind == "unlock-unheld" || is.Kind == "exit-held" || is.Kind == "defer-overflow" {
			bad[is.Ins] = is
		}
	}
	var ops []ssa.Instruction
	for ins := range w.LK.ops {
		ops = append(ops, ins)
	}
	sort.Slice(ops, func(i, j int) bool {
		return w.P.InstrPos(ops[i])+instrString(ops[i]) < w.P.InstrPos(ops[j])+instrString(ops[j])
	})
	for _, ins := range ops {
		oi := w.LK.ops[ins]
		if !w.P.IsLib(ins.Parent()) {
			continue
		}
		if oi.op != opUnlock && oi.op != opRUnlock {
			continue
		}
		st := w.LK.StatesAtExec(oi.class, ins)
		is, isBad := bad[ins]
		det := "executes in lock states " + statesString(st)
		if isBad {
			det += "; " + is.Kind + " (context " + is.Ctx + ")"
		}
		rr.At(w, ins, "release of "+w.LK.ClassName(oi.class)+" only while held", !isBad, det)
	}
	for _, is := range w.LK.Issues {
		if is.Kind == "exit-held" && w.P.IsLib(is.Fn) {
			rr.Oblige(shortFuncName(is.Fn), w.LK.ClassName(is.Class)+" released on every exit", w.P.Pos(is.Fn.Pos()), false, "a "+is.Ctx+" entry can return while still holding the lock")
		}
		if is.Kind == "defer-overflow" {
			rr.Broken("defer stack too deep in %s", shortFuncName(is.Fn))
		}
	}
	// roots exit unlocked: positive obligations per root that touches a class
	n := 0
	for _, c := range w.LK.Classes {
		for _, r := range w.LK.Roots {
			if !w.LK.touch[c][r] || !w.P.IsLib(r) {
				continue
			}
			ex := w.LK.sum[mkCtx(r, c, LS0, Env{})]
			ok := len(ex) == 1 && ex[LS0]
			if ok {
				n++
				rr.Oblige(shortFuncName(r), "API entry leaves "+w.LK.ClassName(c)+" unlocked", w.P.Pos(r.Pos()), true, "exit states "+statesString(ex))
			}
		}
	}
}

func c01r4(w *World, rr *RuleRun) {
	w.LK.Run()
	bad := map[ssa.Instruction]LockIssue{}
	for _, is := range w.LK.Issues {
		if is.Kind == "reentry" {
			bad[is.Ins] = is
		}
	}
	var ops []ssa.Instruction
	for ins := range w.LK.ops {
		ops = append(ops, ins)
	}
	sort.Slice(ops, func(i, j int) bool {
		return w.P.InstrPos(ops[i])+instrString(ops[i]) < w.P.InstrPos(ops[j])+instrString(ops[j])
	})
	for _, ins := range ops {
		oi := w.LK.ops[ins]
		if !w.P.IsLib(ins.Parent()) || (oi.op != opLock && oi.op != opRLock) {
			continue
		}
		st := w.LK.StatesAt(oi.class, ins)
		if st == nil {
			rr.ObligeTrivialAt(w, ins, "acquisition of "+w.LK.ClassName(oi.class)+" (unreachable from API roots)", true, "")
			continue
		}
		is, isBad := bad[ins]
		det := "acquired in lock states " + statesString(st)
		if isBad {
			det += fmt.Sprintf("; re-entry: already held (%s) on some call path", is.Ctx)
		}
		rr.At(w, ins, "acquisition of "+w.LK.ClassName(oi.class)+" never while already held", !isBad, det)
	}
}

// ---- C01.5 --------------------------------------------------------------------------------------------

func c01r5(w *World, rr *RuleRun) {
	pp := w.P.Func("(*Server).processPacket")
	reach := w.CG.Reach([]*ssa.Function{pp}, func(e *Edge) bool { return e.Mode != ModeGo })
	reachCtx := w.CG.ReachCtx([]*ssa.Function{pp}, w.TS, func(e *Edge) bool { return e.Mode != ModeGo })
	var fs []*ssa.Function
	for f := range reachCtx {
		fs = append(fs, f)
	}
	sort.Slice(fs, func(i, j int) bool { return fs[i].String() < fs[j].String() })
	rr.rep.Extra["reader_path_functions"] = len(fs)
	n := 0
	for _, f := range fs {
		for _, op := range w.LK.BlockingOps(f) {
			n++
			chain := strings.Join(w.CG.PathTo(reach, f), " → ")
			rr.At(w, op.Ins, "no blocking operation on the packet-reader path: "+op.What, false, "reached synchronously: "+chain)
		}
		// hooks invoked synchronously under the lock are listed (opaque; assumption)
	}
	// positive obligations: the asynchronous hand-offs that keep the reader non-blocking
	for _, f := range fs {
		for _, b := range f.Blocks {
			for _, ins := range b.Instrs {
				if g, ok := ins.(*ssa.Go); ok {
					// what the goroutine does may block; that is the point of the hand-off
					targets := funcNames(edgeCallees(w.CG.SiteOut[ins]))
					desc := "go " + strings.Join(targets, ",")
					if len(targets) == 0 {
						desc = "go " + w.TS.Of(g.Call.Value).String()
						if g.Call.IsInvoke() {
							desc = "go " + funcObjName(g.Call.Method)
						}
					}
					rr.At(w, ins, "slow work handed to a goroutine: "+desc, true, "asynchronous edge: not part of the reader path")
				}
			}
		}
	}
	// the serve loop itself: only the socket read may block
	serve := w.P.Func("(*Server).serve")
	for _, op := range w.LK.BlockingOps(serve) {
		rr.At(w, op.Ins, "serve loop blocks only on the socket read: "+op.What, op.What == "socket read", "")
	}
}

func edgeCallees(es []*Edge) []*ssa.Function {
	var out []*ssa.Function
	for _, e := range es {
		out = append(out, e.Callee)
	}
	return out
}

// ---- C01.7 --------------------------------------------------------------------------------------------

// c01r7: every potentially blocking operation in library code executes with Server.mu released, in
// every calling context the lock engine explored (API roots, goroutine roots, deferred execution).
func c01r7(w *World, rr *RuleRun) {
	w.LK.Run()
	mu := w.LK.ClassByName("Server.mu")
	for _, f := range w.P.LibFuncs {
		for _, op := range w.LK.BlockingOps(f) {
			st := w.LK.StatesAt(mu, op.Ins)
			if st == nil {
				rr.ObligeTrivialAt(w, op.Ins, op.What+" (function not reachable from an API or goroutine root)", true, "")
				continue
			}
			ok := len(st) == 1 && st[LS0]
			rr.At(w, op.Ins, op.What+" only with Server.mu released", ok, "Server.mu states at this point over all call paths: "+statesString(st))
		}
	}
}
