package main

// C01.6: census of explicit panic sites (panic calls, Must* helpers, unchecked type assertions)
// reachable from the packet path and from reply consumers.

import (
	"fmt"
	"go/token"
	"go/types"
	"sort"
	"strings"

	"golang.org/x/tools/go/ssa"
)

type panicSite struct {
	Ins  ssa.Instruction
	Kind string // panic | must | assert
	Desc string // message / callee / asserted type
}

func (w *World) panicSites(fn *ssa.Function) []panicSite {
	var out []panicSite
	for _, b := range fn.Blocks {
		if strings.HasPrefix(b.Comment, "rangefunc") {
			continue // compiler-synthesised range-over-func checks
		}
		for _, ins := range b.Instrs {
			switch i := ins.(type) {
			case *ssa.Panic:
				if !i.Pos().IsValid() {
					continue // synthetic
				}
				t := w.TS.Of(i.X)
				d := t.String()
				if t.Op == OpCall {
					d = t.Name + "(…)"
					if len(t.Args) > 0 && t.Args[0].Op == OpConst {
						d = t.Name + "(" + t.Args[0].Name + "…)"
					}
				}
				out = append(out, panicSite{ins, "panic", d})
			case *ssa.BinOp:
				if i.Op != token.QUO && i.Op != token.REM {
					continue
				}
				if bt, ok := i.Type().Underlying().(*types.Basic); !ok || bt.Info()&types.IsInteger == 0 {
					continue
				}
				if c, ok := ConstInt(i.Y); ok && c != 0 {
					continue
				}
				out = append(out, panicSite{ins, "div", "divisor " + trunc(w.TS.Of(i.Y).String(), 80)})
			case *ssa.TypeAssert:
				if !i.CommaOk {
					out = append(out, panicSite{ins, "assert", w.TS.Of(i.X).String() + ".(" + relTypeString(i.AssertedType) + ")"})
				}
			default:
				if c := callInstrCommon(ins); c != nil {
					if o := calleeObj(c); o != nil && strings.HasPrefix(o.Name(), "Must") && !isModPkgPath(pkgPathOfObj(o)) {
						out = append(out, panicSite{ins, "must", funcObjName(o)})
					}
				}
			}
		}
	}
	return out
}

func pkgPathOfObj(o *types.Func) string {
	if o.Pkg() == nil {
		return ""
	}
	return o.Pkg().Path()
}

// packetPathFuncs: functions reachable (any edge mode) from processPacket, plus everything
// reachable from any function that can (transitively) call Server.Query — the reply consumers.
func (w *World) packetPathFuncs() map[*ssa.Function]bool {
	out := map[*ssa.Function]bool{}
	pp := w.P.Func("(*Server).processPacket")
	query := w.P.Func("(*Server).Query")
	// upward closure of Query
	up := map[*ssa.Function]bool{query: true}
	stack := []*ssa.Function{query}
	for len(stack) > 0 {
		f := stack[len(stack)-1]
		stack = stack[:len(stack)-1]
		for _, e := range w.CG.In[f] {
			if !up[e.Caller] && w.P.IsLib(e.Caller) {
				up[e.Caller] = true
				stack = append(stack, e.Caller)
			}
		}
	}
	roots := []*ssa.Function{pp}
	for f := range up {
		roots = append(roots, f)
	}
	for f := range w.CG.ReachCtx(roots, w.TS, nil) {
		if w.P.IsLib(f) {
			out[f] = true
		}
	}
	return out
}

// assumedInvariant: explicit table of panic sites accepted as unreachable by an invariant the
// analysis does not see at the site. Key: function | kind | description prefix.
var assumedInvariant = []struct{ fn, kind, desc, reason string }{
	{"(*table).dropNode", "panic", `"missing id for addr"`, "address index and buckets move together (C05.1/C05.2 single writer + paired updates)"},
	{"(*table).dropNode", "panic", `"expected node in bucket"`, "same coupling invariant (C05.1/C05.2)"},
	{"(*table).bucketIndex", "panic", `"nobody puts the root ID in a bucket"`, "every caller excludes the root id first (C05.3 checks the guards at the call sites)"},
	{"(*table).randomIdForBucket", "panic", "fmt.Sprintf", "self-check of randomIdInBucket (C18.4 checks the bit construction); maintenance path only"},
	{"(*Server).addNode", "panic", "fmt.Sprintf", "table.addNode's three refusals are excluded by the guards in Server.addNode (C05.3)"},
	{"(tokenServer).createToken", "panic", "", "To16 of a socket source address is 16 bytes for every IPv4/IPv6 address"},
	{"addrIP", "panic", "fmt.Errorf", "only for non-UDP/TCP net.Addr implementations of a custom Conn"},
	{"addrPort", "panic", "fmt.Errorf", "only for non-UDP/TCP net.Addr implementations of a custom Conn"},
	{"(*Server).sendError$1", "panic", "", "marshalling a message built from library types only"},
	{"(*Server).makeQueryBytes", "panic", "", "marshalling a message built from library types only"},
	{"(*Server).reply$1", "must", "github.com/anacrolix/torrent/bencode.MustMarshal", "marshalling a reply built from library types; node lists are family-gated (C09.4) so the compact encoders' width assertion holds"},
	{"krpc.marshalBinarySlice", "panic", "fmt.Sprintf", "element width equals ElemSize by the size table (C15.1) and family gating (C09.4)"},
	{"(k-nearest-nodes.Type).Farthest", "panic", "", "called only when Full() (K ≥ 1 elements present)"},
	{"(containers.sortedSet).Next", "panic", `"next called on empty set"`, "called only under unqueried.Len() ≠ 0 (haveQuery)"},
	{"(*transactions.Dispatcher[*transaction]).Pop[*transaction]", "panic", "", "callers test Have(key) in the same critical section (C07.2)"},
	{"(*transactions.Dispatcher[*transaction]).Add[*transaction]", "panic", "", "transaction ids are issued uniquely under the issuer's lock (C07.4)"},
	{"(*int160.T).SetBytes", "panic", "", "all callers pass a slice of a 20-byte array or a fixed 20-byte string"},
	{"(*node).NodeInfo", "panic", "", "copy of a 20-byte id string"},
	{"krpc.IdFromString", "panic", "", "API helper; not fed from wire data"},
	{"(*Server).handleQuery", "must", "github.com/anacrolix/torrent/bencode.MustMarshal", "re-encoding a value that was stored after bencode.Marshal succeeded in bep44.Check"},
	{"bep44.CheckIncoming", "must", "github.com/anacrolix/torrent/bencode.MustMarshal", "both values passed Check (Marshal succeeded) before being compared"},
	{"(*bep44.Item).Target", "must", "github.com/anacrolix/torrent/bencode.MustMarshal", "Target is computed after Check's Marshal succeeded (Wrapper.Put) or on caller-supplied values (API)"},
	{"(*bep44.Put).Target", "must", "github.com/anacrolix/torrent/bencode.MustMarshal", "caller-supplied value (API)"},
	{"(*bep44.Put).Sign", "must", "github.com/anacrolix/torrent/bencode.MustMarshal", "caller-supplied value (API)"},
	{"bep44.bufferToSign", "must", "github.com/anacrolix/torrent/bencode.MustMarshal", "marshalling a []byte cannot fail"},
	{"validNodeAddr", "assert", "", "every caller passes the *net.UDPAddr produced by NodeAddrPort.UDP()/NodeAddr.UDP()"},
	{"(*Announce).announcePeer", "assert", "", "licensed by the DataFilter installed at the same traversal.Start (C16.2)"},
	{"exts/getput.Put$1$1", "assert", "", "licensed by the ClosestData normalisation in startGetTraversal's DoQuery (C16.2)"},
	{"(*krpc.Error).UnmarshalBencode$1", "assert", "", "recovered into an error by the deferred recover (C01.2)"},
	{"(*Server).serveUntilClosed", "panic", "", "socket read error while not closed: outside the datagram-content quantifier (Conn failure)"},
	{"ResolveHostPorts", "panic", "", "malformed built-in host:port constant; not datagram-driven"},
	{"bep44.NewItem", "assert", "", "ed25519 private key's Public() is an ed25519.PublicKey; API only"},
}

func lookupInvariant(fn string, ps panicSite) (string, bool) {
	for _, e := range assumedInvariant {
		if e.fn == fn && e.kind == ps.Kind && strings.HasPrefix(ps.Desc, e.desc) {
			return e.reason, true
		}
	}
	return "", false
}

// lookupInvariantUp: the table entry of the function itself, or - for an unexported helper - an
// entry of the same kind held by every one of its callers (a panic moved into an extracted helper
// keeps the invariant of the functions it was extracted from).
func (w *World) lookupInvariantUp(f *ssa.Function, ps panicSite, depth int) (string, bool) {
	if reason, ok := lookupInvariant(shortFuncName(f), ps); ok {
		return reason, true
	}
	if depth >= 2 || f.Parent() != nil || f.Object() == nil || f.Object().Exported() {
		return "", false
	}
	var reasons []string
	n := 0
	for _, e := range w.CG.CallersOf(f) {
		if e.Callback {
			return "", false
		}
		n++
		caller := enclosingNamed(e.Caller)
		r, ok := w.lookupInvariantUp(caller, ps, depth+1)
		if !ok {
			// the entry may name a closure of the caller (X$1) that this function replaced
			for _, ent := range assumedInvariant {
				if strings.HasPrefix(ent.fn, shortFuncName(caller)+"$") && ent.kind == ps.Kind && strings.HasPrefix(ps.Desc, ent.desc) {
					r, ok = ent.reason, true
				}
			}
		}
		if !ok {
			return "", false
		}
		reasons = append(reasons, r)
	}
	if n == 0 {
		return "", false
	}
	return "helper of " + strings.Join(uniq(reasons), " / "), true
}

func c01r6(w *World, rr *RuleRun) {
	path := w.packetPathFuncs()
	var fs []*ssa.Function
	for f := range path {
		fs = append(fs, f)
	}
	sort.Slice(fs, func(i, j int) bool { return fs[i].String() < fs[j].String() })
	rr.rep.Extra["packet_path_functions"] = len(fs)
	var assumed []string
	for _, f := range fs {
		for _, ps := range w.panicSites(f) {
			name := shortFuncName(f)
			if reason, ok := w.lookupInvariantUp(f, ps, 0); ok {
				assumed = append(assumed, name+" "+ps.Kind+" "+ps.Desc+": "+reason)
				rr.At(w, ps.Ins, ps.Kind+" site "+ps.Desc, true, "assumed invariant: "+reason)
				continue
			}
			if ps.Kind == "div" {
				if ok, how := w.divisorNonZero(ps.Ins.(*ssa.BinOp)); ok {
					rr.At(w, ps.Ins, "integer division: "+ps.Desc, true, how)
				} else {
					rr.At(w, ps.Ins, "integer division: "+ps.Desc, false, "the divisor is not shown to be non-zero on the packet / reply path: "+how)
				}
				continue
			}
			if ps.Kind == "assert" {
				if ok, how := w.recoveredBy(ps.Ins); ok {
					rr.At(w, ps.Ins, ps.Kind+" site "+ps.Desc, true, how)
					continue
				}
			}
			rr.At(w, ps.Ins, ps.Kind+" site "+ps.Desc, false, "undischarged panic site on the packet / reply path: not guarded by a recover and not in the assumed-invariant table")
		}
	}
	rr.rep.Extra["assumed_invariants"] = assumed
}

// divisorNonZero: the divisor is a struct field that only ever receives non-zero constants, or a
// non-zero fact about it holds on every path to the division.
func (w *World) divisorNonZero(bo *ssa.BinOp) (bool, string) {
	v := bo.Y
	for i := 0; i < 4; i++ {
		switch x := v.(type) {
		case *ssa.Convert:
			v = x.X
			continue
		case *ssa.ChangeType:
			v = x.X
			continue
		}
		break
	}
	if ld, ok := v.(*ssa.UnOp); ok && ld.Op == token.MUL {
		if fv := fieldOfAddr(ld.X); fv != nil {
			if _, isFA := ld.X.(*ssa.FieldAddr); isFA {
				ws := w.FieldWrites(w.P.LibFuncs, fv)
				okAll := len(ws) > 0
				for _, st := range ws {
					s, isStore := st.(*ssa.Store)
					if !isStore {
						okAll = false
						continue
					}
					if c, ok := ConstInt(s.Val); !ok || c == 0 {
						okAll = false
					}
				}
				if okAll {
					return true, fmt.Sprintf("field %s only ever receives non-zero constants (%d stores)", fv.Name(), len(ws))
				}
			}
		}
	}
	if fx, ok := v.(*ssa.Field); ok {
		_ = fx
	}
	dt := w.TS.Of(v)
	st := w.FE.StateBefore(bo)
	if len(st) == 0 {
		return false, "no state"
	}
	for _, alt := range st {
		d := w.FE.Resolve(alt, v)
		nz := alt.Has("b", false, func(x *Term) bool {
			return x.Op == OpBin && x.Name == "==" && ((x.Args[0].IsConst("0") && (termEq(x.Args[1], d) || termEq(x.Args[1], dt))) || (x.Args[1].IsConst("0") && (termEq(x.Args[0], d) || termEq(x.Args[0], dt))))
		}) || alt.Has("b", true, func(x *Term) bool {
			return x.Op == OpBin && x.Name == "<" && x.Args[0].IsConst("0") && (termEq(x.Args[1], d) || termEq(x.Args[1], dt))
		})
		if c, ok := termInt(d); ok && c != 0 {
			nz = true
		}
		if !nz {
			return false, "divisor " + trunc(d.String(), 80) + " may be zero"
		}
	}
	return true, "non-zero on every path"
}
