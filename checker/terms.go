package main

// Canonical symbolic terms ("access paths") for SSA values. Two SSA values with the same term
// denote the same run-time value as long as no intervening write kills it (engine B tracks kills).
// Terms are what guard facts, origins and rule patterns are expressed over.

import (
	"fmt"
	"go/constant"
	"go/token"
	"go/types"
	"strings"

	"golang.org/x/tools/go/ssa"
)

type Term struct {
	Op   string        // see constants below
	Name string        // param/local/global/field name, operator, constant text, type text
	Obj  interface{}   // identity: *types.Var (field), *ssa.Function / *types.Func (callee), ssa.Value (opaque)
	Args []*Term       // sub-terms
	Fn   *ssa.Function // owning function for function-scoped leaves (param, local, phi, opaque)
	str  string
}

const (
	OpParam   = "param"   // parameter (incl. receiver) of Fn
	OpLocal   = "local"   // address of a local variable cell (Alloc) of Fn; value is deref(local)
	OpGlobal  = "global"  // address of a package-level variable
	OpConst   = "const"   // constant; Name is its text ("nil", "true", "42", "\"q\"")
	OpFunc    = "func"    // function reference
	OpField   = "field"   // Args[0].Name — value-level field selection (pointer derefs are transparent)
	OpDeref   = "deref"   // *Args[0] (load through a pointer value that is not a field address)
	OpAddr    = "addr"    // &Args[0] (address of a path)
	OpCall    = "call"    // call of Obj (callee) with Args (receiver first)
	OpDyn     = "dyncall" // call through function value Args[0] with Args[1:]
	OpBin     = "bin"     // Name = operator
	OpNot     = "not"
	OpNeg     = "neg"
	OpExtract = "extract" // Name = index; Args[0] tuple
	OpLookup  = "lookup"  // map/string lookup Args[0][Args[1]]; commaok variants are tuples
	OpAssert  = "assert"  // Args[0].(Name)
	OpIndex   = "index"   // Args[0][Args[1]]
	OpSlice   = "slice"   // Args[0][lo:hi:max] (missing bounds are const "-")
	OpConv    = "conv"    // representation-changing conversion, Name = target type
	OpPhi     = "phi"     // unresolved phi
	OpClosure = "closure" // closure of Obj
	OpOpaque  = "opaque"  // anything else (make, range, next, select, ...); unique per SSA value
	OpLen     = "len"
	OpRecv    = "recv" // <-ch
)

func (t *Term) String() string {
	if t == nil {
		return "<nil>"
	}
	if t.str != "" {
		return t.str
	}
	var sb strings.Builder
	switch t.Op {
	case OpParam:
		sb.WriteString(t.Name)
		sb.WriteString("ₚ")
	case OpLocal:
		sb.WriteString("&" + t.Name)
	case OpGlobal:
		sb.WriteString("&" + t.Name)
	case OpConst:
		sb.WriteString(t.Name)
	case OpFunc:
		sb.WriteString("func:" + t.Name)
	case OpField:
		sb.WriteString(t.Args[0].String())
		sb.WriteString("." + t.Name)
	case OpDeref:
		a := t.Args[0]
		if a.Op == OpLocal || a.Op == OpGlobal {
			sb.WriteString(a.Name)
		} else {
			sb.WriteString("*(" + a.String() + ")")
		}
	case OpAddr:
		sb.WriteString("&(" + t.Args[0].String() + ")")
	case OpCall, OpDyn:
		if t.Op == OpDyn {
			sb.WriteString("dyn:")
		}
		sb.WriteString(t.Name)
		sb.WriteString("(")
		for i, a := range t.Args {
			if i > 0 {
				sb.WriteString(", ")
			}
			sb.WriteString(a.String())
		}
		sb.WriteString(")")
	case OpBin:
		sb.WriteString("(" + t.Args[0].String() + " " + t.Name + " " + t.Args[1].String() + ")")
	case OpNot:
		sb.WriteString("!" + t.Args[0].String())
	case OpNeg:
		sb.WriteString("-" + t.Args[0].String())
	case OpExtract:
		sb.WriteString(t.Args[0].String() + "#" + t.Name)
	case OpLookup:
		sb.WriteString(t.Args[0].String() + "[" + t.Args[1].String() + "]")
	case OpIndex:
		sb.WriteString(t.Args[0].String() + "[" + t.Args[1].String() + "]")
	case OpAssert:
		sb.WriteString(t.Args[0].String() + ".(" + t.Name + ")")
	case OpSlice:
		sb.WriteString(t.Args[0].String() + "[" + t.Args[1].String() + ":" + t.Args[2].String() + "]")
	case OpConv:
		sb.WriteString(t.Name + "(" + t.Args[0].String() + ")")
	case OpLen:
		sb.WriteString("len(" + t.Args[0].String() + ")")
	case OpRecv:
		sb.WriteString("<-" + t.Args[0].String())
	case OpClosure:
		sb.WriteString("closure:" + t.Name)
	default:
		sb.WriteString(t.Op + ":" + t.Name)
	}
	t.str = sb.String()
	return t.str
}

func constTerm(s string) *Term { return &Term{Op: OpConst, Name: s} }

var (
	termNil   = constTerm("nil")
	termTrue  = constTerm("true")
	termFalse = constTerm("false")
	termNone  = constTerm("-")
)

func (t *Term) IsConst(s string) bool { return t != nil && t.Op == OpConst && t.Name == s }

// Walk visits t and all sub-terms.
func (t *Term) Walk(f func(*Term) bool) {
	if t == nil || !f(t) {
		return
	}
	for _, a := range t.Args {
		a.Walk(f)
	}
}

// Contains reports whether sub occurs in t (by canonical string).
func (t *Term) Contains(sub *Term) bool {
	s := sub.String()
	found := false
	t.Walk(func(x *Term) bool {
		if x.String() == s {
			found = true
		}
		return !found
	})
	return found
}

// Subst replaces every occurrence (by canonical string) of keys of m with its value.
func (t *Term) Subst(m map[string]*Term) *Term {
	if t == nil {
		return nil
	}
	if r, ok := m[t.String()]; ok {
		return r
	}
	if len(t.Args) == 0 {
		return t
	}
	changed := false
	args := make([]*Term, len(t.Args))
	for i, a := range t.Args {
		args[i] = a.Subst(m)
		if args[i] != a {
			changed = true
		}
	}
	if !changed {
		return t
	}
	n := &Term{Op: t.Op, Name: t.Name, Obj: t.Obj, Args: args, Fn: t.Fn}
	return normalizeTerm(n)
}

// normalizeTerm applies local simplifications: deref(addr(x)) = x, field through deref is
// transparent.
func normalizeTerm(t *Term) *Term {
	switch t.Op {
	case OpDeref:
		if t.Args[0].Op == OpAddr {
			return t.Args[0].Args[0]
		}
	case OpField:
		// (*p).f == p.f
		if t.Args[0].Op == OpDeref && t.Args[0].Args[0].Op != OpLocal && t.Args[0].Args[0].Op != OpGlobal {
			return &Term{Op: OpField, Name: t.Name, Obj: t.Obj, Args: []*Term{t.Args[0].Args[0]}}
		}
		// (&x).f == x.f
		if t.Args[0].Op == OpAddr {
			return &Term{Op: OpField, Name: t.Name, Obj: t.Obj, Args: []*Term{t.Args[0].Args[0]}}
		}
		// a field selected through the address of a local / global cell (after substituting a pointer
		// parameter by the cell's address): canonical form goes through the cell's value
		if t.Args[0].Op == OpLocal || t.Args[0].Op == OpGlobal {
			return &Term{Op: OpField, Name: t.Name, Obj: t.Obj, Args: []*Term{{Op: OpDeref, Args: []*Term{t.Args[0]}}}}
		}
	}
	return t
}

// Terms builds terms for SSA values of module functions.
type Terms struct {
	p     *Program
	cache map[ssa.Value]*Term
	cells map[*ssa.Alloc]*cellInfo
	// closure parent bindings: FreeVar -> bound value in the parent (when the anonymous function has
	// exactly one MakeClosure site)
	fvBind map[*ssa.FreeVar]ssa.Value
	// parameter bindings of single-call-site helpers that were folded into a caller's region: the
	// parameter denotes the argument at that one call site (same idea as fvBind for closures)
	paramBind map[*ssa.Parameter]ssa.Value
	inprog    map[ssa.Value]bool
	cg        *CallGraph // set after the call graph is built; used to decide whether a callee writes through a pointer argument
}

type cellInfo struct {
	single ssa.Value // the one stored value when the cell is single-assignment, else nil
}

func NewTerms(p *Program) *Terms {
	t := &Terms{p: p, cache: map[ssa.Value]*Term{}, cells: map[*ssa.Alloc]*cellInfo{}, fvBind: map[*ssa.FreeVar]ssa.Value{}, paramBind: map[*ssa.Parameter]ssa.Value{}, inprog: map[ssa.Value]bool{}}
	count := map[*ssa.Function]int{}
	var sites []*ssa.MakeClosure
	for _, f := range p.ModFuncs {
		for _, b := range f.Blocks {
			for _, ins := range b.Instrs {
				if mc, ok := ins.(*ssa.MakeClosure); ok {
					fn := mc.Fn.(*ssa.Function)
					count[fn]++
					sites = append(sites, mc)
				}
			}
		}
	}
	for _, mc := range sites {
		fn := mc.Fn.(*ssa.Function)
		if count[fn] != 1 {
			continue
		}
		for i, fv := range fn.FreeVars {
			if i < len(mc.Bindings) {
				t.fvBind[fv] = mc.Bindings[i]
			}
		}
	}
	return t
}

// singleStoreCell: an Alloc that is written exactly once, by a Store in its own function that
// dominates... (we require: exactly one Store instruction anywhere, including capturing closures,
// and the address does not escape to calls). Such a cell is identified with the stored value.
func (ts *Terms) cell(a *ssa.Alloc) *cellInfo {
	if ci, ok := ts.cells[a]; ok {
		return ci
	}
	ci := &cellInfo{}
	ts.cells[a] = ci
	stores := 0
	var val ssa.Value
	escaped := false
	captured := false
	var visit func(v ssa.Value, depth int)
	seen := map[ssa.Value]bool{}
	visit = func(v ssa.Value, depth int) {
		if seen[v] || depth > 6 {
			return
		}
		seen[v] = true
		refs := v.Referrers()
		if refs == nil {
			return
		}
		for _, r := range *refs {
			switch r := r.(type) {
			case *ssa.Store:
				if r.Addr == v {
					stores++
					val = r.Val
				} else {
					escaped = true // address stored somewhere
				}
			case *ssa.UnOp:
				// load: fine
			case *ssa.FieldAddr, *ssa.IndexAddr:
				// partial writes through the cell make it multi-assignment
				var fv ssa.Value = r.(ssa.Value)
				if ts.hasStoreThrough(fv, 0) {
					stores += 2
				}
			case *ssa.MakeClosure:
				// captured: look at the free variable's uses in the closure
				fn := r.Fn.(*ssa.Function)
				for i, b := range r.Bindings {
					if b == v && i < len(fn.FreeVars) {
						captured = true
						visit(fn.FreeVars[i], depth+1)
					}
				}
			case *ssa.DebugRef:
			case ssa.CallInstruction:
				// address passed to a call: written unless every possible callee only reads through it.
				// Opaque hooks (function values with no module target, e.g. ServerConfig.OnQuery) are
				// assumed not to mutate what they are shown (stated assumption).
				if !ts.callOnlyReads(r, v, 0) {
					escaped = true
				}
			default:
				// Phi, MakeInterface, etc.: treat as escape
				escaped = true
			}
		}
	}
	visit(a, 0)
	if stores == 1 && !escaped {
		ci.single = val
		// a captured scalar computed from memory is a snapshot: the closure runs later (maybe
		// repeatedly), where the same term would read as a fresh load. Keep the cell opaque.
		if _, basic := val.Type().Underlying().(*types.Basic); basic && captured && termHasLoad(ts.Of(val)) {
			ci.single = nil
		}
	}
	return ci
}

// callOnlyReads: the call instruction receives ptr as an argument; report whether no callee can
// write through it.
func (ts *Terms) callOnlyReads(call ssa.CallInstruction, ptr ssa.Value, depth int) bool {
	if depth > 3 || ts.cg == nil {
		return false
	}
	c := call.Common()
	if _, isGo := call.(*ssa.Go); isGo {
		return false
	}
	if b, ok := c.Value.(*ssa.Builtin); ok {
		switch b.Name() {
		case "len", "cap", "print", "println":
			return true
		}
		return false
	}
	edges := ts.cg.SiteOut[call.(ssa.Instruction)]
	if sc := c.StaticCallee(); sc != nil && !ts.p.IsMod(sc) {
		// external static callee: a few known read-only receivers/arguments
		if o := calleeObj(c); o != nil && pureExternal[o.Name()] {
			return true
		}
		return false
	}
	if c.IsInvoke() && len(edges) == 0 {
		return false
	}
	for _, e := range edges {
		if e.Callback {
			continue
		}
		callee := e.Callee
		off := 0
		if c.IsInvoke() {
			off = 1
		}
		for i, a := range c.Args {
			if a != ptr {
				continue
			}
			pi := i + off
			if pi >= len(callee.Params) || !ts.paramOnlyRead(callee.Params[pi], depth+1) {
				return false
			}
		}
	}
	// dynamic call with no module target: opaque hook, assumed read-only
	return true
}

func (ts *Terms) paramOnlyRead(p ssa.Value, depth int) bool {
	if depth > 4 {
		return false
	}
	refs := p.Referrers()
	if refs == nil {
		return true
	}
	for _, r := range *refs {
		switch r := r.(type) {
		case *ssa.UnOp, *ssa.DebugRef:
		case *ssa.FieldAddr:
			if !ts.paramOnlyRead(r, depth+1) {
				return false
			}
		case *ssa.IndexAddr:
			if !ts.paramOnlyRead(r, depth+1) {
				return false
			}
		case *ssa.Slice:
			if !ts.paramOnlyRead(r, depth+1) {
				return false
			}
		case *ssa.Store:
			if r.Addr == p {
				return false
			}
			// pointer value stored somewhere: retained
			return false
		case ssa.CallInstruction:
			if !ts.callOnlyReads(r, p, depth+1) {
				return false
			}
		case *ssa.BinOp:
			// comparison
		default:
			return false
		}
	}
	return true
}

func (ts *Terms) hasStoreThrough(addr ssa.Value, depth int) bool {
	if depth > 4 {
		return true
	}
	refs := addr.Referrers()
	if refs == nil {
		return false
	}
	for _, r := range *refs {
		switch r := r.(type) {
		case *ssa.Store:
			if r.Addr == addr {
				return true
			}
		case *ssa.FieldAddr:
			if ts.hasStoreThrough(r, depth+1) {
				return true
			}
		case *ssa.IndexAddr:
			if ts.hasStoreThrough(r, depth+1) {
				return true
			}
		case ssa.CallInstruction:
			if !ts.callOnlyReads(r, addr, 0) {
				return true
			}
		}
	}
	return false
}

func localName(a *ssa.Alloc) string {
	n := a.Comment
	if n == "" {
		n = a.Name()
	}
	return n
}

// Of returns the term of an SSA value.
func (ts *Terms) Of(v ssa.Value) *Term {
	if v == nil {
		return termNone
	}
	if t, ok := ts.cache[v]; ok {
		return t
	}
	if ts.inprog[v] {
		return ts.opaque(v)
	}
	ts.inprog[v] = true
	t := normalizeTerm(ts.build(v))
	delete(ts.inprog, v)
	ts.cache[v] = t
	return t
}

func (ts *Terms) opaque(v ssa.Value) *Term {
	fn := v.Parent()
	name := v.Name()
	if fn != nil {
		name = shortFuncName(fn) + ":" + name
	}
	op := OpOpaque
	if _, ok := v.(*ssa.Phi); ok {
		op = OpPhi
	}
	return &Term{Op: op, Name: name, Obj: v, Fn: fn}
}

func constText(c *ssa.Const) string {
	if c.Value == nil {
		// zero value of any type: nil for pointer-like, else typed zero
		switch u := c.Type().Underlying().(type) {
		case *types.Basic:
			if u.Info()&types.IsBoolean != 0 {
				return "false"
			}
			if u.Info()&types.IsString != 0 {
				return `""`
			}
			if u.Info()&types.IsNumeric != 0 {
				return "0"
			}
			return "nil"
		case *types.Pointer, *types.Interface, *types.Slice, *types.Map, *types.Chan, *types.Signature:
			return "nil"
		default:
			return "zero:" + types.TypeString(c.Type(), nil)
		}
	}
	switch c.Value.Kind() {
	case constant.Bool:
		if constant.BoolVal(c.Value) {
			return "true"
		}
		return "false"
	case constant.String:
		return fmt.Sprintf("%q", constant.StringVal(c.Value))
	default:
		return c.Value.ExactString()
	}
}

func relTypeString(t types.Type) string {
	s := types.TypeString(t, nil)
	s = strings.ReplaceAll(s, modPath+"/", "")
	s = strings.ReplaceAll(s, modPath+".", "")
	return s
}

func (ts *Terms) fieldVar(x ssa.Value, idx int, viaPtr bool) *types.Var {
	t := x.Type()
	if viaPtr {
		t = t.Underlying().(*types.Pointer).Elem()
	}
	st := t.Underlying().(*types.Struct)
	return st.Field(idx)
}

func (ts *Terms) calleeName(c *ssa.CallCommon) (string, interface{}) {
	if c.IsInvoke() {
		return funcObjName(c.Method), c.Method
	}
	if f := c.StaticCallee(); f != nil {
		if o := calleeObj(c); o != nil {
			return funcObjName(o), o
		}
		return shortFuncName(f), f
	}
	return "", nil
}

func (ts *Terms) build(v ssa.Value) *Term {
	switch v := v.(type) {
	case *ssa.Parameter:
		if b, ok := ts.paramBind[v]; ok {
			return ts.Of(b)
		}
		return &Term{Op: OpParam, Name: v.Name(), Obj: v, Fn: v.Parent()}
	case *ssa.FreeVar:
		if b, ok := ts.fvBind[v]; ok {
			bt := ts.Of(b)
			// a captured scalar computed from memory is a snapshot taken when the closure was
			// made: inside the closure (which runs later, maybe repeatedly) it must not read as
			// a fresh load of that memory
			if _, basic := b.Type().Underlying().(*types.Basic); !(basic && termHasLoad(bt)) {
				return bt
			}
		}
		return &Term{Op: OpParam, Name: "fv:" + v.Name(), Obj: v, Fn: v.Parent()}
	case *ssa.Const:
		return constTerm(constText(v))
	case *ssa.Global:
		n := v.Name()
		if v.Pkg != nil && v.Pkg.Pkg.Path() != modPath {
			n = strings.TrimPrefix(v.Pkg.Pkg.Path(), modPath+"/") + "." + n
		}
		return &Term{Op: OpGlobal, Name: n, Obj: v}
	case *ssa.Function:
		return &Term{Op: OpFunc, Name: shortFuncName(v), Obj: v}
	case *ssa.Builtin:
		return &Term{Op: OpFunc, Name: "builtin." + v.Name(), Obj: v}
	case *ssa.Alloc:
		ci := ts.cell(v)
		if ci.single != nil {
			return &Term{Op: OpAddr, Args: []*Term{ts.Of(ci.single)}}
		}
		fn := v.Parent()
		return &Term{Op: OpLocal, Name: localName(v) + "@" + shortFuncName(fn) + ":" + v.Name(), Obj: v, Fn: fn}
	case *ssa.FieldAddr:
		fv := ts.fieldVar(v.X, v.Field, true)
		base := ts.Of(v.X)
		// base is an address (pointer value); the struct is deref(base)
		st := normalizeTerm(&Term{Op: OpDeref, Args: []*Term{base}})
		return &Term{Op: OpAddr, Args: []*Term{normalizeTerm(&Term{Op: OpField, Name: fv.Name(), Obj: fv, Args: []*Term{st}})}}
	case *ssa.Field:
		fv := ts.fieldVar(v.X, v.Field, false)
		return &Term{Op: OpField, Name: fv.Name(), Obj: fv, Args: []*Term{ts.Of(v.X)}}
	case *ssa.UnOp:
		switch v.Op {
		case token.MUL:
			return &Term{Op: OpDeref, Args: []*Term{ts.Of(v.X)}}
		case token.NOT:
			return &Term{Op: OpNot, Args: []*Term{ts.Of(v.X)}}
		case token.SUB:
			return &Term{Op: OpNeg, Args: []*Term{ts.Of(v.X)}}
		case token.ARROW:
			return &Term{Op: OpRecv, Args: []*Term{ts.Of(v.X)}, Obj: v, Name: v.Name()}
		}
		return ts.opaque(v)
	case *ssa.BinOp:
		return &Term{Op: OpBin, Name: v.Op.String(), Args: []*Term{ts.Of(v.X), ts.Of(v.Y)}}
	case *ssa.Call:
		c := v.Common()
		if b, ok := c.Value.(*ssa.Builtin); ok {
			switch b.Name() {
			case "len":
				return &Term{Op: OpLen, Args: []*Term{ts.Of(c.Args[0])}}
			}
			args := []*Term{}
			for _, a := range c.Args {
				args = append(args, ts.Of(a))
			}
			return &Term{Op: OpCall, Name: "builtin." + b.Name(), Obj: b, Args: args}
		}
		name, obj := ts.calleeName(c)
		var args []*Term
		if c.IsInvoke() {
			args = append(args, ts.Of(c.Value))
		}
		if obj == nil {
			// dynamic call through a function value
			args = append(args, ts.Of(c.Value))
			for _, a := range c.Args {
				args = append(args, ts.Of(a))
			}
			return &Term{Op: OpDyn, Name: "", Args: args}
		}
		for _, a := range c.Args {
			args = append(args, ts.Of(a))
		}
		return &Term{Op: OpCall, Name: name, Obj: obj, Args: args}
	case *ssa.Extract:
		return &Term{Op: OpExtract, Name: fmt.Sprint(v.Index), Args: []*Term{ts.Of(v.Tuple)}}
	case *ssa.Lookup:
		return &Term{Op: OpLookup, Args: []*Term{ts.Of(v.X), ts.Of(v.Index)}}
	case *ssa.TypeAssert:
		return &Term{Op: OpAssert, Name: relTypeString(v.AssertedType), Args: []*Term{ts.Of(v.X)}}
	case *ssa.Index:
		return &Term{Op: OpIndex, Args: []*Term{ts.Of(v.X), ts.Of(v.Index)}}
	case *ssa.IndexAddr:
		base := ts.Of(v.X)
		if _, isPtr := v.X.Type().Underlying().(*types.Pointer); isPtr {
			base = normalizeTerm(&Term{Op: OpDeref, Args: []*Term{base}})
		}
		return &Term{Op: OpAddr, Args: []*Term{{Op: OpIndex, Args: []*Term{base, ts.Of(v.Index)}}}}
	case *ssa.Slice:
		base := ts.Of(v.X)
		if _, isPtr := v.X.Type().Underlying().(*types.Pointer); isPtr {
			base = normalizeTerm(&Term{Op: OpDeref, Args: []*Term{base}})
		}
		lo, hi := termNone, termNone
		if v.Low != nil {
			lo = ts.Of(v.Low)
		}
		if v.High != nil {
			hi = ts.Of(v.High)
		}
		return &Term{Op: OpSlice, Args: []*Term{base, lo, hi}}
	case *ssa.ChangeType:
		return ts.Of(v.X)
	case *ssa.ChangeInterface:
		return ts.Of(v.X)
	case *ssa.MakeInterface:
		return ts.Of(v.X)
	case *ssa.Convert:
		// numeric widenings are transparent; string<->bytes keep a marker
		from, to := v.X.Type().Underlying(), v.Type().Underlying()
		fb, ok1 := from.(*types.Basic)
		tb, ok2 := to.(*types.Basic)
		if ok1 && ok2 && fb.Info()&types.IsNumeric != 0 && tb.Info()&types.IsNumeric != 0 {
			return ts.Of(v.X)
		}
		return &Term{Op: OpConv, Name: relTypeString(v.Type()), Args: []*Term{ts.Of(v.X)}}
	case *ssa.SliceToArrayPointer:
		return ts.Of(v.X)
	case *ssa.MakeClosure:
		fn := v.Fn.(*ssa.Function)
		return &Term{Op: OpClosure, Name: shortFuncName(fn), Obj: fn}
	case *ssa.Phi:
		// a phi whose incoming values all have the same term is that term
		var first *Term
		same := true
		for _, e := range v.Edges {
			if e == v {
				continue
			}
			t := ts.Of(e)
			if first == nil {
				first = t
			} else if first.String() != t.String() {
				same = false
			}
		}
		if same && first != nil && first.Op != OpPhi && first.Op != OpOpaque {
			return first
		}
		return ts.opaque(v)
	}
	return ts.opaque(v)
}

// AddrPath: for an address-valued SSA value (operand of a Store or load), the term of the memory
// path it designates (e.g. &(m.A) -> m.A ; &r -> r ; pointer p -> *(p)).
func (ts *Terms) Path(addr ssa.Value) *Term {
	return normalizeTerm(&Term{Op: OpDeref, Args: []*Term{ts.Of(addr)}})
}

// fieldVarsIn lists the field identities mentioned in t.
func fieldVarsIn(t *Term, out map[*types.Var]bool) {
	t.Walk(func(x *Term) bool {
		if x.Op == OpField {
			if fv, ok := x.Obj.(*types.Var); ok {
				out[fv] = true
			}
		}
		return true
	})
}

// rootLocals lists local cells mentioned in t.
func rootLocals(t *Term, out map[ssa.Value]bool) {
	t.Walk(func(x *Term) bool {
		if x.Op == OpLocal {
			if a, ok := x.Obj.(ssa.Value); ok {
				out[a] = true
			}
		}
		return true
	})
}

// termHasLoad: the term reads memory through a pointer, index or map (not a plain local/param value).
func termHasLoad(t *Term) bool {
	found := false
	t.Walk(func(x *Term) bool {
		switch x.Op {
		case OpDeref, OpIndex, OpLookup:
			found = true
		case OpField:
			// field of a struct reached through a pointer
			if len(x.Args) == 1 && x.Args[0].Op == OpDeref {
				found = true
			}
		}
		return !found
	})
	return found
}
