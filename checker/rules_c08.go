package main

import (
	"fmt"
	"go/types"
	"sort"
	"strings"

	"golang.org/x/tools/go/ssa"
)

// handler bundles the anchors of the query dispatcher.
type handler struct {
	fn        *ssa.Function
	m, source *Term
	msgQ      *types.Var
	msgA      *types.Var
	msgT      *types.Var
	methods   []string // string constants compared with m.Q
	reply     *ssa.Function
	sendError *ssa.Function
	sendFns   map[*ssa.Function]bool // functions from which the send routine is reachable
	sendFn    *ssa.Function
}

func (w *World) handler() *handler {
	h := &handler{}
	h.fn = w.P.Func("(*Server).handleQuery")
	h.m = w.ParamTerm(h.fn, "m")
	h.source = w.ParamTerm(h.fn, "source")
	h.msgQ = w.P.Field("krpc", "Msg", "Q")
	h.msgA = w.P.Field("krpc", "Msg", "A")
	h.msgT = w.P.Field("krpc", "Msg", "T")
	h.reply = w.P.Func("(*Server).reply")
	h.sendError = w.P.Func("(*Server).sendError")
	seen := map[string]bool{}
	eachInstr(w.RegionOf(h.fn), func(fn *ssa.Function, ins ssa.Instruction) {
		if bo, ok := ins.(*ssa.BinOp); ok && bo.Op.String() == "==" {
			x, y := w.TS.Of(bo.X), w.TS.Of(bo.Y)
			if y.Op == OpConst && x.Op == OpField && x.Obj == h.msgQ {
				seen[strings.Trim(y.Name, `"`)] = true
			}
			if x.Op == OpConst && y.Op == OpField && y.Obj == h.msgQ {
				seen[strings.Trim(x.Name, `"`)] = true
			}
		}
	})
	for m := range seen {
		h.methods = append(h.methods, m)
	}
	sort.Strings(h.methods)
	a := w.sendAnchors()
	h.sendFns = map[*ssa.Function]bool{}
	if len(a.sites) > 0 {
		h.sendFn = enclosingNamed(a.sites[0].Parent())
		// only callees of the handler and of the packet processor are ever asked
		cand := map[*ssa.Function]bool{}
		pp := w.P.Func("(*Server).processPacket")
		for _, root := range []*ssa.Function{h.fn, pp} {
			for _, f := range append([]*ssa.Function{root}, root.AnonFuncs...) {
				for _, e := range w.CG.Out[f] {
					cand[e.Callee] = true
				}
			}
		}
		for f := range cand {
			if f == h.fn {
				continue
			}
			if w.CG.ReachCtx([]*ssa.Function{f}, w.TS, nil)[h.sendFn] {
				h.sendFns[f] = true
			}
		}
	}
	return h
}

// caseOf: the query method this alternative is handling ("" if undetermined, "default" if every
// known method comparison is false).
func (h *handler) caseOf(alt *Alt) string {
	nFalse := 0
	for _, m := range h.methods {
		for k, t := range alt.terms {
			if k[0] != 'b' || t.Op != OpBin || t.Name != "==" {
				continue
			}
			x, y := t.Args[0], t.Args[1]
			if !(x.IsConst(`"`+m+`"`) && y.Op == OpField && y.Obj == h.msgQ) && !(y.IsConst(`"`+m+`"`) && x.Op == OpField && x.Obj == h.msgQ) {
				continue
			}
			if alt.facts[k] {
				return m
			}
			nFalse++
		}
	}
	if nFalse == len(h.methods) && nFalse > 0 {
		return "default"
	}
	return ""
}

func (h *handler) casesAt(w *World, ins ssa.Instruction) []string {
	set := map[string]bool{}
	for _, alt := range w.FE.StateBefore(ins) {
		set[h.caseOf(alt)] = true
	}
	var out []string
	for c := range set {
		out = append(out, c)
	}
	sort.Strings(out)
	return out
}

// replySites: calls of reply / sendError inside the handler (including its closures).
func (h *handler) replySites(w *World) []ssa.Instruction {
	var out []ssa.Instruction
	out = append(out, w.CallsInRegion(h.fn, h.reply)...)
	out = append(out, w.CallsInRegion(h.fn, h.sendError)...)
	sort.Slice(out, func(i, j int) bool { return out[i].Pos() < out[j].Pos() })
	return out
}

// isSendCall: the instruction calls something that can reach the socket write.
func (h *handler) isSendCall(w *World, ins ssa.Instruction) bool {
	for _, e := range w.CG.SiteOut[ins] {
		if h.sendFns[e.Callee] || e.Callee == h.sendFn {
			return true
		}
	}
	return false
}

func init() {
	register(&Property{
		ID:    "C08",
		Title: "Replies go to the asker, echo its transaction ID, and use the right KRPC form",
		Decided: "C08.1 every reply/error call in the handler passes the query's source and the query's t; C08.2 the builders put t, y, own ID, requester ip into the message and write to the same address; no other code builds r/e messages; " +
			"C08.3 exactly one reply-or-error per query on every path (zero only behind passive, hook veto, invalid token), one socket write per reply/error; C08.4 default branch answers 204, missing arguments answer 203 in every method that uses arguments; " +
			"C08.6 the Addr built from the received source keeps that very net.Addr (or a copy in which every field of the original is carried over) and Raw() returns it, so the write goes to the complete source address (IP, port and zone); " +
			"C08.7 the buffer handed to PacketConn.ReadFrom has a constant length > 65527 (the largest UDP payload), so the 'datagram filled the buffer' discard can never hit a complete datagram and every query reaches the dispatcher; " +
			"C08.8 every element store into a net.IP-typed slice in library code targets a slice whose origins are fresh (make / literal / append onto a fresh slice), never a parameter, a field or the result of reslicing one (To4() included) - the IP of the received address is shared by the cached Addr, the raw *net.UDPAddr and the reply's ip field; " +
			"C08.5 nothing that can reach the socket write is reachable from the non-query branch of the packet processor. C08.12 the source a reply goes to is the address returned by the ReadFrom that delivered the query (shared with C07.6).",
		NotDecided: "byte-for-byte content of the encoded datagrams (bencode library), 'when send budget allows' (C20).",
		Rules: []*Rule{
			{ID: "C08.1", Doc: "reply destination and transaction id are the query's", Floor: 15, Run: c08r1},
			{ID: "C08.2", Doc: "reply and error builders", Floor: 10, Run: c08r2},
			{ID: "C08.3", Doc: "exactly one datagram per query", Floor: 8, Run: c08r3},
			{ID: "C08.4", Doc: "error codes: 204 unknown method, 203 missing arguments", Floor: 5, Run: c08r4},
			{ID: "C08.5", Doc: "silence on non-queries", Floor: 3, Run: c08r5},
			{ID: "C08.7", Doc: "no well-formed query is dropped for its size: the read buffer is longer than any UDP payload", Floor: 1, Run: c08r7},
			{ID: "C08.8", Doc: "the source address is not altered between receipt and reply: no library function stores into the bytes of a net.IP it was given", Floor: 1, Run: c08r8},
			{ID: "C08.9", Doc: "the transaction id and method answered are those of this datagram: fresh decode target per datagram (shared with C07.7)", Floor: 1, Run: c07r7},
			{ID: "C08.10", Doc: "a query is never mistaken for a response: the transaction lookup is behind y ≠ q (shared with C07.8)", Floor: 1, Run: c07r8},
			{ID: "C08.11", Doc: "the bytes of a reply are not shared with a recycled buffer: nothing returned to a sync.Pool is still referenced by a returned slice", Floor: 1, Run: cPoolLifetime},
			{ID: "C08.12", Doc: "the source address a reply goes to is the one returned by the ReadFrom that delivered the query (payload and source of one read are processed together; shared with C07.6)", Floor: 2, Run: c07r6},
			{ID: "C08.6", Doc: "the address wrapper hands back the complete address it was built from", Floor: 2, Run: c08r6},
		},
	})
}

func c08r1(w *World, rr *RuleRun) {
	h := w.handler()
	for _, site := range h.replySites(w) {
		c := callInstrCommon(site)
		name := shortFuncName(c.StaticCallee())
		dst := w.TS.Of(c.Args[1])
		tid := w.TS.Of(c.Args[2])
		rr.At(w, site, name+" destination is the query source", termEq(dst, h.source), "destination: "+dst.String())
		base, ok := fieldChain(tid, h.msgT)
		rr.At(w, site, name+" transaction id is the query's t", ok && termEq(base, h.m), "t argument: "+tid.String())
	}
}

// literalStoresRegion: literalStores over root and its folded helpers.
func (w *World) literalStoresRegion(root *ssa.Function, typ *types.Named) map[string]ssa.Value {
	out := map[string]ssa.Value{}
	for _, f := range w.RegionOf(root) {
		for k, v := range w.literalStores(f, typ) {
			out[k] = v
		}
	}
	return out
}

// literalStores: field stores into a local struct (composite literal) of the given named type in fn.
func (w *World) literalStores(fn *ssa.Function, typ *types.Named) map[string]ssa.Value {
	out := map[string]ssa.Value{}
	eachInstr([]*ssa.Function{fn}, func(_ *ssa.Function, ins ssa.Instruction) {
		st, ok := ins.(*ssa.Store)
		if !ok {
			return
		}
		fa, ok := st.Addr.(*ssa.FieldAddr)
		if !ok {
			return
		}
		pt := fa.X.Type().Underlying().(*types.Pointer).Elem()
		if !types.Identical(pt, typ) {
			return
		}
		if !freshBase(fa) {
			return
		}
		out[pt.Underlying().(*types.Struct).Field(fa.Field).Name()] = st.Val
	})
	return out
}

func c08r2(w *World, rr *RuleRun) {
	h := w.handler()
	msgT := w.P.NamedType("krpc", "Msg")
	serverID := w.P.Field("", "Server", "id")
	retID := w.P.Field("krpc", "Return", "ID")
	for _, b := range []struct {
		fn   *ssa.Function
		y    string
		body string
	}{{h.reply, `"r"`, "R"}, {h.sendError, `"e"`, "E"}} {
		// the goroutine closure that builds and sends
		var cl *ssa.Function
		for _, a := range append(append([]*ssa.Function{}, b.fn.AnonFuncs...), w.Region[b.fn]...) {
			if len(w.literalStores(a, msgT)) > 0 {
				cl = a
			}
		}
		name := shortFuncName(b.fn)
		if cl == nil {
			if len(w.literalStores(b.fn, msgT)) > 0 {
				cl = b.fn
			} else {
				rr.Oblige(name, "builder constructs a krpc.Msg", w.P.Pos(b.fn.Pos()), false, "no Msg literal found")
				continue
			}
		}
		lit := w.literalStores(cl, msgT)
		tParam := w.ParamTerm(b.fn, "t")
		addrParam := w.ParamTerm(b.fn, "addr")
		pos := w.P.Pos(cl.Pos())
		tv := w.TS.Of(lit["T"])
		rr.Oblige(name, "Msg.T is the t parameter", pos, lit["T"] != nil && termEq(tv, tParam), "T ← "+tv.String())
		yv := w.TS.Of(lit["Y"])
		rr.Oblige(name, "Msg.Y is "+b.y, pos, lit["Y"] != nil && yv.IsConst(b.y), "Y ← "+yv.String())
		// body: address of the parameter's cell
		bv := lit[b.body]
		okBody := false
		det := "missing"
		if bv != nil {
			bt := w.TS.Of(bv)
			det = b.body + " ← " + bt.String()
			want := strings.ToLower(b.body)
			// &r / &e : address of the cell of the like-named parameter
			if bt.Op == OpLocal && strings.HasPrefix(bt.Name, want+"@") {
				okBody = true
			}
			if bt.Op == OpAddr && bt.Args[0].Op == OpParam && bt.Args[0].Name == want {
				okBody = true
			}
		}
		rr.Oblige(name, "Msg."+b.body+" is the "+strings.ToLower(b.body)+" parameter", pos, okBody, det)
		if b.body == "R" {
			// own id stored into r.ID; requester address into IP
			okID := false
			for _, st := range w.FieldWrites([]*ssa.Function{cl}, retID) {
				if s, ok := st.(*ssa.Store); ok {
					v := w.TS.Of(s.Val)
					if v.Op == OpCall && strings.HasSuffix(v.Name, "AsByteArray") && len(v.Args) == 1 {
						a0 := v.Args[0]
						if a0.Op == OpAddr {
							a0 = a0.Args[0]
						}
						if a0.Op == OpField && a0.Obj == serverID {
							okID = true
						}
					}
					det = "r.ID ← " + v.String()
				}
			}
			rr.Oblige(name, "reply carries the node's own ID", pos, okID, det)
			ipv := w.TS.Of(lit["IP"])
			okIP := lit["IP"] != nil && ipv.Op == OpCall && strings.HasSuffix(ipv.Name, ".KRPC") && len(ipv.Args) == 1 && termEq(ipv.Args[0], addrParam)
			rr.Oblige(name, "reply ip field is the requester's address", pos, okIP, "IP ← "+ipv.String())
		}
		// destination of the write
		if h.sendFn != nil {
			calls := w.CallsIn(cl, h.sendFn, false)
			rr.Oblige(name, "builder sends exactly once", pos, len(calls) == 1, fmt.Sprintf("%d calls of %s", len(calls), shortFuncName(h.sendFn)))
			for _, c := range calls {
				// find the Addr-typed argument
				for _, a := range callInstrCommon(c).Args {
					if relTypeString(a.Type()) == "Addr" {
						at := w.TS.Of(a)
						rr.At(w, c, "datagram is written to the addr parameter", termEq(at, addrParam), "destination: "+at.String())
					}
				}
			}
		}
	}
	// r / e messages are built nowhere else
	msgY := w.P.Field("krpc", "Msg", "Y")
	for _, st := range w.FieldWrites(w.P.LibFuncs, msgY) {
		s, ok := st.(*ssa.Store)
		if !ok {
			continue
		}
		v := w.TS.Of(s.Val)
		fn := enclosingNamed(st.Parent())
		switch {
		case v.IsConst(`"r"`):
			rr.At(w, st, `Msg{Y:"r"} built only by reply`, fn == h.reply || w.withinUp(fn, h.reply), "in "+shortFuncName(fn))
		case v.IsConst(`"e"`):
			rr.At(w, st, `Msg{Y:"e"} built only by sendError`, fn == h.sendError || w.withinUp(fn, h.sendError), "in "+shortFuncName(fn))
		}
	}
}

func c08r3(w *World, rr *RuleRun) {
	h := w.handler()
	if h.sendFn == nil {
		rr.Broken("no send routine")
		return
	}
	passive := w.P.Field("", "ServerConfig", "Passive")
	onQuery := w.P.Field("", "ServerConfig", "OnQuery")
	validToken := w.tokenPredicate()
	counted := func(ins ssa.Instruction) bool { return callInstrCommon(ins) != nil && h.isSendCall(w, ins) }
	// no counted call hidden in a closure of the handler that runs asynchronously more than once:
	for _, a := range h.fn.AnonFuncs {
		for _, b := range a.Blocks {
			for _, ins := range b.Instrs {
				if counted(ins) {
					rr.At(w, ins, "reply call inside a handler closure", w.FE.inlineAt[a] != nil, "closure "+shortFuncName(a))
				}
			}
		}
	}
	counts := ExitCounts(h.fn, counted)
	var rets []*ssa.Return
	for r := range counts {
		rets = append(rets, r)
	}
	sort.Slice(rets, func(i, j int) bool {
		return rets[i].Pos() < rets[j].Pos() || (rets[i].Pos() == rets[j].Pos() && rets[i].Block().Index < rets[j].Block().Index)
	})
	for _, r := range rets {
		c := counts[r]
		st := w.FE.StateBefore(r)
		if st == nil {
			rr.ObligeTrivialAt(w, r, "handler exit (infeasible)", true, "")
			continue
		}
		cases := strings.Join(h.casesAt(w, r), ",")
		switch {
		case c[0] == 1 && c[1] == 1:
			rr.At(w, r, "handler exit: exactly one reply or error", true, fmt.Sprintf("min=max=1 (cases: %s)", cases))
		case c[1] > 1:
			rr.At(w, r, "handler exit: exactly one reply or error", false, fmt.Sprintf("a path sends %s datagrams (min %d) (cases: %s)", manyStr(c[1]), c[0], cases))
		default:
			// some path sends nothing: must be excused on every alternative reaching this exit with 0
			ok := c[1] <= 1
			why := ""
			for _, alt := range st {
				ex := alt.Has("b", true, func(t *Term) bool { return t.Op == OpField && t.Obj == passive }) ||
					alt.Has("b", false, func(t *Term) bool {
						return t.Op == OpDyn && len(t.Args) > 0 && t.Args[0].Op == OpField && t.Args[0].Obj == onQuery
					}) ||
					alt.Has("b", false, func(t *Term) bool { return isCall(t, validToken) })
				if !ex && c[0] == 0 {
					// an unexcused alternative may still have sent (min over paths): if max is 1 and min 0 we
					// cannot tell them apart structurally → require excuse unless the alternative carries a
					// marker that it passed a send (none available) — report.
					ok = false
					why = "a path reaches this exit without reply/error and without passive / hook veto / invalid token: {" + strings.Join(alt.Facts(), " ∧ ") + "}"
				}
			}
			rr.At(w, r, "handler exit without datagram only behind passive, hook veto or invalid token", ok, fmt.Sprintf("min=%d max=%d (cases: %s) %s", c[0], c[1], cases, why))
		}
	}
	// reply / sendError: one write per call
	for _, f := range []*ssa.Function{h.reply, h.sendError} {
		for _, a := range append([]*ssa.Function{f}, f.AnonFuncs...) {
			cs := w.CallsIn(a, h.sendFn, false)
			if len(cs) == 0 {
				continue
			}
			ec := ExitCounts(a, func(ins ssa.Instruction) bool {
				c := callInstrCommon(ins)
				return c != nil && c.StaticCallee() == h.sendFn
			})
			ok := true
			for _, c := range ec {
				if c[0] != 1 || c[1] != 1 {
					ok = false
				}
			}
			rr.Oblige(shortFuncName(a), "one send per reply/error on every path", w.P.Pos(a.Pos()), ok && len(ec) > 0, fmt.Sprintf("%v", ec))
		}
		// the goroutine itself is started exactly once
		gos := 0
		for _, b := range f.Blocks {
			for _, ins := range b.Instrs {
				if _, ok := ins.(*ssa.Go); ok {
					gos++
					rr.At(w, ins, "builder goroutine started once, not in a loop", !blockInCycle(b), "")
				}
			}
		}
	}
	// the send routine writes at most once
	a := w.sendAnchors()
	ec := ExitCounts(h.sendFn, func(ins ssa.Instruction) bool {
		c := callInstrCommon(ins)
		return c != nil && callMatches(c, a.writeTo)
	})
	ok := true
	for _, c := range ec {
		if c[1] > 1 {
			ok = false
		}
	}
	rr.Oblige(shortFuncName(h.sendFn), "at most one socket write per send", w.P.Pos(h.sendFn.Pos()), ok, fmt.Sprintf("%d exits", len(ec)))
}

func manyStr(n int) string {
	if n >= Many {
		return "unboundedly many"
	}
	return fmt.Sprint(n)
}

// errorCodeOfTerm: the constant Code of a krpc.Error value term (global initialiser, or composite
// literal), ok=false if not determinable.
func (w *World) errorCodeOfValue(v ssa.Value) (int64, string, bool) {
	code := w.P.Field("krpc", "Error", "Code")
	switch x := v.(type) {
	case *ssa.UnOp:
		// load of a global or of a local literal
		switch a := x.X.(type) {
		case *ssa.Global:
			if iv := w.GlobalInitField(a, code); iv != nil {
				if n, ok := ConstInt(iv); ok {
					return n, "global " + a.Name(), true
				}
			}
		case *ssa.Alloc:
			for _, r := range *a.Referrers() {
				if fa, ok := r.(*ssa.FieldAddr); ok && fieldOfAddr(fa) == code {
					for _, r2 := range *fa.Referrers() {
						if st, ok := r2.(*ssa.Store); ok {
							if n, ok := ConstInt(st.Val); ok {
								return n, "literal", true
							}
						}
					}
				}
			}
		}
	}
	return 0, "", false
}

func c08r4(w *World, rr *RuleRun) {
	h := w.handler()
	setReturnNodes := w.P.FuncOpt("(*Server).setReturnNodes")
	// default branch
	nDefault := 0
	for _, site := range w.CallsInRegion(h.fn, h.sendError) {
		cases := h.casesAt(w, site)
		if len(cases) == 1 && cases[0] == "default" {
			nDefault++
			n, src, ok := w.errorCodeOfValue(callInstrCommon(site).Args[3])
			rr.At(w, site, "unknown method is answered with error 204", ok && n == 204, fmt.Sprintf("error argument %s code=%d", src, n))
		}
	}
	if nDefault == 0 {
		rr.Oblige(shortFuncName(h.fn), "unknown method is answered with error 204", w.P.Pos(h.fn.Pos()), false, "no sendError site in the default branch")
	}
	// which method cases use the arguments dict?
	uses := map[string]ssa.Instruction{}
	eachInstr(w.regionFuncs(h.fn), func(fn *ssa.Function, ins ssa.Instruction) {
		if fn != h.fn && w.FE.inlineAt[fn] == nil {
			return
		}
		use := false
		switch i := ins.(type) {
		case *ssa.FieldAddr:
			t := w.TS.Of(i.X)
			if t.Op == OpField && t.Obj == h.msgA {
				use = true
			}
		default:
			if c := callInstrCommon(ins); c != nil && setReturnNodes != nil && c.StaticCallee() == setReturnNodes {
				use = true
			}
		}
		if !use {
			return
		}
		for _, c := range h.casesAt(w, ins) {
			if c != "" && c != "default" {
				if _, ok := uses[c]; !ok {
					uses[c] = ins
				}
			}
		}
	})
	var cs []string
	for c := range uses {
		cs = append(cs, c)
	}
	sort.Strings(cs)
	rr.rep.Extra["methods_using_arguments"] = cs
	// sendError sites with facts {case C, m.A == nil} and a 203 error
	has203 := map[string]string{}
	mA := FieldTerm(h.m, h.msgA)
	for _, site := range w.CallsInRegion(h.fn, h.sendError) {
		st := w.FE.StateBefore(site)
		if st == nil {
			continue
		}
		allNil := true
		for _, alt := range st {
			if !alt.HasKey("n", mA, false) {
				allNil = false
			}
		}
		if !allNil {
			continue
		}
		arg := callInstrCommon(site).Args[3]
		code, src, ok := w.errorCodeOfValue(arg)
		if !ok {
			// *setReturnNodes(...) : the callee's non-nil returns
			t := w.TS.Of(arg)
			if t.Op == OpDeref && setReturnNodes != nil && isCall(t.Args[0], setReturnNodes) {
				code, src, ok = w.nonNilReturnCode(setReturnNodes)
			}
		}
		for _, c := range h.casesAt(w, site) {
			if ok && code == 203 {
				has203[c] = src + " at " + w.P.InstrPos(site)
			} else if c != "" {
				rr.At(w, site, "missing arguments are answered with error 203 ("+c+")", false, fmt.Sprintf("error argument code=%d ok=%v", code, ok))
			}
		}
	}
	for _, c := range cs {
		src, ok := has203[c]
		ins := uses[c]
		if ok {
			rr.At(w, ins, "method "+c+" answers 203 when the arguments dict is absent", true, "203 from "+src)
		} else {
			rr.At(w, ins, "method "+c+" answers 203 when the arguments dict is absent", false, "the "+c+" branch uses the arguments dict but has no path m.A == nil → sendError(203)")
		}
	}
}

// nonNilReturnCode: if every non-nil return of fn (returning *krpc.Error) is the address of one
// global / literal error, its code.
func (w *World) nonNilReturnCode(fn *ssa.Function) (int64, string, bool) {
	code := w.P.Field("krpc", "Error", "Code")
	var found int64
	n := 0
	src := ""
	for _, b := range fn.Blocks {
		for _, ins := range b.Instrs {
			r, ok := ins.(*ssa.Return)
			if !ok || len(r.Results) != 1 {
				continue
			}
			vals := []ssa.Value{r.Results[0]}
			if phi, ok := r.Results[0].(*ssa.Phi); ok {
				vals = phi.Edges
			}
			for _, v := range vals {
				if c, ok := v.(*ssa.Const); ok && c.Value == nil {
					continue
				}
				g, ok := v.(*ssa.Global)
				if !ok {
					return 0, "", false
				}
				iv := w.GlobalInitField(g, code)
				if iv == nil {
					return 0, "", false
				}
				cn, ok := ConstInt(iv)
				if !ok || (n > 0 && cn != found) {
					return 0, "", false
				}
				found = cn
				n++
				src = "&" + g.Name() + " via " + shortFuncName(fn)
			}
		}
	}
	return found, src, n > 0
}

func c08r5(w *World, rr *RuleRun) {
	h := w.handler()
	pp := w.P.Func("(*Server).processPacket")
	msgY := w.P.Field("krpc", "Msg", "Y")
	n := 0
	eachInstr(append([]*ssa.Function{pp}, pp.AnonFuncs...), func(fn *ssa.Function, ins ssa.Instruction) {
		c := callInstrCommon(ins)
		if c == nil {
			return
		}
		st := w.FE.StateBefore(ins)
		if st == nil {
			return
		}
		isQuery := true
		for _, alt := range st {
			if !alt.Has("b", true, func(t *Term) bool {
				return t.Op == OpBin && t.Name == "==" && ((t.Args[0].IsConst(`"q"`) && t.Args[1].Op == OpField && t.Args[1].Obj == msgY) || (t.Args[1].IsConst(`"q"`) && t.Args[0].Op == OpField && t.Args[0].Obj == msgY))
			}) {
				isQuery = false
			}
		}
		if isQuery {
			return
		}
		// not known to be a query: must not be able to send
		for _, e := range w.CG.SiteOut[ins] {
			n++
			can := h.sendFns[e.Callee] || e.Callee == h.sendFn || e.Callee == h.fn
			if can || len(w.CG.SiteOut[ins]) > 0 {
				rr.At(w, ins, "non-query branch cannot reach the socket write via "+shortFuncName(e.Callee), !can, "callee "+shortFuncName(e.Callee)+" ("+e.Mode.String()+")")
			}
		}
	})
	// handleQuery is called only under Y == "q" (the complement)
	for _, e := range w.CG.CallersOf(h.fn) {
		w.Require(rr, e.Site, `handleQuery requires Y == "q"`, func(alt *Alt) (bool, string) {
			if alt.Has("b", true, func(t *Term) bool {
				return t.Op == OpBin && t.Name == "==" && (t.Args[0].IsConst(`"q"`) || t.Args[1].IsConst(`"q"`)) && strings.Contains(t.String(), ".Y")
			}) {
				return true, `Y == "q"`
			}
			return false, `no Y == "q" fact`
		})
	}
}

// c08r6: NewAddr keeps the address it was given; Raw() returns it. The reply destination is
// node.Raw() (C19.1) of NewAddr(ReadFrom's address) (C07.6), so this closes the chain
// "goes to that query's source address" for every component of the address, not just IP and port.
func c08r6(w *World, rr *RuleRun) {
	newAddr := w.P.Func("NewAddr")
	rawF := w.P.Field("", "cachedAddr", "raw")
	rawM := w.P.Func("(cachedAddr).Raw")
	var param *ssa.Parameter
	if len(newAddr.Params) == 1 {
		param = newAddr.Params[0]
	} else {
		rr.Broken("NewAddr does not take exactly one parameter")
	}
	n := 0
	for _, ins := range w.FieldWrites(w.P.LibFuncs, rawF) {
		st, ok := ins.(*ssa.Store)
		if !ok {
			continue
		}
		n++
		if enclosingNamed(st.Parent()) != newAddr {
			rr.At(w, ins, "cachedAddr.raw is set only by NewAddr", false, "in "+shortFuncName(st.Parent()))
			continue
		}
		ok, why := faithfulCopy(w, st.Val, param, 0)
		rr.At(w, ins, "cachedAddr.raw is the address given to NewAddr, complete", ok, why)
	}
	if n == 0 {
		rr.Oblige("NewAddr", "cachedAddr.raw is the address given to NewAddr, complete", w.P.Pos(newAddr.Pos()), false, "no store to cachedAddr.raw")
	}
	okRet, nRet := true, 0
	det := ""
	eachInstr([]*ssa.Function{rawM}, func(_ *ssa.Function, ins ssa.Instruction) {
		if ret, ok := ins.(*ssa.Return); ok && len(ret.Results) == 1 {
			nRet++
			t := w.TS.Of(ret.Results[0])
			if !(isFieldTerm(t, rawF)) {
				okRet = false
				det = t.String()
			}
		}
	})
	rr.Oblige(shortFuncName(rawM), "Raw() returns the stored address", w.P.Pos(rawM.Pos()), okRet && nRet > 0, det)
}

// faithfulCopy: v is param itself, or a freshly allocated struct in which every field of the
// struct type is stored from the same-named field of (a type assertion of) param.
func faithfulCopy(w *World, v ssa.Value, param *ssa.Parameter, depth int) (bool, string) {
	if depth > 4 {
		return false, "too deep"
	}
	switch x := v.(type) {
	case *ssa.Parameter:
		if x == param {
			return true, "the parameter itself"
		}
	case *ssa.Phi:
		for _, e := range x.Edges {
			if ok, why := faithfulCopy(w, e, param, depth+1); !ok {
				return false, why
			}
		}
		return true, "every incoming value is the parameter or a complete copy"
	case *ssa.MakeInterface:
		return faithfulCopy(w, x.X, param, depth+1)
	case *ssa.ChangeInterface:
		return faithfulCopy(w, x.X, param, depth+1)
	case *ssa.ChangeType:
		return faithfulCopy(w, x.X, param, depth+1)
	case *ssa.Extract:
		if ta, ok := x.Tuple.(*ssa.TypeAssert); ok && x.Index == 0 {
			return faithfulCopy(w, ta.X, param, depth+1)
		}
	case *ssa.TypeAssert:
		return faithfulCopy(w, x.X, param, depth+1)
	case *ssa.Alloc:
		st, ok := x.Type().Underlying().(*types.Pointer).Elem().Underlying().(*types.Struct)
		if !ok {
			break
		}
		have := map[int]bool{}
		for _, r := range *x.Referrers() {
			fa, ok := r.(*ssa.FieldAddr)
			if !ok {
				continue
			}
			for _, r2 := range *fa.Referrers() {
				s, ok := r2.(*ssa.Store)
				if !ok || s.Addr != fa {
					continue
				}
				// the value mentions the same field of something derived from param
				t := w.TS.Of(s.Val)
				fld := st.Field(fa.Field)
				good := false
				t.Walk(func(y *Term) bool {
					if y.Op == OpField && y.Obj == fld && termMentionsParam(y, param) {
						good = true
					}
					return !good
				})
				if good {
					have[fa.Field] = true
				}
			}
		}
		var missing []string
		for i := 0; i < st.NumFields(); i++ {
			if !have[i] {
				missing = append(missing, st.Field(i).Name())
			}
		}
		if len(missing) == 0 {
			return true, "a copy carrying every field"
		}
		return false, "a copy of the address that does not carry over " + strings.Join(missing, ", ")
	}
	return false, "stores " + trunc(w.TS.Of(v).String(), 120) + ", not the address given"
}

func termMentionsParam(t *Term, p *ssa.Parameter) bool {
	found := false
	t.Walk(func(y *Term) bool {
		if y.Op == OpParam && y.Name == p.Name() && y.Fn == p.Parent() {
			found = true
		}
		return !found
	})
	return found
}

// c08r7: "always get one" starts with reading the whole datagram.
func c08r7(w *World, rr *RuleRun) {
	readFrom := w.P.ExtMethod("net", "PacketConn", "ReadFrom")
	n := 0
	for _, site := range w.AllCallsTo(w.P.LibFuncs, readFrom) {
		c := callInstrCommon(site)
		if !c.IsInvoke() || len(c.Args) != 1 {
			continue
		}
		n++
		ln, how := constSliceLen(c.Args[0])
		rr.At(w, site, "the read buffer is longer than the largest UDP payload (65527 bytes)", ln > 65527, fmt.Sprintf("buffer length %d (%s)", ln, how))
	}
	if n == 0 {
		rr.Broken("no PacketConn.ReadFrom call found")
	}
}

// constSliceLen: the constant length of a slice value built from a fixed array or make; -1 if unknown.
func constSliceLen(v ssa.Value) (int64, string) {
	switch x := v.(type) {
	case *ssa.Slice:
		var arr *types.Array
		if pt, ok := x.X.Type().Underlying().(*types.Pointer); ok {
			arr, _ = pt.Elem().Underlying().(*types.Array)
		}
		if arr == nil {
			if inner, how := constSliceLen(x.X); inner >= 0 && x.Low == nil && x.High == nil {
				return inner, how
			}
			return -1, "slice of a non-array"
		}
		lo, hi := int64(0), arr.Len()
		if x.Low != nil {
			c, ok := ConstInt(x.Low)
			if !ok {
				return -1, "non-constant low bound"
			}
			lo = c
		}
		if x.High != nil {
			c, ok := ConstInt(x.High)
			if !ok {
				return -1, "non-constant high bound"
			}
			hi = c
		}
		return hi - lo, fmt.Sprintf("array of %d", arr.Len())
	case *ssa.MakeSlice:
		if c, ok := ConstInt(x.Len); ok {
			return c, "make"
		}
		return -1, "make with a non-constant length"
	case *ssa.UnOp:
		// load of a single-assignment local holding the slice
		if al, ok := x.X.(*ssa.Alloc); ok && al.Referrers() != nil {
			var val ssa.Value
			cnt := 0
			for _, r := range *al.Referrers() {
				if st, ok := r.(*ssa.Store); ok && st.Addr == al {
					cnt++
					val = st.Val
				}
			}
			if cnt == 1 {
				return constSliceLen(val)
			}
		}
	}
	return -1, "unknown origin"
}

// c08r8: address bytes are immutable once received. crcIP masks a COPY; masking the caller's slice
// in place would rewrite the source address the reply is about to be sent to.
func c08r8(w *World, rr *RuleRun) {
	n := 0
	isIPLike := func(t types.Type) bool {
		s := t.String()
		return s == "net.IP" || strings.HasSuffix(s, "net.IP")
	}
	eachInstr(w.P.LibFuncs, func(fn *ssa.Function, ins ssa.Instruction) {
		st, ok := ins.(*ssa.Store)
		if !ok {
			return
		}
		ia, ok := st.Addr.(*ssa.IndexAddr)
		if !ok || !isIPLike(ia.X.Type()) {
			return
		}
		n++
		bad := w.staleSliceOrigins(ia.X, 0, map[ssa.Value]bool{})
		// reslicing or To4() of a parameter is still the parameter's storage
		rr.At(w, ins, "bytes of an IP are written only in a private copy", len(bad) == 0, strings.Join(bad, "; "))
	})
	if n == 0 {
		rr.ObligeTrivial("(library)", "no library code writes IP bytes in place", "-", true, "")
	}
}

// cPoolLifetime: a function that hands an object back to a sync.Pool (directly or deferred) must not
// return memory of that object (buf.Bytes(), a reslice): the next Get may overwrite it while the
// caller still uses it. Shared by C08.11 (reply bytes) and C12.7 (buffer that is signed/verified).
func cPoolLifetime(w *World, rr *RuleRun) {
	n := 0
	for _, f := range w.P.LibFuncs {
		var puts []ssa.Value
		eachInstr([]*ssa.Function{f}, func(_ *ssa.Function, ins ssa.Instruction) {
			c := callInstrCommon(ins)
			if c == nil {
				return
			}
			if o := calleeObj(c); o != nil && o.Name() == "Put" && recvNamed(o) == "Pool" && len(c.Args) == 2 {
				v := c.Args[1]
				if mi, ok := v.(*ssa.MakeInterface); ok {
					v = mi.X
				}
				puts = append(puts, v)
			}
		})
		if len(puts) == 0 {
			continue
		}
		for _, b := range f.Blocks {
			for _, ins := range b.Instrs {
				r, ok := ins.(*ssa.Return)
				if !ok {
					continue
				}
				for _, res := range r.Results {
					if _, isSlice := res.Type().Underlying().(*types.Slice); !isSlice {
						continue
					}
					n++
					rt := w.TS.Of(res)
					bad := ""
					for _, pv := range puts {
						if rt.Contains(w.TS.Of(pv)) {
							bad = "returns " + trunc(rt.String(), 80) + ", memory of an object this function puts back into a pool"
						}
					}
					rr.At(w, ins, "no returned slice aliases an object handed back to a pool", bad == "", bad)
				}
			}
		}
	}
	if n == 0 {
		rr.ObligeTrivial("(library)", "no library function both recycles an object and returns a slice", "-", true, "no sync.Pool use")
	}
}
