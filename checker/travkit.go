package main

// Shared helpers for the traversal rules (C02, C03, C04) and the condition-variable protocol.

import (
	"go/token"
	"go/types"
	"sort"
	"strings"

	"golang.org/x/tools/go/ssa"
)

type trav struct {
	opT                                                                               *types.Named
	closest, unqueried, queried, outstanding, cond, stalled, stopping, stopped, input *types.Var
	alpha, k, doQuery, nodeFilter, dataFilter, target                                 *types.Var
	start, run                                                                        *ssa.Function
	mu                                                                                *types.Var
	push, knnNew, farthest, full                                                      *ssa.Function
}

func (w *World) trav() *trav {
	p := w.P
	t := &trav{
		opT:         p.NamedType("traversal", "Operation"),
		closest:     p.Field("traversal", "Operation", "closest"),
		unqueried:   p.Field("traversal", "Operation", "unqueried"),
		queried:     p.Field("traversal", "Operation", "queried"),
		outstanding: p.Field("traversal", "Operation", "outstanding"),
		cond:        p.Field("traversal", "Operation", "cond"),
		stalled:     p.Field("traversal", "Operation", "stalled"),
		stopping:    p.Field("traversal", "Operation", "stopping"),
		stopped:     p.Field("traversal", "Operation", "stopped"),
		input:       p.Field("traversal", "Operation", "input"),
		alpha:       p.Field("traversal", "OperationInput", "Alpha"),
		k:           p.Field("traversal", "OperationInput", "K"),
		doQuery:     p.Field("traversal", "OperationInput", "DoQuery"),
		nodeFilter:  p.Field("traversal", "OperationInput", "NodeFilter"),
		dataFilter:  p.Field("traversal", "OperationInput", "DataFilter"),
		target:      p.Field("traversal", "OperationInput", "Target"),
		start:       p.Func("traversal.Start"),
		run:         p.Func("(*traversal.Operation).run"),
		push:        p.Func("(k-nearest-nodes.Type).Push"),
		knnNew:      p.Func("k-nearest-nodes.New"),
		farthest:    p.Func("(k-nearest-nodes.Type).Farthest"),
		full:        p.Func("(k-nearest-nodes.Type).Full"),
	}
	t.mu = w.LK.ClassByName("traversal.Operation.mu")
	return t
}

// isFieldTerm: t selects field fv (of anything).
func isFieldTerm(t *Term, fv *types.Var) bool {
	return t != nil && t.Op == OpField && t.Obj == fv
}

// mentionsField: some sub-term of t selects field fv.
func mentionsField(t *Term, fv *types.Var) bool { return hasFieldAnywhere(t, fv) }

func hasFieldAnywhere(t *Term, fv *types.Var) bool {
	found := false
	t.Walk(func(x *Term) bool {
		if x.Op == OpField && x.Obj == fv {
			found = true
		}
		return !found
	})
	return found
}

// dynThrough: t is a call through a function value held in field fv; returns the argument terms.
func dynThrough(t *Term, fv *types.Var) ([]*Term, bool) {
	if t == nil || t.Op != OpDyn || len(t.Args) == 0 || !isFieldTerm(t.Args[0], fv) {
		return nil, false
	}
	return t.Args[1:], true
}

// allocOfLoad: v is a load of a local cell; returns the cell.
func allocOfLoad(v ssa.Value) *ssa.Alloc {
	if u, ok := v.(*ssa.UnOp); ok && u.Op == token.MUL {
		if a, ok := u.X.(*ssa.Alloc); ok {
			return a
		}
	}
	return nil
}

// allocFieldStores: field name -> value stored, for a local struct cell (composite literal).
func allocFieldStores(al *ssa.Alloc) map[string]ssa.Value {
	out := map[string]ssa.Value{}
	if al.Referrers() == nil {
		return out
	}
	for _, r := range *al.Referrers() {
		fa, ok := r.(*ssa.FieldAddr)
		if !ok || fa.Referrers() == nil {
			continue
		}
		st := fa.X.Type().Underlying().(*types.Pointer).Elem().Underlying().(*types.Struct)
		for _, r2 := range *fa.Referrers() {
			if s, ok := r2.(*ssa.Store); ok && s.Addr == fa {
				out[st.Field(fa.Field).Name()] = s.Val
			}
		}
	}
	return out
}

// freshBase: the struct whose field is addressed by fa is a fresh allocation of the same function
// (constructor initialising an unpublished object).
func freshBase(fa *ssa.FieldAddr) bool {
	x := fa.X
	for i := 0; i < 6; i++ {
		switch v := x.(type) {
		case *ssa.Alloc:
			return true
		case *ssa.FieldAddr:
			x = v.X
		case *ssa.IndexAddr:
			x = v.X
		default:
			return false
		}
	}
	return false
}

// fieldAccess classifies one use of a field address.
type fieldAccess struct {
	Ins   ssa.Instruction
	Write bool
	Fresh bool // on an unpublished object
	Kind  string
}

// FieldAccesses lists loads/stores/map operations/address escapes through every FieldAddr of fv in fs.
func (w *World) FieldAccesses(fs []*ssa.Function, fv *types.Var) []fieldAccess {
	var out []fieldAccess
	for _, fa := range w.FieldAddrs(fs, fv) {
		fresh := freshBase(fa)
		if fa.Referrers() == nil {
			continue
		}
		for _, r := range *fa.Referrers() {
			switch x := r.(type) {
			case *ssa.Store:
				if x.Addr == ssa.Value(fa) {
					out = append(out, fieldAccess{x, true, fresh, "store"})
				} else {
					out = append(out, fieldAccess{x, false, fresh, "address stored"})
				}
			case *ssa.UnOp:
				wr := false
				kind := "load"
				// a loaded map that is updated / deleted from is a write to the field's contents
				if x.Referrers() != nil {
					for _, r2 := range *x.Referrers() {
						switch y := r2.(type) {
						case *ssa.MapUpdate:
							if y.Map == ssa.Value(x) {
								wr, kind = true, "map update"
							}
						case ssa.CallInstruction:
							if bi, ok := y.Common().Value.(*ssa.Builtin); ok && (bi.Name() == "delete" || bi.Name() == "clear") {
								wr, kind = true, "map delete"
							}
						}
					}
				}
				out = append(out, fieldAccess{x, wr, fresh, kind})
			case *ssa.FieldAddr, *ssa.IndexAddr:
				// in-place access to a sub-location: treat the sub-address' uses
				sub := r.(ssa.Value)
				wr := w.TS.hasStoreThrough(sub, 0)
				out = append(out, fieldAccess{r.(ssa.Instruction), wr, fresh, "sub-location"})
			case *ssa.Return:
				out = append(out, fieldAccess{x, false, fresh, "address returned"})
			case ssa.CallInstruction:
				// the callee may write through the address if its (parameter-relative) mod set touches
				// a field reachable inside the pointee
				out = append(out, fieldAccess{x, w.calleeWritesInto(x, fa, fv.Type()), fresh, "address passed to call"})
			case *ssa.DebugRef:
			default:
				if ins, ok := r.(ssa.Instruction); ok {
					out = append(out, fieldAccess{ins, true, fresh, "other use"})
				}
			}
		}
	}
	return out
}

// GuardedBy: one obligation per access of fv outside constructors: class must be held (write mode
// for writes). Accesses in functions the lock engine never reached are listed as trivial.
// exempt may discharge an access with a reason (e.g. a documented hand-out of the address).
func (w *World) GuardedBy(rr *RuleRun, fs []*ssa.Function, fv *types.Var, class *types.Var, owner string, exempt func(a fieldAccess) (bool, string)) int {
	w.LK.Run()
	n := 0
	for _, a := range w.FieldAccesses(fs, fv) {
		what := owner + "." + fv.Name() + " " + a.Kind + " under " + w.LK.ClassName(class)
		if a.Fresh {
			rr.ObligeTrivialAt(w, a.Ins, what+" (object under construction, unpublished)", true, "")
			continue
		}
		if exempt != nil {
			if ok, why := exempt(a); ok {
				rr.ObligeTrivialAt(w, a.Ins, what+" (exempt)", true, why)
				continue
			}
		}
		st := w.LK.StatesAt(class, a.Ins)
		if st == nil {
			rr.ObligeTrivialAt(w, a.Ins, what+" (function not reachable from an API or goroutine root)", true, "")
			continue
		}
		n++
		rr.At(w, a.Ins, what, allHeld(st, a.Write && isRW(class)), "lock states over all call paths: "+statesString(st))
	}
	return n
}

// isRW: the class is an RWMutex (then writes need the write lock); for a plain Mutex any hold is W.
func isRW(class *types.Var) bool {
	n, ok := types.Unalias(class.Type()).(*types.Named)
	return ok && n.Obj().Name() == "RWMutex"
}

// ---- condition-variable protocol ---------------------------------------------------------------------

func isChansyncMethod(c *ssa.CallCommon, typ, method string) bool {
	o := calleeObj(c)
	if o == nil || o.Name() != method || o.Pkg() == nil || !strings.HasSuffix(o.Pkg().Path(), "anacrolix/chansync") {
		return false
	}
	sig := o.Type().(*types.Signature)
	if sig.Recv() == nil {
		return false
	}
	rt := sig.Recv().Type()
	if pt, ok := rt.(*types.Pointer); ok {
		rt = pt.Elem()
	}
	n, ok := types.Unalias(rt).(*types.Named)
	return ok && n.Obj().Name() == typ
}

// condCalls lists the calls of BroadcastCond.<method> in lib code whose receiver is field fv.
func (w *World) condCalls(fv *types.Var, method string) []ssa.Instruction {
	var out []ssa.Instruction
	eachInstr(w.P.LibFuncs, func(fn *ssa.Function, ins ssa.Instruction) {
		c := callInstrCommon(ins)
		if c == nil || c.IsInvoke() || len(c.Args) == 0 || !isChansyncMethod(c, "BroadcastCond", method) {
			return
		}
		if fieldOfAddr(c.Args[0]) == fv {
			out = append(out, ins)
		}
	})
	return out
}

// broadcastCondFields: every struct field of type chansync.BroadcastCond in library packages.
func (w *World) broadcastCondFields() []*types.Var {
	var out []*types.Var
	for _, pk := range w.P.Pkgs {
		if !isLibPkgPath(pk.PkgPath) {
			continue
		}
		sc := pk.Types.Scope()
		for _, name := range sc.Names() {
			tn, ok := sc.Lookup(name).(*types.TypeName)
			if !ok {
				continue
			}
			st, ok := tn.Type().Underlying().(*types.Struct)
			if !ok {
				continue
			}
			for i := 0; i < st.NumFields(); i++ {
				f := st.Field(i)
				if n, ok := types.Unalias(f.Type()).(*types.Named); ok && n.Obj().Name() == "BroadcastCond" && n.Obj().Pkg() != nil && strings.HasSuffix(n.Obj().Pkg().Path(), "anacrolix/chansync") {
					out = append(out, f)
				}
			}
		}
	}
	sort.Slice(out, func(i, j int) bool { return out[i].Name() < out[j].Name() })
	return out
}

// guardClassOf: the one mutex class held (in some mode) at every Broadcast() of the cond field.
func (w *World) guardClassOf(cond *types.Var) (*types.Var, string) {
	w.LK.Run()
	bcs := w.condCalls(cond, "Broadcast")
	if len(bcs) == 0 {
		return nil, "no Broadcast() call on the field"
	}
	var found *types.Var
	for _, c := range w.LK.Classes {
		all := true
		for _, b := range bcs {
			st := w.LK.StatesAtExec(c, b)
			if st == nil || !allHeld(st, false) {
				all = false
			}
		}
		if all {
			if found != nil {
				return nil, "more than one class is held at every Broadcast()"
			}
			found = c
		}
	}
	if found == nil {
		return nil, "no mutex class is held at every Broadcast()"
	}
	return found, ""
}

// isBroadcastOn: ins is a call or defer that broadcasts on cond on every path: a direct
// Broadcast() call, or a call of a single module callee (closure / helper) whose every return is
// preceded by such a call (depth-limited).
func (w *World) isBroadcastOn(ins ssa.Instruction, cond *types.Var, depth int) bool {
	c := callInstrCommon(ins)
	if c == nil {
		return false
	}
	if _, isGo := ins.(*ssa.Go); isGo {
		return false
	}
	if !c.IsInvoke() && len(c.Args) > 0 && isChansyncMethod(c, "BroadcastCond", "Broadcast") && fieldOfAddr(c.Args[0]) == cond {
		return true
	}
	if depth > 2 {
		return false
	}
	es := w.CG.SiteOut[ins]
	if len(es) != 1 || es[0].Callback {
		return false
	}
	g := es[0].Callee
	if len(g.Blocks) == 0 {
		return false
	}
	first := g.Blocks[0].Instrs[0]
	if w.isBroadcastOn(first, cond, depth+1) {
		return true
	}
	ok, _ := MustPass(first, func(i ssa.Instruction) bool { return w.isBroadcastOn(i, cond, depth+1) })
	return ok
}

// writesAnyField: executing ins may (transitively, synchronously) write one of the fields.
func (w *World) writesAnyField(ins ssa.Instruction, fields map[*types.Var]bool) *types.Var {
	switch x := ins.(type) {
	case *ssa.Store:
		if fv := fieldOfAddr(x.Addr); fv != nil && fields[fv] {
			return fv
		}
	case *ssa.MapUpdate:
		if fv := fieldOfAddr(x.Map); fv != nil && fields[fv] {
			return fv
		}
	}
	if c := callInstrCommon(ins); c != nil {
		if _, isGo := ins.(*ssa.Go); isGo {
			return nil
		}
		if bi, ok := c.Value.(*ssa.Builtin); ok {
			if (bi.Name() == "delete" || bi.Name() == "clear") && len(c.Args) > 0 {
				if fv := fieldOfAddr(c.Args[0]); fv != nil && fields[fv] {
					return fv
				}
			}
			return nil
		}
		for fv := range w.MR.SiteMod(ins, -1) {
			if fields[fv] {
				return fv
			}
		}
	}
	return nil
}

// readsAnyField: executing ins reads one of the fields directly or through a synchronous module callee.
func (w *World) readsAnyField(ins ssa.Instruction, fields map[*types.Var]bool) *types.Var {
	switch x := ins.(type) {
	case *ssa.UnOp:
		if x.Op == token.MUL {
			if fa, ok := x.X.(*ssa.FieldAddr); ok {
				if fv := fieldOfAddr(fa); fv != nil && fields[fv] {
					return fv
				}
			}
		}
	}
	if c := callInstrCommon(ins); c != nil {
		if _, isGo := ins.(*ssa.Go); isGo {
			return nil
		}
		for _, e := range w.CG.SiteOut[ins] {
			if e.Mode == ModeGo {
				continue
			}
			for fv := range w.MR.Ref[e.Callee] {
				if fields[fv] {
					return fv
				}
			}
		}
	}
	return nil
}

// instrsAfter lists the instructions reachable in fn after ins (ins excluded; loops may reach ins again).
func instrsAfter(ins ssa.Instruction) []ssa.Instruction {
	var out []ssa.Instruction
	b := ins.Block()
	idx := instrIndex(ins)
	out = append(out, b.Instrs[idx+1:]...)
	seen := map[*ssa.BasicBlock]bool{}
	stack := append([]*ssa.BasicBlock{}, b.Succs...)
	for len(stack) > 0 {
		x := stack[len(stack)-1]
		stack = stack[:len(stack)-1]
		if seen[x] {
			continue
		}
		seen[x] = true
		out = append(out, x.Instrs...)
		stack = append(stack, x.Succs...)
	}
	return out
}

// reachableFields: struct fields inside t without following pointers (arrays and nested structs are
// followed; maps/slices held in such fields count as part of the value).
func reachableFields(t types.Type, out map[*types.Var]bool, depth int) {
	if depth > 4 {
		return
	}
	switch u := t.Underlying().(type) {
	case *types.Struct:
		for i := 0; i < u.NumFields(); i++ {
			f := u.Field(i)
			out[f] = true
			reachableFields(f.Type(), out, depth+1)
		}
	case *types.Array:
		reachableFields(u.Elem(), out, depth+1)
	}
}

// calleeWritesInto: some synchronous callee of the call may write a field that lives inside a value
// of type t (the pointee whose address the call receives).
func (w *World) calleeWritesInto(call ssa.CallInstruction, addr ssa.Value, t types.Type) bool {
	fields := map[*types.Var]bool{}
	reachableFields(t, fields, 0)
	ins := call.(ssa.Instruction)
	es := w.CG.SiteOut[ins]
	if len(es) == 0 {
		// external / opaque callee: fall back to the read-only test
		return true
	}
	argIdx := -1
	c := call.Common()
	for i, a := range c.Args {
		if a == addr {
			argIdx = i
		}
	}
	if _, isGo := ins.(*ssa.Go); isGo {
		return true
	}
	for fv := range w.MR.SiteMod(ins, argIdx) {
		if fields[fv] {
			return true
		}
	}
	return false
}
