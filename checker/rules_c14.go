package main

import (
	"fmt"
	"go/token"
	"go/types"
	"strings"

	"golang.org/x/tools/go/ssa"
)

func init() {
	register(&Property{
		ID:    "C14",
		Title: "Every query and traversal ends and cleans up after itself",
		Decided: "C14.1 Query's bracket: from registration every path to return passes, in order, cancelSend(), the join of the sender (<-sendErr) and deregistration; the sender closes sendErr on every path and sends at most once on it before, on a channel of constant capacity ≥ 1; the wait in Query has a case for the reply, for the caller's context and for the sender; " +
			"C14.2 bounded sends: send() is only called under sends < maxSends, sends is incremented on every path back to the loop head, the loop leaves on ctx.Done(); after it the sender waits exactly one resend interval or cancellation and returns a non-nil error; maxSends is the query's NumTries, defaulted from the package constant when zero; " +
			"C14.3 traversal ownership: every traversal.Start result (directly, or received from a helper that returns it) is Stop()ped on every return path of its owner - by a call, a deferred closure, or a goroutine started on that path that stops it on all of its paths; a helper never returns a running operation together with a non-nil error; " +
			"C14.4 every context.WithCancel cancel function is called or deferred on every return path of its creator; " +
			"C14.5 helper goroutines terminate: the goroutine delivering a reply sends on a fresh channel of capacity ≥ 1 (it can never block, whenever the reply arrives); a traversal query's context is cancelled by a watcher on the stopping event and the watcher itself is released by the cancel that follows the query (shared with C07.5, C04.4); " +
			"C14.6 closed means silent: the one socket write is dominated by closed.IsSet()=false evaluated under the lock in the same call (shared with C19.1); " +
			"C14.7 every blocking operation (channel wait, WaitGroup.Wait, socket I/O) executes with Server.mu released in every calling context, so a join can never wait for a query that needs the lock to finish; " +
			"C14.9 inside every function installed as a traversal's DoQuery callback, each blocking channel operation is a select with a receive on Done() of the callback's own context parameter (the context the traversal cancels when it starts stopping, C04.4) or on a close event every setter of which also stops the lookup - not the caller's context, and not an event such as Stopped() that itself waits for the callback to return; " +
			"C14.8 each goroutine that reports Done on a WaitGroup is counted by Add in the starting goroutine before the go statement. C14.11 no goroutine the library starts waits only on Done() of a SetOnce field (an event only a user Close() sets): bare receive or select of such cases only; C14.12 a response is delivered only to a transaction removed from the table by the lookup that found it (a non-removing lookup is decided as a violation; shared with C07.2).",
		NotDecided: "goroutine and datagram counts at run time, latency bounds, behaviour of custom Conn implementations; whether callers of the public API (Announce.Close, StopTraversing) are eventually invoked.",
		Assume:     []string{"traversal.Operation.Stop is idempotent (guarded by stopping.Set())"},
		Rules: []*Rule{
			{ID: "C14.1", Doc: "Query joins its sender and deregisters on every path", Floor: 8, Run: c14r1},
			{ID: "C14.2", Doc: "bounded, counted sends", Floor: 6, Run: c14r2},
			{ID: "C14.3", Doc: "every started traversal is stopped by its owner", Floor: 8, Run: c14r3},
			{ID: "C14.4", Doc: "cancel functions are always called", Floor: 3, Run: c14r4},
			{ID: "C14.5", Doc: "helper goroutines always terminate: reply delivery cannot block, per-query watcher is released and fires on stop", Floor: 5, Run: func(w *World, rr *RuleRun) { c07r5(w, rr); c04r4(w, rr) }},
			{ID: "C14.6", Doc: "no write after close", Floor: 4, Run: c19r1},
			{ID: "C14.7", Doc: "joins cannot deadlock on the server lock: every channel wait, WaitGroup.Wait and socket call runs with Server.mu released (shared with C01.7)", Floor: 10, Run: c01r7},
			{ID: "C14.9", Doc: "a query callback can always be released by stopping its lookup: each of its blocking channel operations has a case on its own query context", Floor: 3, Run: c14r9},
			{ID: "C14.10", Doc: "every wait inside the send routine can be ended by the caller's context (a held sender would keep Query from returning)", Floor: 1, Run: c14r10},
			{ID: "C14.8", Doc: "WaitGroup joins count every goroutine before it starts", Floor: 3, Run: c14r8},
			{ID: "C14.11", Doc: "no library goroutine waits only for an event that the user alone can cause (a Close() that may never come)", Floor: 5, Run: c14r11},
			{ID: "C14.12", Doc: "a response is delivered only to a transaction removed from the table in the same critical section: at most one delivery per transaction (shared with C07.2)", Floor: 5, Run: c07r2},
		},
	})
}

// c14r11: every goroutine the library starts is examined; a bare receive (or a select all of whose
// cases are such receives) on Done() of a SetOnce field - an event set only by a Close-like call of
// the user - keeps the goroutine alive for as long as the user does not close the object, i.e.
// possibly for ever, one per operation. A watcher must also wait on something that is bound to
// happen (its own context, cancelled by a deferred cancel; the traversal's Stopped()).
func c14r11(w *World, rr *RuleRun) {
	userEvent := func(ch *Term) bool {
		if ch.Op != OpCall || suffixName(ch) != "Done" || !strings.Contains(ch.Name, "SetOnce") || len(ch.Args) != 1 {
			return false
		}
		at := ch.Args[0]
		return at.Op == OpAddr && len(at.Args) == 1 && at.Args[0].Op == OpField
	}
	seen := map[*ssa.Function]bool{}
	eachInstr(w.P.LibFuncs, func(fn *ssa.Function, ins ssa.Instruction) {
		g, ok := ins.(*ssa.Go)
		if !ok {
			return
		}
		var target *ssa.Function
		switch v := g.Call.Value.(type) {
		case *ssa.MakeClosure:
			target, _ = v.Fn.(*ssa.Function)
		case *ssa.Function:
			target = v
		}
		if target == nil {
			target = g.Call.StaticCallee()
		}
		if target == nil || !w.P.IsLib(target) || len(target.Blocks) == 0 || seen[target] {
			return
		}
		seen[target] = true
		bad := ssa.Instruction(nil)
		what := ""
		eachInstr([]*ssa.Function{target}, func(_ *ssa.Function, i2 ssa.Instruction) {
			switch x := i2.(type) {
			case *ssa.UnOp:
				if x.Op == token.ARROW && userEvent(w.TS.Of(x.X)) {
					bad, what = i2, "bare receive from "+trunc(w.TS.Of(x.X).String(), 80)
				}
			case *ssa.Select:
				if !x.Blocking || len(x.States) == 0 {
					return
				}
				all := true
				for _, st := range x.States {
					if !(st.Dir == types.RecvOnly && userEvent(w.TS.Of(st.Chan))) {
						all = false
					}
				}
				if all {
					bad, what = i2, "select with only user-driven close events"
				}
			}
		})
		if bad != nil {
			rr.At(w, bad, "a started goroutine does not wait only for the user's Close()", false, what+" in a goroutine started at "+w.P.Pos(g.Pos()))
		} else {
			rr.Oblige(shortFuncName(target), "a started goroutine does not wait only for the user's Close()", w.P.Pos(target.Pos()), true, "")
		}
	})
}

func c14r1(w *World, rr *RuleRun) {
	q := w.P.Func("(*Server).Query")
	addT := w.P.Func("(*Server).addTransaction")
	delT := w.P.Func("(*Server).deleteTransaction")
	sender := w.P.Func("(*Server).transactionQuerySender")
	// the sendErr channel: the MakeChan whose value is received from in Query and closed in the sender goroutine
	var sendErr *ssa.MakeChan
	var senderG *ssa.Function
	var goIns ssa.Instruction
	for _, b := range q.Blocks {
		for _, ins := range b.Instrs {
			if g, ok := ins.(*ssa.Go); ok {
				for _, e := range w.CG.SiteOut[g] {
					if len(w.CallsIn(e.Callee, sender, true)) > 0 {
						senderG, goIns = e.Callee, g
					}
				}
			}
		}
	}
	if senderG == nil {
		rr.Oblige(shortFuncName(q), "Query starts a sender goroutine", w.P.Pos(q.Pos()), false, "none found")
		return
	}
	// in the sender: close(ch) calls
	var closes []ssa.Instruction
	for _, b := range senderG.Blocks {
		for _, ins := range b.Instrs {
			if c := callInstrCommon(ins); c != nil {
				if bi, ok := c.Value.(*ssa.Builtin); ok && bi.Name() == "close" {
					closes = append(closes, ins)
					t := w.TS.Of(c.Args[0])
					if t.Op == OpOpaque {
						if mk, ok := t.Obj.(*ssa.MakeChan); ok {
							sendErr = mk
						}
					}
				}
			}
		}
	}
	if sendErr == nil {
		rr.Oblige(shortFuncName(senderG), "the sender closes its completion channel", w.P.Pos(senderG.Pos()), false, "no close(<channel made in Query>)")
		return
	}
	capV, isC := ConstInt(sendErr.Size)
	rr.At(w, sendErr, "the sender's completion channel has constant capacity ≥ 1 (the sender never blocks on it)", isC && capV >= 1, fmt.Sprintf("capacity %d", capV))
	isChan := func(v ssa.Value) bool {
		t := w.TS.Of(v)
		return t.Op == OpOpaque && t.Obj == ssa.Value(sendErr)
	}
	first := senderG.Blocks[0].Instrs[0]
	isClose := func(i ssa.Instruction) bool {
		c := callInstrCommon(i)
		if c == nil {
			return false
		}
		bi, ok := c.Value.(*ssa.Builtin)
		return ok && bi.Name() == "close" && isChan(c.Args[0])
	}
	okClose, _ := MustPass(first, isClose)
	rr.At(w, first, "the sender closes the completion channel on every path", okClose || isClose(first), "")
	nSend := 0
	for _, b := range senderG.Blocks {
		for _, ins := range b.Instrs {
			if s, ok := ins.(*ssa.Send); ok && isChan(s.Chan) {
				nSend++
				rr.At(w, ins, "the only send on the completion channel is not in a loop and precedes close", !blockInCycle(b) && !PrecededBy(ins, isClose), "")
			}
		}
	}
	rr.Oblige(shortFuncName(senderG), "the sender sends at most once on the completion channel", w.P.Pos(senderG.Pos()), nSend <= 1, fmt.Sprintf("%d send sites", nSend))
	// in Query: order after registration
	var adds []ssa.Instruction
	for _, lc := range w.callsLifted(q, addT) {
		adds = append(adds, lc.Root)
	}
	// cancelSend: result #1 of the WithCancel whose #0 is passed to the sender
	isCancel := func(i ssa.Instruction) bool {
		c, ok := i.(*ssa.Call)
		if !ok {
			return false
		}
		ct := w.TS.Of(c)
		return ct.Op == OpDyn && len(ct.Args) == 1 && ct.Args[0].Op == OpExtract && ct.Args[0].Name == "1" && strings.Contains(ct.Args[0].Args[0].String(), "context.WithCancel")
	}
	isJoin := func(i ssa.Instruction) bool {
		u, ok := i.(*ssa.UnOp)
		return ok && u.Op == token.ARROW && isChan(u.X)
	}
	delRoots := map[ssa.Instruction]bool{}
	for _, lc := range w.callsLifted(q, delT) {
		delRoots[lc.Root] = true
	}
	isDel := func(i ssa.Instruction) bool { return delRoots[i] }
	for _, a := range adds {
		for _, step := range []struct {
			what string
			f    func(ssa.Instruction) bool
		}{{"cancels the sender", isCancel}, {"joins the sender (<-sendErr)", isJoin}, {"deregisters the transaction", isDel}} {
			ok, wit := MustPass(a, step.f)
			det := ""
			if wit != nil {
				det = "exit at " + w.P.InstrPos(wit)
			}
			rr.At(w, a, "every path from registration to return "+step.what, ok, det)
		}
	}
	// ordering: cancel before join before deregistration
	for _, b := range q.Blocks {
		for _, ins := range b.Instrs {
			if isJoin(ins) {
				// only the join that is not inside the select
				rr.At(w, ins, "the sender is cancelled before it is joined", PrecededBy(ins, isCancel), "")
			}
			if isDel(ins) {
				rr.At(w, ins, "deregistration happens after the sender has been joined (no send after the reply slot is gone)", PrecededBy(ins, isJoin), "")
			}
		}
	}
	// the wait has a case for reply, caller context, sender
	for _, b := range q.Blocks {
		for _, ins := range b.Instrs {
			sel, ok := ins.(*ssa.Select)
			if !ok {
				continue
			}
			var haveReply, haveCtx, haveSender bool
			for _, s := range sel.States {
				ch := w.TS.Of(s.Chan)
				switch {
				case isChan(s.Chan):
					haveSender = true
				case ch.Op == OpCall && suffixName(ch) == "Done" && strings.Contains(ch.String(), "ctx"):
					haveCtx = true
				case ch.Op == OpOpaque:
					if _, isMk := ch.Obj.(*ssa.MakeChan); isMk {
						haveReply = true
					}
				}
			}
			rr.At(w, ins, "Query waits for the reply, the caller's context and the sender", haveReply && haveCtx && haveSender && sel.Blocking, fmt.Sprintf("reply %v ctx %v sender %v", haveReply, haveCtx, haveSender))
		}
	}
	_ = goIns
}

func c14r2(w *World, rr *RuleRun) {
	ts := w.P.Func("transactionSender")
	maxSends := w.ParamTerm(ts, "maxSends")
	sendP := w.ParamTerm(ts, "send")
	// the local counter: the phi/cell compared with maxSends
	var sendCalls []ssa.Instruction
	for _, b := range ts.Blocks {
		for _, ins := range b.Instrs {
			if c, ok := ins.(*ssa.Call); ok {
				ct := w.TS.Of(c)
				if ct.Op == OpDyn && len(ct.Args) == 1 && termEq(ct.Args[0], sendP) {
					sendCalls = append(sendCalls, ins)
				}
			}
		}
	}
	rr.Oblige(shortFuncName(ts), "the sender loop has one send site", w.P.Pos(ts.Pos()), len(sendCalls) == 1, fmt.Sprintf("%d", len(sendCalls)))
	for _, sc := range sendCalls {
		var counters []*Term
		w.Require(rr, sc, "a datagram is sent only while sends < maxSends", func(alt *Alt) (bool, string) {
			ok := false
			for k, t := range alt.terms {
				if k[0] == 'b' && alt.facts[k] && t.Op == OpBin && t.Name == "<" && termEq(t.Args[1], maxSends) {
					counters = append(counters, t.Args[0])
					ok = true
				}
			}
			if ok {
				return true, "sends < maxSends"
			}
			return false, "no (sends < maxSends) fact: one datagram more than configured can be sent"
		})
		// the counter is incremented on every path from the send back to the loop head
		inLoop := blockInCycle(sc.Block())
		rr.At(w, sc, "the send is inside the counting loop", inLoop, "")
		// every path from the call to the loop header passes an increment of the counter phi
		var hdr *ssa.BasicBlock
		for b := sc.Block(); b != nil; b = b.Idom() {
			if isLoopHeader(b) {
				hdr = b
				break
			}
		}
		if hdr == nil {
			rr.At(w, sc, "sends is incremented after every send", false, "no loop header")
			continue
		}
		// the header phi for the counter
		okInc := false
		for _, ins := range hdr.Instrs {
			phi, ok := ins.(*ssa.Phi)
			if !ok {
				break
			}
			// the phi is the counter that was compared with maxSends: the compared value is the phi
			// itself, phi + 1 (range-over-int tests the next value at the latch), or - on the entry
			// path - the constant the phi starts from
			pt := w.TS.Of(phi)
			related := len(counters) == 0
			for _, counter := range counters {
				if termEq(counter, pt) {
					related = true
				}
				if counter.Op == OpBin && counter.Name == "+" && len(counter.Args) == 2 && termEq(counter.Args[0], pt) && counter.Args[1].IsConst("1") {
					related = true
				}
				if counter.Op == OpConst {
					for i, e := range phi.Edges {
						if !hdr.Dominates(hdr.Preds[i]) && termEq(w.TS.Of(e), counter) {
							related = true
						}
					}
				}
			}
			if !related {
				continue
			}
			all := true
			nBack := 0
			for i, e := range phi.Edges {
				pred := hdr.Preds[i]
				if !hdr.Dominates(pred) {
					continue // entry edge
				}
				nBack++
				bo, ok := e.(*ssa.BinOp)
				if !(ok && bo.Op == token.ADD && bo.X == ssa.Value(phi)) {
					all = false
					continue
				}
				if c, isC := ConstInt(bo.Y); !isC || c != 1 {
					all = false
				}
			}
			if all && nBack > 0 {
				okInc = true
			}
		}
		rr.At(w, sc, "sends is incremented by one on every path back to the loop head", okInc, "")
	}
	// the loop leaves on ctx.Done()
	ctxDone := false
	for _, b := range ts.Blocks {
		for _, ins := range b.Instrs {
			if sel, ok := ins.(*ssa.Select); ok {
				for _, s := range sel.States {
					ch := w.TS.Of(s.Chan)
					if ch.Op == OpCall && suffixName(ch) == "Done" {
						ctxDone = true
					}
				}
			}
		}
	}
	rr.Oblige(shortFuncName(ts), "the sender loop also waits on ctx.Done()", w.P.Pos(ts.Pos()), ctxDone, "")
	// transactionQuerySender: after the loop, a non-nil error on every path; waits on sendCtx.Done / time.After(resendDelay())
	tqs := w.P.Func("(*Server).transactionQuerySender")
	ff := w.FE.analysisFor(tqs)
	for _, ex := range ff.exits {
		ok := len(ex.st) > 0
		for _, alt := range ex.st {
			v := w.FE.Resolve(alt, ex.ret.Results[0])
			nonnil := w.FE.knownNonNil(ex.ret.Results[0]) || alt.HasKey("n", v, true) || (v.Op == OpCall && strings.HasSuffix(v.Name, "fmt.Errorf"))
			if !nonnil {
				ok = false
			}
		}
		rr.At(w, ex.ret, "the query sender always ends with a non-nil error (time-out or cancellation)", ok, "returns "+trunc(w.TS.Of(ex.ret.Results[0]).String(), 100))
	}
	afterOK := false
	for _, b := range tqs.Blocks {
		for _, ins := range b.Instrs {
			if sel, ok := ins.(*ssa.Select); ok && sel.Blocking {
				var d, t bool
				for _, s := range sel.States {
					ch := w.TS.Of(s.Chan)
					if ch.Op == OpCall && suffixName(ch) == "Done" {
						d = true
					}
					if ch.Op == OpCall && strings.HasSuffix(ch.Name, "time.After") && strings.Contains(ch.String(), "resendDelay") {
						t = true
					}
				}
				if d && t && len(sel.States) == 2 && !blockInCycle(b) {
					afterOK = true
				}
			}
		}
	}
	rr.Oblige(shortFuncName(tqs), "after the last send the sender waits one resend interval or cancellation, once", w.P.Pos(tqs.Pos()), afterOK, "")
	// maxSends = input.NumTries, defaulted
	q := w.P.Func("(*Server).Query")
	numTries := w.P.Field("", "QueryInput", "NumTries")
	for _, site := range w.CallsIn(q, tqs, true) {
		c := callInstrCommon(site)
		nt := w.TS.Of(c.Args[len(c.Args)-1])
		rr.At(w, site, "the number of sends is the query's NumTries", hasFieldAnywhere(nt, numTries), "numTries ← "+trunc(nt.String(), 120))
	}
	for _, site := range w.CallsIn(tqs, ts, true) {
		c := callInstrCommon(site)
		nt := w.TS.Of(c.Args[len(c.Args)-1])
		rr.At(w, site, "transactionSender's bound is the numTries parameter", termEq(nt, w.ParamTerm(tqs, "numTries")), "maxSends ← "+nt.String())
	}
	defOK := false
	for _, ins := range w.FieldWrites([]*ssa.Function{q}, numTries) {
		if st, ok := ins.(*ssa.Store); ok {
			v := w.TS.Of(st.Val)
			if c, isC := constOf(v); isC && c >= 1 {
				defOK = true
				w.Require(rr, ins, "NumTries is defaulted only when zero", func(alt *Alt) (bool, string) {
					if alt.Has("b", true, func(x *Term) bool {
						return x.Op == OpBin && x.Name == "==" && (hasFieldAnywhere(x.Args[0], numTries) || hasFieldAnywhere(x.Args[1], numTries)) && (x.Args[0].IsConst("0") || x.Args[1].IsConst("0"))
					}) {
						return true, "NumTries == 0"
					}
					return false, "unconditional override of NumTries"
				})
			}
		}
	}
	rr.Oblige(shortFuncName(q), "a zero NumTries is defaulted to a constant ≥ 1", w.P.Pos(q.Pos()), defOK, "")
}

// ---- C14.3 -------------------------------------------------------------------------------------------

// opNames: the terms under which a started operation value is known in fn: the value itself and
// every path it is stored to.
func (w *World) opNames(v ssa.Value) []*Term {
	names := []*Term{w.TS.Of(v)}
	if v.Referrers() == nil {
		return names
	}
	for _, r := range *v.Referrers() {
		if st, ok := r.(*ssa.Store); ok && st.Val == v {
			names = append(names, w.TS.Path(st.Addr))
		}
	}
	return names
}

func c14r3(w *World, rr *RuleRun) {
	start := w.P.Func("traversal.Start")
	opPtr := types.NewPointer(w.P.NamedType("traversal", "Operation"))
	errT := types.Universe.Lookup("error").Type()
	stopped := func(alt *Alt, names []*Term) bool {
		return alt.Called("Stop", func(s *Term) bool {
			for _, n := range names {
				if termEq(s, n) || termEq(s, n.Subst(alt.bind)) {
					return true
				}
			}
			return false
		})
	}
	// obligation for an operation value v (a Start call, or the *Operation result of a helper) owned by fn
	var checkOwner func(src ssa.Instruction, v ssa.Value, errOf ssa.Value, what string)
	checkOwner = func(src ssa.Instruction, v ssa.Value, errOf ssa.Value, what string) {
		fn := src.Parent()
		names := w.opNames(v)
		// does fn return the operation itself? then it is a helper: transfer to callers
		resIdx, errIdx := -1, -1
		res := fn.Signature.Results()
		for i := 0; i < res.Len(); i++ {
			if types.Identical(res.At(i).Type(), opPtr) {
				resIdx = i
			}
			if types.Identical(res.At(i).Type(), errT) {
				errIdx = i
			}
		}
		returnsOp := false
		ff := w.FE.analysisFor(fn)
		if resIdx >= 0 {
			for _, ex := range ff.exits {
				for _, alt := range ex.st {
					rt := w.FE.Resolve(alt, ex.ret.Results[resIdx])
					for _, n := range names {
						if termEq(rt, n) {
							returnsOp = true
						}
					}
				}
			}
		}
		for _, ex := range ff.exits {
			if !w.LK.canReach(src.Block(), instrIndex(src)+1, ex.ret) {
				continue
			}
			if !PrecededBy(ex.ret, func(i ssa.Instruction) bool { return i == src }) {
				// some paths to this return bypass the start: only paths through it matter; the fact
				// engine cannot split them, so require Stop only if the start dominates the return
				if !src.Block().Dominates(ex.ret.Block()) {
					continue
				}
			}
			ok := len(ex.st) > 0
			why := ""
			for _, alt := range ex.st {
				switch {
				case stopped(alt, names):
				case returnsOp && errIdx >= 0 && w.errIsNil(alt, ex.ret.Results[errIdx]):
					// handed to the caller as a running operation without error: the caller owns it
				case errOf != nil && w.errNonNil(alt, errOf):
					// the helper that produced v reported an error: by the helper rule the operation is already stopped
				default:
					ok = false
					why = "a path returns without Stop(): the operation's run goroutine is stranded forever  {" + trunc(strings.Join(alt.Facts(), " ∧ "), 260) + "}"
				}
			}
			rr.At(w, ex.ret, what+" is stopped on every return path of its owner", ok, why)
		}
		if returnsOp {
			// callers own the operation
			for _, e := range w.CG.CallersOf(fn) {
				if e.Callback || !w.P.IsLib(e.Caller) {
					continue
				}
				cv, ok := e.Site.(ssa.Value)
				if !ok || cv.Referrers() == nil {
					continue
				}
				var opV, errV ssa.Value
				for _, r := range *cv.Referrers() {
					if ex, ok := r.(*ssa.Extract); ok {
						if ex.Index == resIdx {
							opV = ex
						}
						if ex.Index == errIdx {
							errV = ex
						}
					}
				}
				if opV != nil {
					checkOwner(e.Site, opV, errV, "the operation obtained from "+shortFuncName(fn))
				}
			}
		}
	}
	n := 0
	for _, e := range w.CG.CallersOf(start) {
		if !w.P.IsLib(e.Caller) {
			continue
		}
		n++
		v, _ := e.Site.(ssa.Value)
		if v == nil {
			continue
		}
		checkOwner(e.Site, v, nil, "the traversal started here")
	}
	if n == 0 {
		rr.Oblige("traversal.Start", "library code starts traversals", "-", false, "no call site")
	}
}

// errIsNil / errNonNil: the alternative knows the error value is nil / non-nil.
func (w *World) errIsNil(alt *Alt, v ssa.Value) bool {
	t := w.FE.Resolve(alt, v)
	return t.IsConst("nil") || alt.HasKey("n", t, false)
}

func (w *World) errNonNil(alt *Alt, v ssa.Value) bool {
	t := w.FE.Resolve(alt, v)
	return alt.HasKey("n", t, true) || alt.HasKey("n", w.TS.Of(v), true)
}

func c14r4(w *World, rr *RuleRun) {
	n := 0
	eachInstr(w.P.LibFuncs, func(fn *ssa.Function, ins ssa.Instruction) {
		c, ok := ins.(*ssa.Call)
		if !ok {
			return
		}
		o := calleeObj(c.Common())
		if o == nil || o.Pkg() == nil || o.Pkg().Path() != "context" || !strings.HasPrefix(o.Name(), "With") || o.Name() == "WithValue" {
			return
		}
		n++
		wt := w.TS.Of(c)
		ff := w.FE.analysisFor(fn)
		for _, ex := range ff.exits {
			if !w.LK.canReach(c.Block(), instrIndex(c)+1, ex.ret) || !c.Block().Dominates(ex.ret.Block()) {
				continue
			}
			ok := len(ex.st) > 0
			for _, alt := range ex.st {
				if !alt.Called("cancel", func(s *Term) bool { return termEq(s, wt) }) {
					ok = false
				}
			}
			rr.At(w, ex.ret, "the cancel function of "+o.Name()+" is called (or deferred) on every return path", ok, "context created at "+w.P.InstrPos(c))
		}
	})
	if n == 0 {
		rr.Oblige("(library)", "cancellable contexts exist", "-", false, "none")
	}
}

// c14r8: WaitGroup-based joins in library code (announce, put, maintenance pings).
func c14r8(w *World, rr *RuleRun) {
	n := 0
	for _, f := range w.P.LibFuncs {
		if f.Parent() != nil {
			continue
		}
		waits := false
		eachInstr(append([]*ssa.Function{f}, allAnon(f)...), func(_ *ssa.Function, ins ssa.Instruction) {
			if c := callInstrCommon(ins); c != nil {
				if o := calleeObj(c); o != nil && recvNamed(o) == "WaitGroup" && o.Name() == "Wait" {
					waits = true
				}
			}
		})
		if waits {
			n += w.checkWaitGroupStarts(rr, f)
		}
	}
	if n == 0 {
		rr.Broken("no WaitGroup join found in library code")
	}
}

// c14r9: Stop() waits for every in-flight DoQuery to return; a DoQuery that blocks on a channel
// must therefore be released by the stopping event itself, which reaches it as the cancellation of
// its own context parameter.
func c14r9(w *World, rr *RuleRun) {
	t := w.trav()
	seen := map[*ssa.Function]bool{}
	var cbs []*ssa.Function
	add := func(f *ssa.Function) {
		if f != nil && !seen[f] && w.P.IsLib(f) && len(f.Blocks) > 0 {
			seen[f] = true
			cbs = append(cbs, f)
		}
	}
	for _, cb := range w.CG.FieldFuncs(t.doQuery) {
		if cb.Synthetic != "" {
			for _, e := range w.CG.Out[cb] {
				add(e.Callee)
			}
			continue
		}
		add(cb)
	}
	if len(cbs) < 3 {
		rr.Broken("only %d DoQuery callbacks found in library code", len(cbs))
	}
	for _, cb := range cbs {
		n := 0
		fns := append([]*ssa.Function{cb}, w.Region[cb]...)
		for _, cl := range allAnon(cb) {
			// closures invoked by the callback itself (not started as goroutines)
			started := false
			for _, e := range w.CG.CallersOf(cl) {
				if e.Mode == ModeGo {
					started = true
				}
			}
			if !started {
				fns = append(fns, cl)
			}
		}
		eachInstr(fns, func(fn *ssa.Function, ins ssa.Instruction) {
			switch x := ins.(type) {
			case *ssa.Select:
				if !x.Blocking {
					return
				}
				n++
				ok := false
				for _, st := range x.States {
					if st.Dir == types.RecvOnly && (w.isOwnQueryCtxDone(w.TS.Of(st.Chan), fn) || w.isCloseEventDone(w.TS.Of(st.Chan), false)) {
						ok = true
					}
				}
				var chans []string
				for _, st := range x.States {
					chans = append(chans, trunc(w.TS.Of(st.Chan).String(), 60))
				}
				rr.At(w, ins, "a blocking select in a query callback has a case that fires when the lookup is told to stop (its own context, or a close event whose setter also stops the lookup)", ok, "cases: "+strings.Join(chans, " | "))
			case *ssa.Send:
				n++
				rr.At(w, ins, "a query callback never blocks on a bare channel send", false, "send on "+trunc(w.TS.Of(x.Chan).String(), 80))
			case *ssa.UnOp:
				if x.Op != token.ARROW {
					return
				}
				n++
				ok := w.isOwnQueryCtxDone(w.TS.Of(x.X), fn)
				rr.At(w, ins, "a query callback never blocks on a bare channel receive (other than its own context)", ok, "receive from "+trunc(w.TS.Of(x.X).String(), 80))
			}
		})
		// blocking selects in module helpers the callback calls: released by a context parameter of
		// the helper that the callback fills with its own context
		eachInstr(fns, func(fn *ssa.Function, ins ssa.Instruction) {
			call, ok := ins.(*ssa.Call)
			if !ok {
				return
			}
			g := call.Call.StaticCallee()
			if g == nil || !w.P.IsLib(g) || g.Pkg != cb.Pkg || seen[g] || len(g.Blocks) == 0 || g.Parent() != nil {
				return
			}
			eachInstr([]*ssa.Function{g}, func(_ *ssa.Function, i2 ssa.Instruction) {
				sel, ok := i2.(*ssa.Select)
				if !ok || !sel.Blocking {
					return
				}
				n++
				okSel := false
				for _, st := range sel.States {
					ch := w.TS.Of(st.Chan)
					if st.Dir != types.RecvOnly || ch.Op != OpCall || suffixName(ch) != "Done" || len(ch.Args) != 1 {
						continue
					}
					// which parameter of g?  (paramBind may already have rewritten it to the caller's value)
					for k, prm := range g.Params {
						if !strings.HasSuffix(prm.Type().String(), "context.Context") || k >= len(call.Call.Args) {
							continue
						}
						if termEq(ch.Args[0], w.TS.Of(prm)) || termEq(ch.Args[0], w.TS.Of(call.Call.Args[k])) {
							at := w.TS.Of(call.Call.Args[k])
							if at.Op == OpParam {
								if cp, ok := at.Obj.(*ssa.Parameter); ok && cp.Parent() == cb {
									okSel = true
								}
							}
						}
					}
				}
				rr.At(w, ins, "a blocking select in a helper of the query callback is released by the callback's own context", okSel, "helper "+shortFuncName(g))
			})
		})
		if n == 0 {
			rr.ObligeTrivial(shortFuncName(cb), "query callback has no channel operation of its own", w.P.Pos(cb.Pos()), true, "")
		}
	}
}

// c14r10: writeToNode waits for send budget; that wait - and any other blocking operation added to
// the send routine - must be cancellable through the context parameter the query passes in.
func c14r10(w *World, rr *RuleRun) {
	a := w.sendAnchors()
	if len(a.sites) == 0 {
		rr.Broken("no socket write site")
		return
	}
	sendFn := enclosingNamed(a.sites[0].Parent())
	var ctxP *ssa.Parameter
	for _, p := range sendFn.Params {
		if strings.HasSuffix(p.Type().String(), "context.Context") {
			ctxP = p
		}
	}
	if ctxP == nil {
		rr.Oblige(shortFuncName(sendFn), "the send routine takes the caller's context", w.P.Pos(sendFn.Pos()), false, "no context parameter")
		return
	}
	ctxT := w.TS.Of(ctxP)
	n := 0
	for _, f := range w.regionFuncs(sendFn) {
		eachInstr([]*ssa.Function{f}, func(_ *ssa.Function, ins ssa.Instruction) {
			switch x := ins.(type) {
			case *ssa.Select:
				if !x.Blocking {
					return
				}
				n++
				ok := false
				for _, st := range x.States {
					ch := w.TS.Of(st.Chan)
					if st.Dir == types.RecvOnly && ch.Op == OpCall && suffixName(ch) == "Done" && len(ch.Args) == 1 && termEq(ch.Args[0], ctxT) {
						ok = true
					}
				}
				rr.At(w, ins, "a blocking select in the send routine has a case on the caller's context", ok, "")
			case *ssa.UnOp:
				if x.Op == token.ARROW {
					n++
					ch := w.TS.Of(x.X)
					ok := ch.Op == OpCall && suffixName(ch) == "Done" && len(ch.Args) == 1 && termEq(ch.Args[0], ctxT)
					rr.At(w, ins, "a channel wait in the send routine is on the caller's context", ok, "waits on "+trunc(ch.String(), 80))
				}
			default:
				if c := callInstrCommon(ins); c != nil {
					if o := calleeObj(c); o != nil && o.Name() == "Wait" && recvNamed(o) == "Limiter" {
						n++
						ok := len(c.Args) == 2 && termEq(w.TS.Of(c.Args[1]), ctxT)
						rr.At(w, ins, "the wait for send budget is bound to the caller's context", ok, "")
					}
				}
			}
		})
	}
	if n == 0 {
		rr.ObligeTrivial(shortFuncName(sendFn), "the send routine never waits", "-", true, "")
	}
}
