package main

// Engine E: path rules on one function's CFG — must-pass-through (post-dominance by a set of
// instructions, with deferred calls applied at exits), per-exit min/max counts of selected calls,
// and ordering.

import (
	"golang.org/x/tools/go/ssa"
)

func instrIndex(ins ssa.Instruction) int {
	for i, x := range ins.Block().Instrs {
		if x == ins {
			return i
		}
	}
	return -1
}

// MustPass: every path from just after `from` to a normal function exit (Return) executes an
// instruction satisfying target. Deferred calls (Defer instructions satisfying target that were
// executed on the path, or that dominate `from`) count at the exit. Returns a witness exit
// instruction when the rule fails.
func MustPass(from ssa.Instruction, target func(ssa.Instruction) bool) (bool, ssa.Instruction) {
	fn := from.Parent()
	// defers registered before `from` on every path
	preDefer := false
	for _, b := range fn.Blocks {
		for i, ins := range b.Instrs {
			if _, ok := ins.(*ssa.Defer); ok && target(ins) {
				if b == from.Block() && i < instrIndex(from) {
					preDefer = true
				} else if b != from.Block() && b.Dominates(from.Block()) {
					preDefer = true
				}
			}
		}
	}
	if preDefer {
		return true, nil
	}
	type key struct {
		b        *ssa.BasicBlock
		deferred bool
	}
	seen := map[key]bool{}
	var witness ssa.Instruction
	var walk func(b *ssa.BasicBlock, start int, deferred bool) bool
	walk = func(b *ssa.BasicBlock, start int, deferred bool) bool {
		for i := start; i < len(b.Instrs); i++ {
			ins := b.Instrs[i]
			if _, isDefer := ins.(*ssa.Defer); isDefer {
				if target(ins) {
					deferred = true
				}
				continue
			}
			if target(ins) {
				return true
			}
			switch ins.(type) {
			case *ssa.Return:
				if deferred {
					return true
				}
				witness = ins
				return false
			case *ssa.Panic:
				return true // abnormal exit: not a "return"
			}
		}
		for _, s := range b.Succs {
			k := key{s, deferred}
			if seen[k] {
				continue
			}
			seen[k] = true
			if !walk(s, 0, deferred) {
				return false
			}
		}
		return true
	}
	ok := walk(from.Block(), instrIndex(from)+1, false)
	return ok, witness
}

// Precedes: on every path from function entry to `site`, an instruction satisfying target has been
// executed (i.e. the set dominates site as a set).
func PrecededBy(site ssa.Instruction, target func(ssa.Instruction) bool) bool {
	fn := site.Parent()
	// search backwards from site avoiding target instructions; reaching entry means a path without target
	seen := map[*ssa.BasicBlock]bool{}
	var back func(b *ssa.BasicBlock, end int) bool // returns true if entry reachable without target
	back = func(b *ssa.BasicBlock, end int) bool {
		for i := end - 1; i >= 0; i-- {
			if target(b.Instrs[i]) {
				return false
			}
		}
		if b == fn.Blocks[0] {
			return true
		}
		for _, p := range b.Preds {
			if seen[p] {
				continue
			}
			seen[p] = true
			if back(p, len(p.Instrs)) {
				return true
			}
		}
		return false
	}
	return !back(site.Block(), instrIndex(site))
}

const Many = 1 << 20

// ExitCounts computes, for every Return instruction of fn, the minimum and maximum number of
// instructions satisfying counted over all paths from entry to that return. A counted instruction on
// a cycle yields max = Many.
func ExitCounts(fn *ssa.Function, counted func(ssa.Instruction) bool) map[*ssa.Return][2]int {
	type mm struct{ min, max int }
	n := len(fn.Blocks)
	in := make([]mm, n)
	reached := make([]bool, n)
	blockCount := make([]int, n)
	for _, b := range fn.Blocks {
		for _, ins := range b.Instrs {
			if counted(ins) {
				blockCount[b.Index]++
			}
		}
	}
	out := map[*ssa.Return][2]int{}
	reached[0] = true
	// iterate to fixpoint with widening to Many for cycles
	changed := true
	iter := 0
	for changed {
		changed = false
		iter++
		for _, b := range fn.Blocks {
			if !reached[b.Index] {
				continue
			}
			ex := mm{in[b.Index].min + blockCount[b.Index], in[b.Index].max + blockCount[b.Index]}
			if ex.max > Many {
				ex.max = Many
			}
			for _, s := range b.Succs {
				if !reached[s.Index] {
					reached[s.Index] = true
					in[s.Index] = ex
					changed = true
					continue
				}
				if ex.min < in[s.Index].min {
					in[s.Index].min = ex.min
					changed = true
				}
				if ex.max > in[s.Index].max {
					if iter > n+2 {
						in[s.Index].max = Many
					} else {
						in[s.Index].max = ex.max
					}
					changed = true
				}
			}
		}
		if iter > 4*n+10 {
			break
		}
	}
	for _, b := range fn.Blocks {
		if !reached[b.Index] {
			continue
		}
		cnt := 0
		for _, ins := range b.Instrs {
			if counted(ins) {
				cnt++
			}
			if r, ok := ins.(*ssa.Return); ok {
				out[r] = [2]int{in[b.Index].min + cnt, in[b.Index].max + cnt}
			}
		}
	}
	return out
}
