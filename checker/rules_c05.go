package main

import (
	"fmt"
	"go/token"
	"go/types"
	"sort"
	"strings"

	"golang.org/x/tools/go/ssa"
)

func init() {
	register(&Property{
		ID:    "C05",
		Title: "Routing table is always a well-formed Kademlia table",
		Decided: "C05.1 the two table indexes (bucket.nodes, table.addrs) are written only by methods of table and bucket; bucket.AddNode is called only from table.addNode, table.addNode and table.dropNode only from Server.addNode; " +
			"C05.2 the indexes move together: every successful return of table.addNode has passed both the bucket insertion and the addrs[addr][id] store, every return of dropNode both deletions; the bucket is buckets[bucketIndex(n.Id)] and the address key n.Addr.String() of the same n on both sides; " +
			"C05.3 guards dominate insertion: bucket.AddNode only under id ≠ rootID ∧ GetNode(addr,id)=nil ∧ Len < k on the bucket it inserts into; table.addNode only under nodeIsBad(n)=false (which implies id ≠ own id, id ≠ 0) and with room in the bucket (Len < k, or the eviction loop ended because Len < k); k is the constant 8 stored once; rootID is the server's own ID; " +
			"C05.4 Server.table, Server.transactions and the per-node liveness fields are only touched with Server.mu held (writes under the write lock); " +
			"C05.5 reported numbers are derived from the entries on every call (Stats().Nodes/GoodNodes, NumNodes(), Nodes()): no cached counter; the iteration helpers visit every entry unless the callback asks to stop; IsGood(n) implies not-bad and has-responded; " +
			"C05.6 the address equality of the duplicate test (bucket.GetNode) is the projection that keys the address index (Addr.String()), so 'same address' means the same in both indexes; an entry's ID and address are stored only while the entry is being built (through a fresh allocation), never through a pointer to an entry that may already be filed under them.",
		NotDecided: "that bucketIndex computes the shared-prefix length (C18.4 decides its shape only), equality of the two indexes after arbitrary histories (follows by induction from C05.1+C05.2), time-dependent goodness.",
		Assume:     []string{"Go map semantics; bucket.nodes keys are *node pointers created once per admitted contact"},
		Rules: []*Rule{
			{ID: "C05.1", Doc: "single writer of the table indexes", Floor: 8, Run: c05r1},
			{ID: "C05.2", Doc: "indexes move together", Floor: 5, Run: c05r2},
			{ID: "C05.3", Doc: "capacity, duplicate, root-ID, zero-ID guards dominate insertion", Floor: 8, Run: c05r3},
			{ID: "C05.4", Doc: "table and liveness state guarded by Server.mu", Floor: 30, Run: c05r4},
			{ID: "C05.5", Doc: "reported numbers derived from the entries", Floor: 6, Run: c05r5},
			{ID: "C05.6", Doc: "one notion of address identity: the duplicate test compares the same projection of the address that keys the address index", Floor: 3, Run: c05r6},
		},
	})
}

type tableAnchors struct {
	nodes, addrs, rootID, k, buckets, tableF *types.Var
	tAdd, tDrop, bAdd, sAdd, bucketIndex     *ssa.Function
	getNode                                  *ssa.Function
	nodeIsBad, isGood                        *ssa.Function
	serverID                                 *types.Var
	mu                                       *types.Var
}

func (w *World) tableAnchors() *tableAnchors {
	p := w.P
	return &tableAnchors{
		nodes:       p.Field("", "bucket", "nodes"),
		addrs:       p.Field("", "table", "addrs"),
		rootID:      p.Field("", "table", "rootID"),
		k:           p.Field("", "table", "k"),
		buckets:     p.Field("", "table", "buckets"),
		tableF:      p.Field("", "Server", "table"),
		serverID:    p.Field("", "Server", "id"),
		tAdd:        p.Func("(*table).addNode"),
		tDrop:       p.Func("(*table).dropNode"),
		bAdd:        p.Func("(*bucket).AddNode"),
		sAdd:        p.Func("(*Server).addNode"),
		bucketIndex: p.Func("(*table).bucketIndex"),
		getNode:     p.Func("(*bucket).GetNode"),
		nodeIsBad:   p.Func("(*Server).nodeIsBad"),
		isGood:      p.Func("(*Server).IsGood"),
		mu:          w.LK.ClassByName("Server.mu"),
	}
}

func recvTypeName(f *ssa.Function) string {
	f = enclosingNamed(f)
	if f.Signature.Recv() == nil {
		return ""
	}
	t := f.Signature.Recv().Type()
	if pt, ok := t.(*types.Pointer); ok {
		t = pt.Elem()
	}
	if n, ok := types.Unalias(t).(*types.Named); ok {
		return n.Obj().Name()
	}
	return ""
}

func c05r1(w *World, rr *RuleRun) {
	a := w.tableAnchors()
	for _, fv := range []*types.Var{a.nodes, a.addrs} {
		owner := "bucket"
		if fv == a.addrs {
			owner = "table"
		}
		for _, acc := range w.FieldAccesses(w.P.LibFuncs, fv) {
			if !acc.Write {
				continue
			}
			fn := acc.Ins.Parent()
			rt := recvTypeName(fn)
			ok := fn.Parent() == nil && (rt == "table" || rt == "bucket")
			rr.At(w, acc.Ins, owner+"."+fv.Name()+" is written only by methods of table and bucket", ok, "written in "+shortFuncName(fn)+" ("+acc.Kind+")")
		}
	}
	callersWithin := func(callee *ssa.Function, allowed *ssa.Function, what string) {
		n := 0
		for _, e := range w.CG.CallersOf(callee) {
			if e.Callback || !w.P.IsLib(e.Caller) {
				continue
			}
			n++
			rr.At(w, e.Site, what, w.withinUp(e.Caller, allowed), "called from "+shortFuncName(e.Caller))
		}
		if n == 0 {
			rr.ObligeTrivial(shortFuncName(callee), what, w.P.Pos(callee.Pos()), true, "no caller at all")
		}
	}
	callersWithin(a.bAdd, a.tAdd, "bucket.AddNode is called only from table.addNode")
	callersWithin(a.tAdd, a.sAdd, "table.addNode is called only from Server.addNode")
	callersWithin(a.tDrop, a.sAdd, "table.dropNode is called only from Server.addNode")
	// Server.addNode itself is reached only through updateNode
	upd := w.P.Func("(*Server).updateNode")
	callersWithin(a.sAdd, upd, "Server.addNode is called only from updateNode")
}

func c05r2(w *World, rr *RuleRun) {
	a := w.tableAnchors()
	n := w.ParamTerm(a.tAdd, "n")
	idF := w.P.Field("", "nodeKey", "Id")
	addrF := w.P.Field("", "nodeKey", "Addr")
	// table.addNode
	isBucketInsert := func(ins ssa.Instruction) bool {
		c := callInstrCommon(ins)
		if c != nil && callMatches(c, a.bAdd) && len(c.Args) >= 2 && termEq(w.TS.Of(c.Args[1]), n) {
			return true
		}
		if mu, ok := ins.(*ssa.MapUpdate); ok && fieldOfAddr(mu.Map) == a.nodes && termEq(w.TS.Of(mu.Key), n) {
			return true
		}
		return false
	}
	isAddrInsert := func(ins ssa.Instruction) bool {
		mu, ok := ins.(*ssa.MapUpdate)
		if !ok {
			return false
		}
		// addrs[as][n.Id] = {}: the map operand is the entry of addrs under as - a lookup
		// addrs[as], or a fresh map that is itself filed as addrs[as], or a phi / local of those
		okAsT := func(as *Term) bool {
			return as.Op == OpCall && suffixName(as) == "String" && len(as.Args) == 1 && isFieldTerm(as.Args[0], addrF) && as.Args[0].Contains(n)
		}
		var isEntry func(v ssa.Value, depth int) bool
		isEntry = func(v ssa.Value, depth int) bool {
			if depth > 4 {
				return false
			}
			if m := w.TS.Of(v); m.Op == OpLookup && isFieldTerm(m.Args[0], a.addrs) {
				return okAsT(m.Args[1])
			}
			switch x := v.(type) {
			case *ssa.Phi:
				for _, e := range x.Edges {
					if !isEntry(e, depth+1) {
						return false
					}
				}
				return len(x.Edges) > 0
			case *ssa.MakeMap:
				filed := false
				eachInstr([]*ssa.Function{mu.Parent()}, func(_ *ssa.Function, i2 ssa.Instruction) {
					if m2, ok := i2.(*ssa.MapUpdate); ok && fieldOfAddr(m2.Map) == a.addrs && m2.Value == ssa.Value(x) && okAsT(w.TS.Of(m2.Key)) {
						filed = true
					}
				})
				return filed
			case *ssa.UnOp:
				if al, ok := x.X.(*ssa.Alloc); ok && al.Referrers() != nil {
					nSt := 0
					for _, r := range *al.Referrers() {
						if st, ok := r.(*ssa.Store); ok && st.Addr == ssa.Value(al) {
							nSt++
							if !isEntry(st.Val, depth+1) {
								return false
							}
						}
					}
					return nSt > 0
				}
			}
			return false
		}
		if !isEntry(mu.Map, 0) {
			return false
		}
		key := w.TS.Of(mu.Key)
		return isFieldTerm(key, idF) && key.Args[0].Contains(n)
	}
	ff := w.FE.analysisFor(a.tAdd)
	nilRets := 0
	for _, ex := range ff.exits {
		if !w.TS.Of(ex.ret.Results[0]).IsConst("nil") {
			continue
		}
		nilRets++
		rr.At(w, ex.ret, "a successful table.addNode has inserted the node into its bucket", PrecededBy(ex.ret, isBucketInsert), "")
		rr.At(w, ex.ret, "a successful table.addNode has recorded addrs[n.Addr.String()][n.Id]", PrecededBy(ex.ret, isAddrInsert), "")
	}
	if nilRets == 0 {
		rr.Oblige(shortFuncName(a.tAdd), "table.addNode has a success return", w.P.Pos(a.tAdd.Pos()), false, "")
	}
	// the bucket inserted into is buckets[bucketIndex(n.Id)]
	for _, site := range w.CallsIn(a.tAdd, a.bAdd, false) {
		c := callInstrCommon(site)
		b := w.TS.Of(c.Args[0])
		ok := false
		b.Walk(func(x *Term) bool {
			if x.Op == OpIndex && isFieldTerm(x.Args[0], a.buckets) && isCall(x.Args[1], a.bucketIndex) && len(x.Args[1].Args) == 2 {
				id := x.Args[1].Args[1]
				if isFieldTerm(id, idF) && id.Args[0].Contains(n) {
					ok = true
				}
			}
			return !ok
		})
		rr.At(w, site, "the node is inserted into buckets[bucketIndex(n.Id)]", ok, "bucket "+trunc(b.String(), 160))
	}
	// dropNode
	dn := w.ParamTerm(a.tDrop, "n")
	isDel := func(fv *types.Var, keyOK func(k *Term, m *Term) bool) func(ssa.Instruction) bool {
		return func(ins ssa.Instruction) bool {
			c := callInstrCommon(ins)
			if c == nil {
				return false
			}
			bi, ok := c.Value.(*ssa.Builtin)
			if !ok || bi.Name() != "delete" || len(c.Args) != 2 {
				return false
			}
			m := w.TS.Of(c.Args[0])
			return hasFieldAnywhere(m, fv) && keyOK(w.TS.Of(c.Args[1]), m)
		}
	}
	delAddr := isDel(a.addrs, func(k, m *Term) bool {
		return m.Op == OpLookup && isFieldTerm(k, idF) && k.Args[0].Contains(dn) && strings.Contains(m.Args[1].String(), "String") && m.Args[1].Contains(dn)
	})
	delNode := isDel(a.nodes, func(k, m *Term) bool {
		if !termEq(k, dn) {
			return false
		}
		// bucket of n.Id
		ok := false
		m.Walk(func(x *Term) bool {
			if isCall(x, a.bucketIndex) || (x.Op == OpCall && suffixName(x) == "bucketForID") {
				if x.Args[len(x.Args)-1].Contains(dn) {
					ok = true
				}
			}
			return !ok
		})
		return ok
	})
	for _, b := range a.tDrop.Blocks {
		for _, ins := range b.Instrs {
			ret, ok := ins.(*ssa.Return)
			if !ok {
				continue
			}
			rr.At(w, ret, "dropNode has deleted addrs[n.Addr.String()][n.Id]", PrecededBy(ret, delAddr), "")
			rr.At(w, ret, "dropNode has deleted the node from the bucket of n.Id", PrecededBy(ret, delNode), "")
		}
	}
}

// roomAtTableAdd: at Server.addNode's call of table.addNode the bucket has room.
func (w *World) checkAddNodeRoom(rr *RuleRun) {
	a := w.tableAnchors()
	lenLtK := func(x *Term, bucketOf func(*Term) bool) bool {
		return x.Op == OpBin && x.Name == "<" && x.Args[0].Op == OpCall && suffixName(x.Args[0]) == "Len" && len(x.Args[0].Args) == 1 && bucketOf(x.Args[0].Args[0]) && isFieldTerm(x.Args[1], a.k)
	}
	for _, site := range w.CallsIn(a.sAdd, a.tAdd, true) {
		c := callInstrCommon(site)
		nT := w.TS.Of(c.Args[1])
		bucketOfN := func(b *Term) bool {
			ok := false
			b.Walk(func(x *Term) bool {
				if x.Op == OpCall && (suffixName(x) == "bucketForID" || isCall(x, a.bucketIndex)) && x.Args[len(x.Args)-1].Contains(nT) {
					ok = true
				}
				return !ok
			})
			return ok
		}
		w.Require(rr, site, "table.addNode is reached only with room in the node's bucket (Len < k), so its 'bucket is full' refusal - and the panic on it - cannot happen", func(alt *Alt) (bool, string) {
			if alt.Has("b", true, func(x *Term) bool { return lenLtK(x, bucketOfN) }) {
				return true, "Len(bucketForID(n.Id)) < k"
			}
			// the eviction loop ended early: EachNode(bucket, closure) = false, closure=false ⇒ Len < k
			okLoop := alt.Has("b", false, func(x *Term) bool {
				if x.Op != OpCall || suffixName(x) != "EachNode" || len(x.Args) != 2 || !bucketOfN(x.Args[0]) {
					return false
				}
				cl, _ := x.Args[1].Obj.(*ssa.Function)
				if x.Args[1].Op != OpClosure || cl == nil {
					return false
				}
				sum := w.FE.Summary(cl, 0, "false", 0)
				if len(sum) == 0 {
					return false
				}
				for _, sa := range sum {
					if !sa.Has("b", true, func(y *Term) bool { return lenLtK(y, bucketOfN) }) {
						return false
					}
				}
				// EachNode=false only when the callback returned false
				each := w.FE.calleeFunc(x)
				if each == nil {
					return false
				}
				ok, _ := w.falseOnlyWhenCallbackFalse(each)
				return ok
			})
			if okLoop {
				return true, "eviction loop stopped because its callback saw Len < k"
			}
			return false, "the bucket may be exactly full here: table.addNode would refuse and Server.addNode panics ('expected to add node') while holding Server.mu"
		})
	}
}

func c05r3(w *World, rr *RuleRun) {
	a := w.tableAnchors()
	n := w.ParamTerm(a.tAdd, "n")
	idF := w.P.Field("", "nodeKey", "Id")
	addrF := w.P.Field("", "nodeKey", "Addr")
	// (a) bucket.AddNode in table.addNode
	for _, site := range w.CallsIn(a.tAdd, a.bAdd, false) {
		c := callInstrCommon(site)
		bT := c.Args[0]
		w.Require(rr, site, "bucket insertion only under id ≠ rootID ∧ not already present ∧ Len < k", func(alt *Alt) (bool, string) {
			b := w.FE.Resolve(alt, bT)
			notRoot := alt.Has("b", false, func(x *Term) bool {
				return x.Op == OpBin && x.Name == "==" && ((isFieldTerm(x.Args[0], idF) && isFieldTerm(x.Args[1], a.rootID)) || (isFieldTerm(x.Args[1], idF) && isFieldTerm(x.Args[0], a.rootID)))
			})
			absent := alt.Has("n", false, func(x *Term) bool {
				return isCall(x, a.getNode) && len(x.Args) == 3 && termEq(x.Args[0], b) && isFieldTerm(x.Args[1], addrF) && x.Args[1].Args[0].Contains(n) && isFieldTerm(x.Args[2], idF) && x.Args[2].Args[0].Contains(n)
			})
			room := alt.Has("b", true, func(x *Term) bool {
				return x.Op == OpBin && x.Name == "<" && x.Args[0].Op == OpCall && suffixName(x.Args[0]) == "Len" && termEq(x.Args[0].Args[0], b) && isFieldTerm(x.Args[1], a.k)
			})
			if !notRoot {
				return false, "no id ≠ rootID fact"
			}
			if !absent {
				return false, "no GetNode(n.Addr, n.Id) = nil fact on the same bucket: a duplicate (address, ID) pair could be inserted"
			}
			if !room {
				return false, "no Len(bucket) < k fact: a bucket could grow beyond K"
			}
			return true, "id ≠ rootID ∧ absent ∧ Len < k"
		})
	}
	// (b) table.addNode in Server.addNode: nodeIsBad = false
	for _, site := range w.CallsIn(a.sAdd, a.tAdd, true) {
		c := callInstrCommon(site)
		nV := c.Args[1]
		w.Require(rr, site, "table.addNode only for a node that is not bad", func(alt *Alt) (bool, string) {
			nt := w.FE.Resolve(alt, nV)
			if alt.Has("b", false, func(x *Term) bool { return isCall(x, a.nodeIsBad) && len(x.Args) == 2 && termEq(x.Args[1], nt) }) {
				return true, "nodeIsBad(n) = false"
			}
			return false, "no nodeIsBad(n)=false fact"
		})
	}
	sum := w.FE.Summary(a.nodeIsBad, 0, "false", 0)
	okSelf, okZero := len(sum) > 0, len(sum) > 0
	for _, alt := range sum {
		if !alt.Has("b", false, func(x *Term) bool {
			return x.Op == OpBin && x.Name == "==" && ((isFieldTerm(x.Args[0], idF) && isFieldTerm(x.Args[1], a.serverID)) || (isFieldTerm(x.Args[1], idF) && isFieldTerm(x.Args[0], a.serverID)))
		}) {
			okSelf = false
		}
		if !alt.Has("b", false, func(x *Term) bool { return x.Op == OpCall && suffixName(x) == "IsZero" && hasFieldAnywhere(x, idF) }) {
			okZero = false
		}
	}
	rr.Oblige(shortFuncName(a.nodeIsBad), "nodeIsBad(n)=false ⇒ n.Id ≠ own ID", w.P.Pos(a.nodeIsBad.Pos()), okSelf, "false-class "+trunc(sum.String(), 300))
	rr.Oblige(shortFuncName(a.nodeIsBad), "nodeIsBad(n)=false ⇒ n.Id ≠ 0", w.P.Pos(a.nodeIsBad.Pos()), okZero, "false-class "+trunc(sum.String(), 300))
	// (c) room
	w.checkAddNodeRoom(rr)
	// (c') bucketIndex never sees the root ID
	w.checkRootGuards(rr)
	// (d) k and rootID written once
	for _, acc := range w.FieldAccesses(w.P.LibFuncs, a.k) {
		if !acc.Write {
			continue
		}
		st, ok := acc.Ins.(*ssa.Store)
		okK := ok && (within(acc.Ins.Parent(), w.P.Func("NewServer")) || w.withinUp(acc.Ins.Parent(), w.P.Func("NewServer")))
		v := "?"
		if ok {
			cv, isC := ConstInt(st.Val)
			v = fmt.Sprint(cv)
			okK = okK && isC && cv == 8
		}
		rr.At(w, acc.Ins, "table.k is stored once, in NewServer, with the constant 8", okK, "stores "+v+" in "+shortFuncName(acc.Ins.Parent()))
	}
	for _, acc := range w.FieldAccesses(w.P.LibFuncs, a.rootID) {
		if !acc.Write {
			continue
		}
		st, ok := acc.Ins.(*ssa.Store)
		okR := ok && (within(acc.Ins.Parent(), w.P.Func("NewServer")) || w.withinUp(acc.Ins.Parent(), w.P.Func("NewServer")))
		det := ""
		if ok {
			v := w.TS.Of(st.Val)
			det = "stores " + v.String()
			same := isFieldTerm(v, a.serverID)
			if !same {
				// or the very value that is stored into Server.id in the same constructor
				for _, sw := range w.FieldWrites(w.P.LibFuncs, a.serverID) {
					if s2, isSt := sw.(*ssa.Store); isSt && enclosingNamed(s2.Parent()) == enclosingNamed(st.Parent()) && termEq(w.TS.Of(s2.Val), v) {
						same = true
					}
				}
			}
			okR = okR && same
		}
		rr.At(w, acc.Ins, "table.rootID is the server's own ID, stored once in NewServer", okR, det)
	}
	for _, acc := range w.FieldAccesses(w.P.LibFuncs, a.serverID) {
		if acc.Write {
			rr.At(w, acc.Ins, "Server.id is stored only in NewServer", within(acc.Ins.Parent(), w.P.Func("NewServer")), "in "+shortFuncName(acc.Ins.Parent()))
		}
	}
}

func c05r4(w *World, rr *RuleRun) {
	a := w.tableAnchors()
	newServer := w.P.Func("NewServer")
	ex := func(acc fieldAccess) (bool, string) {
		if within(acc.Ins.Parent(), newServer) {
			return true, "NewServer initialises the server before it is published (the serve goroutine starts last)"
		}
		return false, ""
	}
	w.GuardedBy(rr, w.P.LibFuncs, a.tableF, a.mu, "Server", ex)
	w.GuardedBy(rr, w.P.LibFuncs, w.P.Field("", "Server", "transactions"), a.mu, "Server", ex)
	for _, f := range []string{"lastGotQuery", "lastGotResponse", "numReceivesFrom", "failedLastQuestionablePing"} {
		w.GuardedBy(rr, w.P.LibFuncs, w.P.Field("", "node", f), a.mu, "node", ex)
	}
}

func c05r5(w *World, rr *RuleRun) {
	a := w.tableAnchors()
	numNodes := w.P.Func("(*Server).numNodes")
	numGood := w.P.Func("(*Server).numGoodNodes")
	forNodes := w.P.Func("(*table).forNodes")
	eachNode := w.P.Func("(*bucket).EachNode")
	// ServerStats.Nodes / GoodNodes are stored only from numNodes() / numGoodNodes()
	for _, fn := range []struct {
		field string
		src   *ssa.Function
	}{{"Nodes", numNodes}, {"GoodNodes", numGood}} {
		fv := w.P.Field("", "ServerStats", fn.field)
		n := 0
		for _, ins := range w.FieldWrites(w.P.LibFuncs, fv) {
			st, ok := ins.(*ssa.Store)
			if !ok {
				continue
			}
			n++
			v := w.TS.Of(st.Val)
			rr.At(w, ins, "ServerStats."+fn.field+" is computed from the entries at the time of the call", isCall(v, fn.src), "stores "+trunc(v.String(), 120))
		}
		if n == 0 {
			rr.Oblige("ServerStats", "ServerStats."+fn.field+" is filled", "-", false, "no store")
		}
	}
	// the counters walk the table: each calls forNodes with a closure that increments on every visited node
	for _, f := range []*ssa.Function{numNodes, numGood, w.P.Func("(*Server).notBadNodes")} {
		sites := w.CallsIn(f, forNodes, false)
		if len(sites) == 0 && f == numNodes && w.sumsBucketLens(f, 0) {
			// the plain count may equally be the sum of every bucket's Len()
			rr.Oblige(shortFuncName(f), "walks every entry through table.forNodes", w.P.Pos(f.Pos()), true, "sums Len() over every bucket")
			continue
		}
		rr.Oblige(shortFuncName(f), "walks every entry through table.forNodes", w.P.Pos(f.Pos()), len(sites) == 1, fmt.Sprintf("%d forNodes calls", len(sites)))
		// the callback never asks to stop: all its returns are the constant true
		for _, site := range sites {
			c := callInstrCommon(site)
			for _, cb := range w.CG.FuncsOf(c.Args[1]) {
				allTrue := true
				for _, b := range cb.Blocks {
					for _, ins := range b.Instrs {
						if ret, ok := ins.(*ssa.Return); ok && len(ret.Results) == 1 {
							if !w.TS.Of(ret.Results[0]).IsConst("true") {
								allTrue = false
							}
						}
					}
				}
				rr.At(w, site, "the visiting callback never stops the walk early", allTrue, "callback "+shortFuncName(cb))
			}
		}
	}
	// forNodes visits all buckets: range over the whole buckets array, stops only when EachNode reports false
	nIdx := 0
	eachInstr([]*ssa.Function{forNodes}, func(_ *ssa.Function, ins ssa.Instruction) {
		ia, ok := ins.(*ssa.IndexAddr)
		if !ok || fieldOfAddr(ia.X) != a.buckets {
			return
		}
		nIdx++
		ln, isRange := rangeIndexOver(ia.Index)
		al, _ := arrayLen(a.buckets.Type())
		rr.At(w, ins, "forNodes ranges over every bucket", isRange && ln == al, fmt.Sprintf("range bound %d of %d", ln, al))
	})
	if nIdx == 0 {
		rr.Oblige(shortFuncName(forNodes), "forNodes ranges over every bucket", w.P.Pos(forNodes.Pos()), false, "no indexed access of buckets")
	}
	ffN := w.FE.analysisFor(forNodes)
	nFalse := 0
	for _, ex := range ffN.exits {
		for _, alt := range ex.st {
			v := w.FE.Resolve(alt, ex.ret.Results[0])
			if v.IsConst("true") {
				continue
			}
			nFalse++
			ok := v.IsConst("false") && alt.Has("b", false, func(x *Term) bool { return isCall(x, eachNode) })
			rr.At(w, ex.ret, "forNodes stops early only when a bucket walk was stopped by the callback", ok, "returns "+v.String()+" under {"+trunc(strings.Join(alt.Facts(), " ∧ "), 200)+"}")
		}
	}
	if nFalse == 0 {
		rr.Oblige(shortFuncName(forNodes), "forNodes can be stopped by the callback", w.P.Pos(forNodes.Pos()), false, "no false return")
	}
	okE, whyE := w.falseOnlyWhenCallbackFalse(eachNode)
	rr.Oblige(shortFuncName(eachNode), "EachNode stops early only when the callback returned false", w.P.Pos(eachNode.Pos()), okE, whyE)
	// table.numNodes sums bucket lengths over every bucket; Len is len(nodes)
	bl := w.P.Func("(*bucket).Len")
	for _, b := range bl.Blocks {
		for _, ins := range b.Instrs {
			if ret, ok := ins.(*ssa.Return); ok {
				v := w.TS.Of(ret.Results[0])
				rr.At(w, ins, "bucket.Len is len(nodes)", v.Op == OpLen && isFieldTerm(v.Args[0], a.nodes), "returns "+v.String())
			}
		}
	}
	// the good-node count applies IsGood, whose meaning is fixed here
	w.checkIsGoodSummary(rr)
}

// falseOnlyWhenCallbackFalse: fn(…, f) iterates and reports false only if f returned false. Handles the
// go/ssa lowering of range-over-func loops: the loop body lives in a synthetic yield closure that
// stores the function's result into a captured cell. Every place that can make the result false (a
// `return false` in fn, or a store of false into a bool result cell in fn or its closures) must be
// dominated by f(x) = false.
func (w *World) falseOnlyWhenCallbackFalse(fn *ssa.Function) (bool, string) {
	var fparam *ssa.Parameter
	for _, p := range fn.Params {
		if isFuncType(p.Type()) {
			fparam = p
		}
	}
	if fparam == nil {
		return false, "no callback parameter"
	}
	ft := w.TS.Of(fparam)
	needs := func(ins ssa.Instruction) (bool, string) {
		st := w.FE.StateBefore(ins)
		if st == nil {
			return true, ""
		}
		for _, alt := range st {
			if !alt.Has("b", false, func(x *Term) bool { return x.Op == OpDyn && len(x.Args) >= 1 && termEq(x.Args[0], ft) }) {
				return false, "result can become false at " + w.P.InstrPos(ins) + " without the callback having returned false"
			}
		}
		return true, ""
	}
	sites := 0
	fs := append([]*ssa.Function{fn}, allAnon(fn)...)
	for _, f := range fs {
		for _, b := range f.Blocks {
			for _, ins := range b.Instrs {
				switch x := ins.(type) {
				case *ssa.Return:
					if f == fn && len(x.Results) == 1 && w.TS.Of(x.Results[0]).IsConst("false") {
						sites++
						if ok, why := needs(ins); !ok {
							return false, why
						}
					}
				case *ssa.Store:
					if !isBoolType(x.Val.Type()) {
						continue
					}
					c, isC := x.Val.(*ssa.Const)
					if !isC || constText(c) != "false" {
						if isC {
							continue
						}
						return false, "result cell written with a non-constant at " + w.P.InstrPos(ins)
					}
					sites++
					if ok, why := needs(ins); !ok {
						return false, why
					}
				}
			}
		}
	}
	if sites == 0 {
		return false, "no site makes the result false"
	}
	return true, fmt.Sprintf("%d site(s) make the result false, each under callback=false", sites)
}

// rootGuardExempt: call sites of bucketIndex / bucketForID whose argument cannot be the root ID for a
// reason the facts do not carry. Keyed by calling function.
var rootGuardExempt = map[string]string{
	"(*table).dropNode":          "the argument is the ID of an entry taken out of a bucket; entries never carry the root ID (C05.3 guards every insertion)",
	"(*table).randomIdForBucket": "the argument is built by randomIdInBucket to differ from the root at bit i (C18.4)",
}

// checkRootGuards: table.bucketIndex panics on the root ID. Every call site (directly or through
// bucketForID) must be dominated by id ≠ rootID / id ≠ own ID, established in the calling function
// or - when the argument is passed down from the caller's caller - at every call site up to 3 levels.
func (w *World) checkRootGuards(rr *RuleRun) {
	a := w.tableAnchors()
	bfi := w.P.FuncOpt("(*table).bucketForID")
	guardFact := func(alt *Alt, id *Term) bool {
		return alt.Has("b", false, func(x *Term) bool {
			if x.Op != OpBin || x.Name != "==" {
				return false
			}
			for i := 0; i < 2; i++ {
				if termEq(x.Args[i], id) && (isFieldTerm(x.Args[1-i], a.rootID) || isFieldTerm(x.Args[1-i], a.serverID)) {
					return true
				}
			}
			return false
		})
	}
	// nodeIsBad(n)=false ⇒ n.Id ≠ own id (checked in C05.3): accept that fact for id = n.nodeKey.Id
	idF := w.P.Field("", "nodeKey", "Id")
	notBadFact := func(alt *Alt, id *Term) bool {
		if !isFieldTerm(id, idF) {
			return false
		}
		n := id.Args[0]
		if n.Op == OpField && n.Name == "nodeKey" {
			n = n.Args[0]
		}
		return alt.Has("b", false, func(x *Term) bool { return isCall(x, a.nodeIsBad) && len(x.Args) == 2 && termEq(x.Args[1], n) })
	}
	var check func(site ssa.Instruction, id *Term, depth int) (bool, string)
	check = func(site ssa.Instruction, id *Term, depth int) (bool, string) {
		st := w.FE.StateBefore(site)
		if st == nil {
			return true, "unreachable"
		}
		all := true
		for _, alt := range st {
			idr := id.Subst(alt.bind)
			if !(guardFact(alt, idr) || notBadFact(alt, idr) || guardFact(alt, id) || notBadFact(alt, id)) {
				all = false
			}
		}
		if all {
			return true, "guarded in " + shortFuncName(site.Parent())
		}
		fn := site.Parent()
		if depth >= 3 {
			return false, "no id ≠ rootID guard within 3 call levels above " + shortFuncName(fn)
		}
		// the id must be expressed over fn's parameters to be checked at the callers
		overParams := true
		id.Walk(func(x *Term) bool {
			switch x.Op {
			case OpLocal, OpPhi, OpOpaque, OpCall, OpDyn:
				overParams = false
			}
			return overParams
		})
		if !overParams {
			return false, "id " + trunc(id.String(), 100) + " is not guarded in " + shortFuncName(fn) + " and does not come from its parameters"
		}
		callers := 0
		for _, e := range w.CG.CallersOf(fn) {
			if e.Callback || !w.P.IsLib(e.Caller) {
				continue
			}
			callers++
			c := callInstrCommon(e.Site)
			sub := map[string]*Term{}
			off := 0
			if c.IsInvoke() {
				off = 1
			}
			for pi, prm := range fn.Params {
				if pi-off >= 0 && pi-off < len(c.Args) {
					sub[w.TS.Of(prm).String()] = w.TS.Of(c.Args[pi-off])
				}
			}
			if ok, why := check(e.Site, id.Subst(sub), depth+1); !ok {
				return false, why
			}
		}
		if callers == 0 {
			return false, "entry point " + shortFuncName(fn) + " passes an unguarded id to bucketIndex"
		}
		return true, "guarded at every caller of " + shortFuncName(fn)
	}
	targets := []*ssa.Function{a.bucketIndex}
	if bfi != nil {
		targets = append(targets, bfi)
	}
	n := 0
	for _, tg := range targets {
		for _, e := range w.CG.CallersOf(tg) {
			if e.Callback || !w.P.IsLib(e.Caller) {
				continue
			}
			if tg == a.bucketIndex && e.Caller == bfi {
				continue // checked at bucketForID's own callers
			}
			n++
			caller := shortFuncName(enclosingNamed(e.Caller))
			if why, ok := rootGuardExempt[caller]; ok {
				rr.ObligeTrivialAt(w, e.Site, "bucket index requested only for id ≠ rootID (assumed invariant)", true, why)
				continue
			}
			c := callInstrCommon(e.Site)
			id := w.TS.Of(c.Args[len(c.Args)-1])
			ok, why := check(e.Site, id, 0)
			rr.At(w, e.Site, "bucket index requested only for id ≠ rootID (bucketIndex panics on the root ID)", ok, why)
		}
	}
	if n == 0 {
		rr.Oblige(shortFuncName(a.bucketIndex), "bucketIndex has callers", w.P.Pos(a.bucketIndex.Pos()), false, "none found")
	}
}

// c05r6: "no two entries share both ID and address" and "the address index mirrors the buckets"
// hold together only if 'same address' means the same thing in both places. The address index is
// keyed by a projection of Addr (today: String()); every equality on addresses in the duplicate
// test (bucket.GetNode and the helpers folded into it) must compare that very projection on both
// sides.
func c05r6(w *World, rr *RuleRun) {
	a := w.tableAnchors()
	// projections used as keys of table.addrs
	proj := map[string]bool{}
	nKey := 0
	eachInstr(w.P.LibFuncs, func(fn *ssa.Function, ins ssa.Instruction) {
		var m, k ssa.Value
		switch x := ins.(type) {
		case *ssa.Lookup:
			m, k = x.X, x.Index
		case *ssa.MapUpdate:
			m, k = x.Map, x.Key
		default:
			if c := callInstrCommon(ins); c != nil {
				if b, ok := c.Value.(*ssa.Builtin); ok && b.Name() == "delete" && len(c.Args) == 2 {
					m, k = c.Args[0], c.Args[1]
				}
			}
		}
		if m == nil || fieldOfAddr(m) != a.addrs || !types.Identical(m.Type().Underlying(), a.addrs.Type().Underlying()) {
			return
		}
		nKey++
		kt := w.TS.Of(k)
		ok := kt.Op == OpCall && len(kt.Args) == 1
		if ok {
			proj[kt.Name] = true
		}
		rr.At(w, ins, "the address index is keyed by a projection of the entry's / caller's address", ok, "key "+trunc(kt.String(), 100))
	})
	var projs []string
	for p := range proj {
		projs = append(projs, p)
	}
	sort.Strings(projs)
	rr.Oblige("table.addrs", "the address index uses one key projection", "-", len(projs) == 1 && nKey > 0, strings.Join(projs, ", "))
	if len(projs) != 1 {
		return
	}
	// address equalities in the duplicate test
	addrF := w.P.Field("", "nodeKey", "Addr")
	isAddrTyped := func(t *Term) bool {
		found := false
		t.Walk(func(x *Term) bool {
			if isFieldTerm(x, addrF) {
				found = true
			}
			if x.Op == OpParam {
				if p, ok := x.Obj.(*ssa.Parameter); ok && strings.HasSuffix(p.Type().String(), "dht/v2.Addr") {
					found = true
				}
			}
			return !found
		})
		return found
	}
	nEq := 0
	eachInstr(w.RegionOf(a.getNode), func(fn *ssa.Function, ins ssa.Instruction) {
		bo, ok := ins.(*ssa.BinOp)
		if !ok || (bo.Op != token.EQL && bo.Op != token.NEQ) {
			return
		}
		l, r := w.TS.Of(bo.X), w.TS.Of(bo.Y)
		if !isAddrTyped(l) && !isAddrTyped(r) {
			return
		}
		nEq++
		same := l.Op == OpCall && r.Op == OpCall && l.Name == projs[0] && r.Name == projs[0] && len(l.Args) == 1 && len(r.Args) == 1
		rr.At(w, ins, "the duplicate test compares addresses by the projection that keys the address index", same, "compares "+trunc(l.String(), 80)+" with "+trunc(r.String(), 80)+"; index key projection "+projs[0])
	})
	if nEq == 0 {
		rr.Oblige(shortFuncName(a.getNode), "the duplicate test compares addresses by the projection that keys the address index", w.P.Pos(a.getNode.Pos()), false, "no address comparison found in bucket.GetNode")
	}
	// an entry's identity (ID and address) is fixed when the entry is built: the bucket it sits in
	// and its place in the address index were both derived from it, so a later write through a
	// pointer to an existing entry leaves the index and the buckets disagreeing
	idF := w.P.Field("", "nodeKey", "Id")
	keyEmb := w.P.Field("", "node", "nodeKey")
	nId := 0
	eachInstr(w.P.LibFuncs, func(fn *ssa.Function, ins ssa.Instruction) {
		st, ok := ins.(*ssa.Store)
		if !ok {
			return
		}
		touches := false
		base := st.Addr
		for i := 0; i < 8; i++ {
			switch x := base.(type) {
			case *ssa.FieldAddr:
				f := x.X.Type().Underlying().(*types.Pointer).Elem().Underlying().(*types.Struct).Field(x.Field)
				if f == addrF || f == idF || f == keyEmb {
					touches = true
				}
				base = x.X
				continue
			case *ssa.IndexAddr:
				base = x.X
				continue
			}
			break
		}
		if !touches {
			// whole-struct overwrite through a pointer to an entry / its key
			if pt, isP := st.Addr.Type().Underlying().(*types.Pointer); isP {
				if n, isN := pt.Elem().(*types.Named); isN && n.Obj().Pkg() != nil && n.Obj().Pkg().Path() == modPath && (n.Obj().Name() == "node" || n.Obj().Name() == "nodeKey") {
					touches = true
				}
			}
		}
		if !touches {
			return
		}
		nId++
		_, fresh := base.(*ssa.Alloc)
		rr.At(w, ins, "an entry's ID and address are written only while the entry is being built (never through a pointer to an existing entry)", fresh, "writes "+trunc(w.TS.Of(st.Addr).String(), 100)+" in "+shortFuncName(fn))
	})
	if nId == 0 {
		rr.Oblige("node", "an entry's ID and address are written only while the entry is being built (never through a pointer to an existing entry)", "-", false, "no construction site found")
	}
}

// sumsBucketLens: f returns the sum of (*bucket).Len() over a range covering every bucket of the
// table (directly, or by returning the result of a module function that does).
func (w *World) sumsBucketLens(f *ssa.Function, depth int) bool {
	a := w.tableAnchors()
	if depth > 2 || len(f.Blocks) == 0 {
		return false
	}
	al, _ := arrayLen(a.buckets.Type())
	covers, adds := false, false
	eachInstr([]*ssa.Function{f}, func(_ *ssa.Function, ins ssa.Instruction) {
		if ia, ok := ins.(*ssa.IndexAddr); ok && fieldOfAddr(ia.X) == a.buckets {
			if ln, isRange := rangeIndexOver(ia.Index); isRange && ln == al {
				covers = true
			}
		}
		if bo, ok := ins.(*ssa.BinOp); ok && bo.Op == token.ADD {
			for _, op := range []ssa.Value{bo.X, bo.Y} {
				if c, ok := op.(*ssa.Call); ok {
					if sc := c.Common().StaticCallee(); sc != nil && sc.Name() == "Len" && recvNamedFn(sc) == "bucket" {
						adds = true
					}
				}
			}
		}
	})
	if covers && adds {
		return true
	}
	// delegation: every return is the result of one module callee that qualifies
	ok := false
	eachInstr([]*ssa.Function{f}, func(_ *ssa.Function, ins ssa.Instruction) {
		if r, isRet := ins.(*ssa.Return); isRet && len(r.Results) == 1 {
			if c, isCall := r.Results[0].(*ssa.Call); isCall {
				if g := c.Common().StaticCallee(); g != nil && w.P.IsLib(g) && w.sumsBucketLens(g, depth+1) {
					ok = true
				}
			}
		}
	})
	return ok
}

func recvNamedFn(f *ssa.Function) string {
	if f.Signature.Recv() == nil {
		return ""
	}
	t := f.Signature.Recv().Type()
	if pt, ok := t.(*types.Pointer); ok {
		t = pt.Elem()
	}
	if n, ok := types.Unalias(t).(*types.Named); ok {
		return n.Obj().Name()
	}
	return ""
}
