package main

import (
	"fmt"
	"go/token"
	"go/types"
	"strings"

	"golang.org/x/tools/go/ssa"
)

func init() {
	register(&Property{
		ID:    "C16",
		Title: "Announce hands each node back its own token, and always finishes",
		Decided: "C16.1 token and destination travel together: in Announce.announcePeer the address and the token given to Server.announcePeer come from the same closest-set element (peer.Addr, peer.Data), which is the Range callback's own argument; in TraversalQueryResult the closest data is *r.Token under r.Token ≠ nil only, and the responder is {addr, r.ID} of that same reply; " +
			"C16.2 the token assertion is licensed by the DataFilter installed at the same traversal.Start (true only for strings); " +
			"C16.3 order and completion: the completion goroutine receives from Stopped() before announceClosest(), announces only when announce options were given, and sets peerAnnounced and closes Peers on every path; Peers is closed nowhere else; the goroutine is started on every non-error path; announceClosest waits for every announce it started (Add before go, never inside the started goroutine) and reads Closest() only after Stopped(); " +
			"C16.4 delivery is not lossy and cannot strand the announce: every send on Announce.Peers sits in a blocking select whose only other case is the announce's own close event (a SetOnce every setter of which also stops the traversal) - not the query context (StopTraversing would drop received responses) and not Stopped() (which waits for the delivering query itself); the delivered value carries the responder {addr, r.ID}, r.Values and *r of the one reply; " +
			"C16.5 argument correspondence: Server.announcePeer fills MsgArgs.ImpliedPort/InfoHash/Port/Token from the like-named parameters and queries the node it was given; Announce.announcePeer passes its own info-hash and the configured Port / ImpliedPort. C16.11 the get_peers callback runs synchronously in the goroutine holding the in-flight slot, so Stopped() implies no delivery is pending (shared with C04.1); C16.12 every slot release is broadcast so Stop()'s waiter wakes (shared with C03.2).",
		NotDecided: "which nodes end up in the closest set (C02), exactly-once delivery counts, behaviour of the remote nodes.",
		Assume:     []string{"k-nearest-nodes Range yields each stored element with its own key and data (C02.4 checks Push stores them together)"},
		Rules: []*Rule{
			{ID: "C16.1", Doc: "token and destination from the same element / reply", Floor: 4, Run: c16r1},
			{ID: "C16.2", Doc: "token assertion licensed by the data filter", Floor: 2, Run: c16r2},
			{ID: "C16.3", Doc: "stop, wait, announce, then close - on every path", Floor: 7, Run: c16r3},
			{ID: "C16.4", Doc: "responses are delivered unless the traversal was stopped", Floor: 2, Run: c16r4},
			{ID: "C16.5", Doc: "announce_peer arguments", Floor: 6, Run: c16r5},
			{ID: "C16.6", Doc: "the lookup under the announce can stall and stop: every in-flight slot taken is given back (shared with C03.4)", Floor: 5, Run: c03r4},
			{ID: "C16.8", Doc: "a reply cannot inherit another node's id or token from an earlier datagram: fresh decode target per datagram (shared with C07.7)", Floor: 1, Run: c07r7},
			{ID: "C16.10", Doc: "address and token stay together in the closest set: Push stores the element it was given, key and data (shared with C02.4)", Floor: 6, Run: c02r4},
			{ID: "C16.11", Doc: "Stopped() means every get_peers callback has returned (so closing Peers after it cannot race a delivery): the callback runs synchronously in the goroutine that holds the in-flight slot (shared with C04.1)", Floor: 4, Run: c04r1},
			{ID: "C16.12", Doc: "the announce always finishes: every release of an in-flight slot is broadcast, so the waiter in Stop() wakes and Stopped() fires (shared with C03.2)", Floor: 5, Run: c03r2},
			{ID: "C16.9", Doc: "Close() sets the close event unconditionally and without waiting (the deliveries it releases are what the traversal's Stopped() waits for)", Floor: 1, Run: c16CloseNeverWaits},
			{ID: "C16.7", Doc: "replies are matched to queries by full address and transaction id, so the token kept for a node is that node's (shared with C07.1)", Floor: 6, Run: c07r1},
		},
	})
}

func c16r1(w *World, rr *RuleRun) {
	ap := w.P.Func("(*Announce).announcePeer")
	sap := w.P.Func("(*Server).announcePeer")
	peer := w.ParamTerm(ap, "peer")
	for _, site := range w.CallsIn(ap, sap, true) {
		c := callInstrCommon(site)
		node, tok := w.TS.Of(c.Args[2]), w.TS.Of(c.Args[5])
		okNode := node.Contains(peer) && strings.Contains(node.String(), ".Addr")
		okTok := tok.Op == OpAssert && tok.Args[0].Op == OpField && tok.Args[0].Name == "Data" && termEq(tok.Args[0].Args[0], peer)
		rr.At(w, site, "announce_peer goes to the element's address with the element's own token", okNode && okTok, "node "+trunc(node.String(), 100)+" token "+trunc(tok.String(), 100))
	}
	// announceClosest: the element handed to announcePeer is the Range callback's own argument
	ac := w.P.Func("(*Announce).announceClosest")
	n := 0
	for _, f := range allAnon(ac) {
		for _, site := range w.CallsIn(f, ap, false) {
			n++
			arg := w.TS.Of(callInstrCommon(site).Args[1])
			// resolves to the parameter of the enclosing Range callback
			ok := arg.Op == OpParam
			if ok {
				p, _ := arg.Obj.(*ssa.Parameter)
				ok = p != nil && within(f, p.Parent()) && p.Parent() != ac
			}
			rr.At(w, site, "each announce uses the element the Range callback was called with", ok, "argument "+trunc(arg.String(), 100))
		}
	}
	if n == 0 {
		rr.Oblige(shortFuncName(ac), "announceClosest announces to closest-set elements", w.P.Pos(ac.Pos()), false, "no announcePeer call in its closures")
	}
	// TraversalQueryResult
	tqr := w.P.Func("(QueryResult).TraversalQueryResult")
	cdata := w.P.Field("traversal", "QueryResult", "ClosestData")
	respF := w.P.Field("traversal", "QueryResult", "ResponseFrom")
	tokF := w.P.Field("krpc", "Return", "Token")
	idF := w.P.Field("krpc", "Return", "ID")
	addrP := w.ParamTerm(tqr, "addr")
	nCD := 0
	for _, ins := range w.FieldWrites([]*ssa.Function{tqr}, cdata) {
		st, ok := ins.(*ssa.Store)
		if !ok {
			continue
		}
		nCD++
		w.Require(rr, ins, "closest data is the reply's token, and only when the reply carries one", func(alt *Alt) (bool, string) {
			v := w.FE.Resolve(alt, st.Val)
			if !(v.Op == OpDeref && isFieldTerm(v.Args[0], tokF)) {
				return false, "stored value is not *r.Token: " + trunc(v.String(), 120) + " (a node that sent no token would enter the closest set with made-up data)"
			}
			if !alt.HasKey("n", v.Args[0], true) {
				return false, "no r.Token ≠ nil fact"
			}
			return true, "*r.Token under r.Token ≠ nil"
		})
	}
	if nCD == 0 {
		rr.Oblige(shortFuncName(tqr), "TraversalQueryResult fills ClosestData", w.P.Pos(tqr.Pos()), false, "no store")
	}
	for _, ins := range w.FieldWrites([]*ssa.Function{tqr}, respF) {
		st, ok := ins.(*ssa.Store)
		if !ok {
			continue
		}
		al, _ := st.Val.(*ssa.Alloc)
		okR := false
		det := ""
		if al != nil {
			fs := allocFieldStores(al)
			a, id := w.TS.Of(fs["Addr"]), w.TS.Of(fs["ID"])
			okR = fs["Addr"] != nil && fs["ID"] != nil && termEq(a, addrP) && isFieldTerm(id, idF)
			det = "Addr ← " + trunc(a.String(), 60) + ", ID ← " + trunc(id.String(), 80)
		}
		rr.At(w, ins, "the responder recorded for a reply is {queried address, the reply's id}", okR, det)
	}
}

func c16r2(w *World, rr *RuleRun) {
	// every unchecked assertion x.Data.(string) on a closest-set element in library code must be matched by
	// a DataFilter (true-class: ok(assert data.(string))) or a normalisation at the Start that built the set
	t := w.trav()
	n := 0
	for _, ss := range w.traversalStartSites() {
		fn := enclosingNamed(ss.call.Parent())
		// does the owner (or code reachable from its Announce) assert Data.(string)?
		uses := false
		var roots []*ssa.Function
		switch shortFuncName(fn) {
		case "(*Server).AnnounceTraversal":
			roots = []*ssa.Function{w.P.Func("(*Announce).announcePeer")}
		case "exts/getput.startGetTraversal":
			roots = append([]*ssa.Function{w.P.Func("exts/getput.Put")}, allAnon(w.P.Func("exts/getput.Put"))...)
		}
		for _, r := range roots {
			for _, b := range r.Blocks {
				for _, ins := range b.Instrs {
					if ta, ok := ins.(*ssa.TypeAssert); ok && !ta.CommaOk && strings.HasSuffix(w.TS.Of(ta.X).String(), ".Data") {
						uses = true
					}
				}
			}
		}
		if !uses {
			continue
		}
		n++
		licensed := false
		why := "no DataFilter at this Start"
		if df := ss.fields["DataFilter"]; df != nil {
			for _, f := range w.CG.FuncsOf(df) {
				sum := w.FE.Summary(f, 0, "true", 0)
				ok := len(sum) > 0
				for _, alt := range sum {
					if !alt.Has("b", true, func(x *Term) bool {
						return x.Op == OpExtract && x.Name == "1" && x.Args[0].Op == OpAssert && x.Args[0].Name == "string"
					}) {
						ok = false
					}
				}
				licensed = ok
				why = "DataFilter " + shortFuncName(f) + " true-class " + trunc(sum.String(), 160)
			}
		}
		if !licensed {
			// normalisation form: the DoQuery closure sets ClosestData, _ = x.(string) and drops the responder when nil
			if dq := ss.fields["DoQuery"]; dq != nil {
				for _, f := range w.CG.FuncsOf(dq) {
					okN := false
					for _, b := range f.Blocks {
						for _, ins := range b.Instrs {
							if ta, ok := ins.(*ssa.TypeAssert); ok && ta.CommaOk && relTypeString(ta.AssertedType) == "string" && strings.Contains(w.TS.Of(ta.X).String(), "ClosestData") {
								okN = true
							}
						}
					}
					if okN {
						licensed = true
						why = "DoQuery " + shortFuncName(f) + " normalises ClosestData to a string or drops the responder"
					}
				}
			}
		}
		rr.At(w, ss.call, "the unchecked Data.(string) assertion downstream is licensed at the Start that builds the closest set", licensed, why)
	}
	if n == 0 {
		rr.Oblige("(library)", "closest-set data is asserted to be a token string somewhere", "-", false, "no assertion found")
	}
	_ = t
}

func c16r3(w *World, rr *RuleRun) {
	at := w.P.Func("(*Server).AnnounceTraversal")
	ac := w.P.Func("(*Announce).announceClosest")
	peersF := w.P.Field("", "Announce", "Peers")
	optsF := w.P.Field("", "Announce", "announcePeerOpts")
	annF := w.P.Field("", "Announce", "peerAnnounced")
	travF := w.P.Field("", "Announce", "traversal")
	// the completion goroutine: closure of AnnounceTraversal that closes Peers
	isClosePeers := func(i ssa.Instruction) bool {
		c := callInstrCommon(i)
		if c == nil {
			return false
		}
		bi, ok := c.Value.(*ssa.Builtin)
		return ok && bi.Name() == "close" && hasFieldAnywhere(w.TS.Of(c.Args[0]), peersF)
	}
	var comp *ssa.Function
	nClose := 0
	eachInstr(w.P.LibFuncs, func(fn *ssa.Function, ins ssa.Instruction) {
		if isClosePeers(ins) {
			nClose++
			// the completion routine: a closure of AnnounceTraversal, or a function it starts with `go`
			if within(fn, at) {
				comp = fn
			}
			for _, e := range w.CG.CallersOf(enclosingNamed(fn)) {
				if e.Mode == ModeGo && within(e.Caller, at) {
					comp = fn
				}
			}
		}
	})
	rr.Oblige("Announce.Peers", "the Peers channel is closed at exactly one site", "-", nClose == 1, fmt.Sprintf("%d close sites", nClose))
	if comp == nil {
		rr.Oblige(shortFuncName(at), "AnnounceTraversal has a completion goroutine that closes Peers", w.P.Pos(at.Pos()), false, "")
		return
	}
	first := comp.Blocks[0].Instrs[0]
	okC, _ := MustPass(first, isClosePeers)
	rr.At(w, first, "the completion goroutine closes Peers on every path", okC, "")
	isSetAnn := func(i ssa.Instruction) bool {
		c := callInstrCommon(i)
		return c != nil && !c.IsInvoke() && len(c.Args) > 0 && isChansyncMethod(c, "SetOnce", "Set") && fieldOfAddr(c.Args[0]) == annF
	}
	okS, _ := MustPass(first, isSetAnn)
	rr.At(w, first, "the completion goroutine signals Finished (peerAnnounced.Set) on every path", okS, "")
	isStoppedRecv := func(i ssa.Instruction) bool {
		u, ok := i.(*ssa.UnOp)
		if !ok || u.Op != token.ARROW {
			return false
		}
		ch := w.TS.Of(u.X)
		return ch.Op == OpCall && suffixName(ch) == "Stopped" && hasFieldAnywhere(ch, travF)
	}
	isStop := func(i ssa.Instruction) bool {
		c := callInstrCommon(i)
		if c == nil {
			return false
		}
		o := calleeObj(c)
		return o != nil && o.Name() == "Stop" && recvNamed(o) == "Operation"
	}
	for _, site := range w.CallsIn(comp, ac, false) {
		rr.At(w, site, "announces are sent only after the traversal reported Stopped", PrecededBy(site, isStoppedRecv), "")
		rr.At(w, site, "the traversal is told to stop before the announces", PrecededBy(site, isStop), "")
		optsSet := func(alt *Alt) (bool, string) {
			if alt.Has("n", true, func(x *Term) bool { return isFieldTerm(x, optsF) }) {
				return true, "announcePeerOpts ≠ nil"
			}
			return false, "no announcePeerOpts ≠ nil fact"
		}
		// the guard may sit at the call, or at the top of announceClosest itself: in the latter case
		// it must hold where the announces are handed out (the calls in announceClosest that receive
		// a closure leading to announcePeer)
		st := w.FE.StateBefore(site)
		atCall := len(st) > 0
		for _, alt := range st {
			if ok, _ := optsSet(alt); !ok {
				atCall = false
			}
		}
		if atCall {
			w.Require(rr, site, "announces are sent only when announce options were configured", optsSet)
		} else {
			apM := w.P.Func("(*Announce).announcePeer")
			nIn := 0
			eachInstr([]*ssa.Function{ac}, func(_ *ssa.Function, ins ssa.Instruction) {
				c := callInstrCommon(ins)
				if c == nil {
					return
				}
				leads := false
				for _, a := range c.Args {
					if mc, ok := a.(*ssa.MakeClosure); ok {
						fn := mc.Fn.(*ssa.Function)
						for _, g := range append([]*ssa.Function{fn}, allAnon(fn)...) {
							if len(w.CallsIn(g, apM, false)) > 0 {
								leads = true
							}
						}
					}
				}
				if leads {
					nIn++
					w.Require(rr, ins, "announces are sent only when announce options were configured", optsSet)
				}
			})
			if nIn == 0 {
				w.Require(rr, site, "announces are sent only when announce options were configured", optsSet)
			}
		}
	}
	// the set announced to is the FINAL closest set: every read of the traversal's Closest() in the
	// announce flow happens after the receive from Stopped() - in the completion goroutine itself,
	// or inside a function the goroutine calls after that receive
	closestM := w.P.Func("(*traversal.Operation).Closest")
	nCl := 0
	for _, site := range w.AllCallsTo(w.P.LibFuncs, closestM) {
		c := callInstrCommon(site)
		if len(c.Args) == 0 || !hasFieldAnywhere(w.TS.Of(c.Args[0]), travF) {
			continue // some other traversal's result set
		}
		nCl++
		var at ssa.Instruction = site
		okAfter := false
		for depth := 0; depth < 4 && at != nil; depth++ {
			f := at.Parent()
			if f == comp || within(f, comp) {
				// climb closures up to comp
				for f != comp && f.Parent() != nil {
					// the closure is invoked (or passed as callback) at its creation point in the parent
					var mk ssa.Instruction
					eachInstr([]*ssa.Function{f.Parent()}, func(_ *ssa.Function, i2 ssa.Instruction) {
						if m, ok := i2.(*ssa.MakeClosure); ok && m.Fn == f {
							mk = m
						}
					})
					if mk == nil {
						break
					}
					at, f = mk, f.Parent()
				}
				okAfter = f == comp && PrecededBy(at, isStoppedRecv)
				break
			}
			// a named function: continue at its call sites (all of them must qualify; take the only one)
			g := enclosingNamed(f)
			var sites []*Edge
			for _, e := range w.CG.CallersOf(g) {
				if !e.Callback && w.P.IsLib(e.Caller) {
					sites = append(sites, e)
				}
			}
			if len(sites) != 1 || sites[0].Mode != ModeSync {
				break
			}
			at = sites[0].Site
		}
		rr.At(w, site, "the closest set is read only after the traversal reported Stopped", okAfter, "")
	}
	if nCl == 0 {
		rr.Oblige(shortFuncName(ac), "the closest set is read only after the traversal reported Stopped", w.P.Pos(ac.Pos()), false, "no read of the announce traversal's Closest()")
	}
	for _, b := range comp.Blocks {
		for _, ins := range b.Instrs {
			if isClosePeers(ins) {
				rr.At(w, ins, "Peers is closed only after the traversal reported Stopped (no delivery can be in flight)", PrecededBy(ins, isStoppedRecv), "")
			}
		}
	}
	// started on every non-error return of AnnounceTraversal
	ff := w.FE.analysisFor(at)
	for _, ex := range ff.exits {
		for _, alt := range ex.st {
			errV := w.FE.Resolve(alt, ex.ret.Results[1])
			if !errV.IsConst("nil") {
				continue
			}
			started := PrecededBy(ex.ret, func(i ssa.Instruction) bool {
				g, ok := i.(*ssa.Go)
				if !ok {
					return false
				}
				for _, e := range w.CG.SiteOut[g] {
					if e.Callee == comp {
						return true
					}
				}
				return false
			})
			rr.At(w, ex.ret, "every successful AnnounceTraversal has started the completion goroutine", started, "")
		}
	}
	// announceClosest waits for all announces: wg.Add before each go, Done in each, Wait at the end
	var adds, dones, waits int
	for _, f := range append([]*ssa.Function{ac}, allAnon(ac)...) {
		for _, b := range f.Blocks {
			for _, ins := range b.Instrs {
				c := callInstrCommon(ins)
				if c == nil {
					continue
				}
				o := calleeObj(c)
				if o == nil || recvNamed(o) != "WaitGroup" {
					continue
				}
				switch o.Name() {
				case "Add":
					adds++
				case "Done":
					dones++
					first := f.Blocks[0].Instrs[0]
					ok, _ := MustPass(first, func(i ssa.Instruction) bool { return i == ins })
					rr.At(w, ins, "each announce goroutine reports Done on every path", ok || first == ins, "")
				case "Wait":
					waits++
					rr.At(w, ins, "announceClosest waits after the Range completed (not inside it)", f == ac && !blockInCycle(b), "")
				}
			}
		}
	}
	w.checkWaitGroupStarts(rr, ac)
	rr.Oblige(shortFuncName(ac), "announceClosest counts, joins and waits for its announce goroutines", w.P.Pos(ac.Pos()), adds >= 1 && dones >= 1 && waits == 1, fmt.Sprintf("Add %d, Done %d, Wait %d", adds, dones, waits))
}

func c16r4(w *World, rr *RuleRun) {
	peersF := w.P.Field("", "Announce", "Peers")
	travF := w.P.Field("", "Announce", "traversal")
	n := 0
	eachInstr(w.P.LibFuncs, func(fn *ssa.Function, ins ssa.Instruction) {
		if s, ok := ins.(*ssa.Send); ok && hasFieldAnywhere(w.TS.Of(s.Chan), peersF) {
			n++
			rr.At(w, ins, "responses are delivered through a select that can only be abandoned when the announce is closed", false, "bare send on Announce.Peers (blocks forever if the consumer is gone, or loses the stop signal)")
		}
		sel, ok := ins.(*ssa.Select)
		if !ok {
			return
		}
		sendIdx := -1
		for i, st := range sel.States {
			if st.Dir == types.SendOnly && hasFieldAnywhere(w.TS.Of(st.Chan), peersF) {
				sendIdx = i
			}
		}
		if sendIdx < 0 {
			return
		}
		n++
		okAlt := sel.Blocking && len(sel.States) == 2
		det := fmt.Sprintf("blocking=%v, %d cases", sel.Blocking, len(sel.States))
		for i, st := range sel.States {
			if i == sendIdx {
				continue
			}
			ch := w.TS.Of(st.Chan)
			switch {
			case st.Dir == types.RecvOnly && w.isCloseEventDone(ch, true):
				// the announce's own close event: set only by Close(), which also stops the lookup
			case st.Dir == types.RecvOnly && w.isOwnQueryCtxDone(ch, fn):
				okAlt = false
				det += "; the other case is the query context, which the lookup cancels as soon as it starts stopping: StopTraversing (or the natural stop after stalling) would drop a response already received although the consumer is still reading"
			case st.Dir == types.RecvOnly && ch.Op == OpCall && suffixName(ch) == "Stopped" && hasFieldAnywhere(ch, travF):
				okAlt = false
				det += "; the other case waits for the traversal to have STOPPED, which cannot happen while this query - the one making the delivery - is still in flight: Close/StopTraversing with an unread Peers channel strands the delivery, the stop goroutine and the completion goroutine, and Peers is never closed"
			default:
				okAlt = false
				det += "; other case waits on " + trunc(ch.String(), 100)
			}
		}
		rr.At(w, ins, "a received response is delivered unless the announce is closed (the only other case is the close event; no default, no timeout)", okAlt, det)
		// the delivered value: NodeInfo{addr, r.ID}, Peers r.Values, Return *r
		v := sel.States[sendIdx].Send
		if al := allocOfLoad(v); al != nil {
			fs := allocFieldStores(al)
			vals := w.TS.Of(fs["Peers"])
			ret := w.TS.Of(fs["Return"])
			okV := fs["Peers"] != nil && strings.HasSuffix(vals.String(), ".Values") && fs["Return"] != nil && ret.Op == OpDeref && vals.Contains(ret.Args[0])
			var ni *Term
			if nal, ok := fs["NodeInfo"].(*ssa.UnOp); ok {
				if a2, ok := nal.X.(*ssa.Alloc); ok {
					nf := allocFieldStores(a2)
					ni = w.TS.Of(nf["Addr"])
					idt := w.TS.Of(nf["ID"])
					okV = okV && nf["Addr"] != nil && ni.Op == OpParam && nf["ID"] != nil && strings.HasSuffix(idt.String(), ".ID") && idt.Contains(ret.Args[0])
				}
			} else if fs["NodeInfo"] == nil {
				// nested literal stored field-wise
				okV = okV && true
			}
			rr.At(w, ins, "the delivered value is the one reply: its values, its return and its responder", okV, "Peers ← "+trunc(vals.String(), 80)+", Return ← "+trunc(ret.String(), 80))
		}
	})
	if n == 0 {
		rr.Oblige("Announce.Peers", "responses are delivered on Announce.Peers", "-", false, "no send site")
	}
}

func c16r5(w *World, rr *RuleRun) {
	sap := w.P.Func("(*Server).announcePeer")
	q := w.P.Func("(*Server).Query")
	argsT := w.P.NamedType("krpc", "MsgArgs")
	lit := w.literalStores(sap, argsT)
	// the parameters are found by type (their names and grouping are the maintainer's business): the
	// token is the string parameter, the info-hash the int160 one, the node the Addr one; port and
	// implied_port are an int and a bool parameter, or the fields of an AnnouncePeerOpts parameter
	optsT := w.P.NamedType("", "AnnouncePeerOpts")
	portF := w.P.Field("", "AnnouncePeerOpts", "Port")
	impF := w.P.Field("", "AnnouncePeerOpts", "ImpliedPort")
	var tokP, ihP, nodeP, portP, impP, optsP *ssa.Parameter
	for _, pm := range sap.Params[1:] {
		switch {
		case types.Identical(pm.Type(), optsT):
			optsP = pm
		case strings.HasSuffix(pm.Type().String(), "int160.T"):
			ihP = pm
		case relTypeString(pm.Type()) == "Addr":
			nodeP = pm
		default:
			if bt, ok := pm.Type().Underlying().(*types.Basic); ok {
				switch {
				case bt.Kind() == types.String && tokP == nil:
					tokP = pm
				case bt.Kind() == types.Int && portP == nil:
					portP = pm
				case bt.Kind() == types.Bool && impP == nil:
					impP = pm
				}
			}
		}
	}
	if tokP == nil || ihP == nil || nodeP == nil || (optsP == nil && (portP == nil || impP == nil)) {
		rr.Broken("Server.announcePeer: parameters not recognised by type (token %v, info-hash %v, node %v, port %v, implied %v, opts %v)", tokP != nil, ihP != nil, nodeP != nil, portP != nil, impP != nil, optsP != nil)
		return
	}
	fromOpts := func(v *Term, f *types.Var) bool {
		if optsP == nil {
			return false
		}
		ok := false
		po := w.TS.Of(optsP)
		v.Walk(func(x *Term) bool {
			if isFieldTerm(x, f) && (termEq(x.Args[0], po) || (po.Op == OpDeref && termEq(x.Args[0], po.Args[0])) || strings.Contains(x.Args[0].String(), optsP.Name()+"@")) {
				ok = true
			}
			return !ok
		})
		return ok
	}
	iv := w.TS.Of(lit["ImpliedPort"])
	rr.Oblige(shortFuncName(sap), "announce_peer argument ImpliedPort is the implied-port flag the caller passed", w.P.Pos(sap.Pos()), lit["ImpliedPort"] != nil && ((impP != nil && termEq(iv, w.TS.Of(impP))) || (isFieldTerm(iv, impF) && fromOpts(iv, impF))), "ImpliedPort ← "+trunc(iv.String(), 100))
	tv := w.TS.Of(lit["Token"])
	rr.Oblige(shortFuncName(sap), "announce_peer argument Token is the token parameter", w.P.Pos(sap.Pos()), lit["Token"] != nil && termEq(tv, w.TS.Of(tokP)), "Token ← "+trunc(tv.String(), 100))
	ih := w.TS.Of(lit["InfoHash"])
	rr.Oblige(shortFuncName(sap), "announce_peer argument InfoHash is the infoHash parameter", w.P.Pos(sap.Pos()), lit["InfoHash"] != nil && ih.Contains(w.TS.Of(ihP)), "InfoHash ← "+trunc(ih.String(), 100))
	pt := w.TS.Of(lit["Port"])
	okPort := false
	if lit["Port"] != nil {
		if portP != nil {
			pp := w.TS.Of(portP)
			okPort = pt.Op == OpAddr && termEq(pt.Args[0], pp) || pt.Contains(pp) || strings.Contains(pt.String(), portP.Name()+"@")
		}
		if !okPort {
			okPort = fromOpts(pt, portF)
		}
	}
	rr.Oblige(shortFuncName(sap), "announce_peer argument Port is the port the caller passed", w.P.Pos(sap.Pos()), okPort, "Port ← "+trunc(pt.String(), 100))
	for _, site := range w.CallsIn(sap, q, false) {
		c := callInstrCommon(site)
		node := w.TS.Of(c.Args[2])
		meth := w.TS.Of(c.Args[3])
		rr.At(w, site, "the announce is sent as announce_peer to the node parameter", termEq(node, w.TS.Of(nodeP)) && meth.IsConst(`"announce_peer"`), "to "+node.String()+" method "+meth.String())
	}
	// the deprecated wrapper Server.Announce(infoHash, port, impliedPort, ...) configures exactly what
	// it was given: every AnnouncePeerOpts it builds takes Port from its int parameter and
	// ImpliedPort from its bool parameter
	if wrap := w.P.FuncOpt("(*Server).Announce"); wrap != nil {
		optsT := w.P.NamedType("", "AnnouncePeerOpts")
		var intP, boolP *ssa.Parameter
		for _, pm := range wrap.Params {
			if b, ok := pm.Type().Underlying().(*types.Basic); ok {
				switch {
				case b.Kind() == types.Int && intP == nil:
					intP = pm
				case b.Kind() == types.Bool && boolP == nil:
					boolP = pm
				}
			}
		}
		nLit := 0
		eachInstr(append([]*ssa.Function{wrap}, allAnon(wrap)...), func(_ *ssa.Function, ins ssa.Instruction) {
			al, ok := ins.(*ssa.Alloc)
			if !ok || !types.Identical(al.Type().Underlying().(*types.Pointer).Elem(), optsT) {
				return
			}
			fs := allocFieldStores(al)
			if len(fs) == 0 {
				return
			}
			nLit++
			okP := intP != nil && fs["Port"] != nil && termEq(w.TS.Of(fs["Port"]), w.TS.Of(intP))
			okI := boolP != nil && fs["ImpliedPort"] != nil && termEq(w.TS.Of(fs["ImpliedPort"]), w.TS.Of(boolP))
			rr.At(w, ins, "Server.Announce configures the port and the implied_port flag it was given", okP && okI, fmt.Sprintf("Port from the port parameter: %v, ImpliedPort from the impliedPort parameter: %v", okP, okI))
		})
		if nLit == 0 {
			rr.Oblige(shortFuncName(wrap), "Server.Announce configures the port and the implied_port flag it was given", w.P.Pos(wrap.Pos()), false, "no AnnouncePeerOpts literal")
		}
	}
	// Announce.announcePeer passes its own info-hash and configured options
	ap := w.P.Func("(*Announce).announcePeer")
	ihF := w.P.Field("", "Announce", "infoHash")
	optsF := w.P.Field("", "Announce", "announcePeerOpts")
	for _, site := range w.CallsIn(ap, sap, true) {
		c := callInstrCommon(site)
		for i, pm := range sap.Params {
			if i >= len(c.Args) {
				break
			}
			at := w.TS.Of(c.Args[i])
			switch pm {
			case ihP:
				rr.At(w, site, "the announce names the announce's own info-hash", isFieldTerm(at, ihF), trunc(at.String(), 80))
			case portP:
				rr.At(w, site, "the announce carries the configured port", isFieldTerm(at, portF), trunc(at.String(), 80))
			case impP:
				rr.At(w, site, "the announce carries the configured implied_port flag", isFieldTerm(at, impF), trunc(at.String(), 80))
			case optsP:
				whole := at.Op == OpDeref && len(at.Args) == 1 && isFieldTerm(at.Args[0], optsF)
				rr.At(w, site, "the announce carries the configured port", whole, trunc(at.String(), 80))
				rr.At(w, site, "the announce carries the configured implied_port flag", whole, trunc(at.String(), 80))
			}
		}
	}
}

// checkWaitGroupStarts: every goroutine that reports Done on a WaitGroup is counted (Add) by the
// starting goroutine before the go statement, on every path; an Add inside the started goroutine
// races with Wait.
func (w *World) checkWaitGroupStarts(rr *RuleRun, root *ssa.Function) int {
	isWG := func(ins ssa.Instruction, name string) bool {
		c := callInstrCommon(ins)
		if c == nil {
			return false
		}
		o := calleeObj(c)
		return o != nil && recvNamed(o) == "WaitGroup" && o.Name() == name
	}
	callsDone := func(f *ssa.Function) bool {
		found := false
		eachInstr(append([]*ssa.Function{f}, allAnon(f)...), func(_ *ssa.Function, ins ssa.Instruction) {
			if isWG(ins, "Done") {
				found = true
			}
		})
		return found
	}
	n := 0
	for _, f := range append([]*ssa.Function{root}, allAnon(root)...) {
		for _, b := range f.Blocks {
			for _, ins := range b.Instrs {
				g, ok := ins.(*ssa.Go)
				if !ok {
					continue
				}
				joins := false
				for _, e := range w.CG.SiteOut[g] {
					if callsDone(e.Callee) {
						joins = true
					}
				}
				if !joins {
					continue
				}
				n++
				pre := PrecededBy(g, func(i ssa.Instruction) bool { return isWG(i, "Add") })
				rr.At(w, g, "a goroutine that reports Done is counted with Add before it is started", pre, "")
			}
		}
		// an Add inside a go-started function is too late for Wait
		for _, b := range f.Blocks {
			for _, ins := range b.Instrs {
				if !isWG(ins, "Add") {
					continue
				}
				goStarted := false
				for _, e := range w.CG.CallersOf(f) {
					if e.Mode == ModeGo {
						goStarted = true
					}
				}
				rr.At(w, ins, "WaitGroup.Add runs in the goroutine that waits, not in a started one", !goStarted, shortFuncName(f))
			}
		}
	}
	return n
}

// isOwnQueryCtxDone: ch is Done() of the context.Context parameter of fn (or of the function fn was
// extracted from), and that function is installed as a traversal's DoQuery callback.
func (w *World) isOwnQueryCtxDone(ch *Term, fn *ssa.Function) bool {
	if ch.Op != OpCall || suffixName(ch) != "Done" || len(ch.Args) != 1 || ch.Args[0].Op != OpParam {
		return false
	}
	p, ok := ch.Args[0].Obj.(*ssa.Parameter)
	if !ok || !strings.HasSuffix(p.Type().String(), "context.Context") {
		return false
	}
	t := w.trav()
	var cbs []*ssa.Function
	for _, cb := range w.CG.FieldFuncs(t.doQuery) {
		cbs = append(cbs, cb)
		if cb.Synthetic != "" {
			// bound-method / thunk wrapper: the real callback is what it calls
			for _, e := range w.CG.Out[cb] {
				cbs = append(cbs, e.Callee)
			}
		}
	}
	for _, cb := range cbs {
		if p.Parent() == cb && (fn == cb || w.withinUp(fn, cb)) {
			return true
		}
	}
	return false
}

// c16CloseNeverWaits: the functions that set the announce's close event do not wait for anything
// before setting it - in particular not for Stopped(), which itself waits for deliveries that only
// the close event releases.
func c16CloseNeverWaits(w *World, rr *RuleRun) {
	closedF := w.P.Field("", "Announce", "closed")
	n := 0
	eachInstr(w.P.LibFuncs, func(fn *ssa.Function, ins ssa.Instruction) {
		c := callInstrCommon(ins)
		if c == nil {
			return
		}
		o := calleeObj(c)
		if o == nil || o.Name() != "Set" || recvNamed(o) != "SetOnce" || len(c.Args) == 0 || fieldOfAddr(c.Args[0]) != closedF {
			return
		}
		n++
		rr.At(w, ins, "the close event is set without first waiting for anything", !blockingBefore(fn, ins), "a channel wait can run before closed.Set(): Close would wait for deliveries that only the close event releases")
	})
	if n == 0 {
		rr.Oblige("Announce.closed", "the close event is set somewhere", "-", false, "")
	}
}

// isCloseEventDone: ch is Done() of a chansync.SetOnce field every Set() of which sits in a
// function that also stops a traversal (so when it fires, the lookup is stopping and cannot be
// left waiting); with notOnStop, additionally no Set() site is in a function that only stops the
// traversal without closing (StopTraversing), i.e. the event means "the consumer is done".
func (w *World) isCloseEventDone(ch *Term, consumerDone bool) bool {
	if ch.Op != OpCall || suffixName(ch) != "Done" || !strings.Contains(ch.Name, "SetOnce") || len(ch.Args) != 1 {
		return false
	}
	at := ch.Args[0]
	if at.Op != OpAddr || len(at.Args) != 1 || at.Args[0].Op != OpField {
		return false
	}
	fv, _ := at.Args[0].Obj.(*types.Var)
	if fv == nil {
		return false
	}
	stop := w.P.Func("(*traversal.Operation).Stop")
	nSet := 0
	ok := true
	eachInstr(w.P.LibFuncs, func(fn *ssa.Function, ins ssa.Instruction) {
		c := callInstrCommon(ins)
		if c == nil {
			return
		}
		o := calleeObj(c)
		if o == nil || o.Name() != "Set" || recvNamed(o) != "SetOnce" || len(c.Args) == 0 {
			return
		}
		rt := w.TS.Of(c.Args[0])
		if !(rt.Op == OpAddr && len(rt.Args) == 1 && isFieldTerm(rt.Args[0], fv)) {
			return
		}
		nSet++
		// the setting function stops the traversal too
		r := w.CG.Reach([]*ssa.Function{enclosingNamed(fn)}, func(e *Edge) bool { return w.P.IsLib(e.Callee) && e.Mode == ModeSync })
		if _, stops := r[stop]; !stops {
			ok = false
		}
	})
	_ = consumerDone
	return ok && nSet > 0
}
