package main

// Engine A (part 2): call graph over module code.
//   * static calls: ssa StaticCallee
//   * interface invokes: class-hierarchy resolution restricted to module types
//   * function values: a module-local, field-based, flow-insensitive 0-CFA (see DESIGN §3.A: VTA
//     loses functions stored in traversal.OperationInput because of the struct conversion in Start;
//     go/types gives both struct types the *same* field objects, so a field-based analysis keyed by
//     *types.Var does not).
// Every edge carries a mode: sync, go or defer. Module closures handed to external code are taken
// to be invoked synchronously by that external call ("callback" edges).

import (
	"go/types"
	"sort"

	"golang.org/x/tools/go/ssa"
)

type EdgeMode int

const (
	ModeSync EdgeMode = iota
	ModeGo
	ModeDefer
)

func (m EdgeMode) String() string { return [...]string{"sync", "go", "defer"}[m] }

type Edge struct {
	Caller   *ssa.Function
	Site     ssa.Instruction // the call instruction in Caller
	Callee   *ssa.Function
	Mode     EdgeMode
	Callback bool // Callee is passed as an argument at Site to external / opaque code
}

type CallGraph struct {
	p        *Program
	Out      map[*ssa.Function][]*Edge
	In       map[*ssa.Function][]*Edge
	SiteOut  map[ssa.Instruction][]*Edge
	Unres    map[ssa.Instruction]bool // dynamic call sites in module code with no module callee (opaque hooks / external function values)
	NumEdges int

	// 0-CFA state
	pts   map[interface{}]map[*ssa.Function]bool // node -> function set
	succs map[interface{}][]interface{}
}

type elemNode struct{ t string } // container element of a given (function) type
type paramNode struct {          // parameter i of fn
	fn *ssa.Function
	i  int
}
type resultNode struct { // result i of fn
	fn *ssa.Function
	i  int
}

func isFuncType(t types.Type) bool {
	_, ok := t.Underlying().(*types.Signature)
	return ok
}

func BuildCallGraph(p *Program) *CallGraph {
	cg := &CallGraph{p: p, Out: map[*ssa.Function][]*Edge{}, In: map[*ssa.Function][]*Edge{}, SiteOut: map[ssa.Instruction][]*Edge{},
		Unres: map[ssa.Instruction]bool{}, pts: map[interface{}]map[*ssa.Function]bool{}, succs: map[interface{}][]interface{}{}}
	cg.solveFuncValues()
	cg.buildEdges()
	return cg
}

func (cg *CallGraph) addPts(n interface{}, f *ssa.Function, work *[]interface{}) {
	s := cg.pts[n]
	if s == nil {
		s = map[*ssa.Function]bool{}
		cg.pts[n] = s
	}
	if !s[f] {
		s[f] = true
		*work = append(*work, n)
	}
}

func (cg *CallGraph) addFlow(from, to interface{}, work *[]interface{}) {
	if from == nil || to == nil || from == to {
		return
	}
	for _, x := range cg.succs[from] {
		if x == to {
			return
		}
	}
	cg.succs[from] = append(cg.succs[from], to)
	for f := range cg.pts[from] {
		cg.addPts(to, f, work)
	}
}

// node maps an SSA value / location to its analysis node. Loads and stores are resolved to
// field / cell / element nodes by the instruction handlers; plain values are their own node.
func (cg *CallGraph) addrNode(addr ssa.Value) interface{} {
	switch a := addr.(type) {
	case *ssa.FieldAddr:
		st := a.X.Type().Underlying().(*types.Pointer).Elem().Underlying().(*types.Struct)
		return st.Field(a.Field)
	case *ssa.IndexAddr:
		return elemNode{types.TypeString(a.Type().Underlying().(*types.Pointer).Elem(), nil)}
	case *ssa.Alloc, *ssa.Global, *ssa.FreeVar:
		return addr // the cell itself
	case *ssa.Parameter:
		return elemNode{"*" + types.TypeString(a.Type(), nil)}
	}
	return elemNode{"*" + types.TypeString(addr.Type(), nil)}
}

func (cg *CallGraph) solveFuncValues() {
	p := cg.p
	var work []interface{}
	type dynCall struct {
		site ssa.Instruction
		c    *ssa.CallCommon
		fn   *ssa.Function
	}
	var dyn []dynCall
	// resolved static + invoke targets (module) for argument/result binding
	bindCall := func(site ssa.Instruction, c *ssa.CallCommon, callee *ssa.Function) {
		// args -> params
		args := c.Args
		params := callee.Params
		off := 0
		if c.IsInvoke() {
			off = 1 // receiver is params[0]
		}
		for i, a := range args {
			pi := i + off
			if pi < len(params) && isFuncType(a.Type()) {
				cg.addFlow(cg.valNode(a), paramNode{callee, pi}, &work)
			}
		}
		// results -> call value
		if v, ok := site.(ssa.Value); ok {
			res := callee.Signature.Results()
			if res.Len() == 1 && isFuncType(res.At(0).Type()) {
				cg.addFlow(resultNode{callee, 0}, v, &work)
			} else if res.Len() > 1 {
				for i := 0; i < res.Len(); i++ {
					if isFuncType(res.At(i).Type()) {
						cg.addFlow(resultNode{callee, i}, extractKey{v, i}, &work)
					}
				}
			}
		}
	}
	for _, f := range p.ModFuncs {
		for i, prm := range f.Params {
			if isFuncType(prm.Type()) {
				cg.addFlow(paramNode{f, i}, prm, &work)
			}
		}
		for _, b := range f.Blocks {
			for _, ins := range b.Instrs {
				switch ins := ins.(type) {
				case *ssa.Store:
					if isFuncType(ins.Val.Type()) {
						cg.addFlow(cg.valNode(ins.Val), cg.addrNode(ins.Addr), &work)
					}
				case *ssa.UnOp:
					if ins.Op.String() == "*" && isFuncType(ins.Type()) {
						cg.addFlow(cg.addrNode(ins.X), ins, &work)
					}
				case *ssa.Field:
					if isFuncType(ins.Type()) {
						st := ins.X.Type().Underlying().(*types.Struct)
						cg.addFlow(st.Field(ins.Field), ins, &work)
					}
				case *ssa.Phi:
					if isFuncType(ins.Type()) {
						for _, e := range ins.Edges {
							cg.addFlow(cg.valNode(e), ins, &work)
						}
					}
				case *ssa.ChangeType:
					if isFuncType(ins.Type()) {
						cg.addFlow(cg.valNode(ins.X), ins, &work)
					}
				case *ssa.Extract:
					if isFuncType(ins.Type()) {
						cg.addFlow(extractKey{ins.Tuple, ins.Index}, ins, &work)
					}
				case *ssa.Lookup:
					if isFuncType(ins.Type()) {
						cg.addFlow(elemNode{types.TypeString(ins.Type(), nil)}, ins, &work)
					}
				case *ssa.Index:
					if isFuncType(ins.Type()) {
						cg.addFlow(elemNode{types.TypeString(ins.Type(), nil)}, ins, &work)
					}
				case *ssa.MapUpdate:
					if isFuncType(ins.Value.Type()) {
						cg.addFlow(cg.valNode(ins.Value), elemNode{types.TypeString(ins.Value.Type(), nil)}, &work)
					}
				case *ssa.Send:
					if isFuncType(ins.X.Type()) {
						cg.addFlow(cg.valNode(ins.X), elemNode{types.TypeString(ins.X.Type(), nil)}, &work)
					}
				case *ssa.MakeClosure:
					fn := ins.Fn.(*ssa.Function)
					cg.addPts(ins, fn, &work)
					for i, bnd := range ins.Bindings {
						if i >= len(fn.FreeVars) {
							continue
						}
						if isFuncType(bnd.Type()) {
							cg.addFlow(cg.valNode(bnd), fn.FreeVars[i], &work)
						}
						// captured variable cells (*func): the cell in the parent and the free variable are
						// the same location
						if pt, ok := bnd.Type().Underlying().(*types.Pointer); ok && isFuncType(pt.Elem()) {
							cg.addFlow(cg.addrNode(bnd), fn.FreeVars[i], &work)
							cg.addFlow(fn.FreeVars[i], cg.addrNode(bnd), &work)
						}
					}
				case *ssa.Return:
					for i, r := range ins.Results {
						if isFuncType(r.Type()) {
							cg.addFlow(cg.valNode(r), resultNode{f, i}, &work)
						}
					}
				}
				if c := callInstrCommon(ins); c != nil {
					if sc := c.StaticCallee(); sc != nil {
						if p.IsMod(sc) {
							bindCall(ins, c, sc)
						}
					} else if c.IsInvoke() {
						for _, callee := range cg.invokeTargets(c) {
							bindCall(ins, c, callee)
						}
					} else if _, isB := c.Value.(*ssa.Builtin); !isB {
						dyn = append(dyn, dynCall{ins, c, f})
					}
				}
			}
		}
	}
	// Function references as operands are sources.
	for _, f := range p.ModFuncs {
		for _, b := range f.Blocks {
			for _, ins := range b.Instrs {
				for _, op := range ins.Operands(nil) {
					if g, ok := (*op).(*ssa.Function); ok {
						cg.addPts(g, g, &work)
					}
				}
			}
		}
	}
	bound := map[[2]interface{}]bool{}
	for {
		for len(work) > 0 {
			n := work[len(work)-1]
			work = work[:len(work)-1]
			for _, s := range cg.succs[n] {
				for f := range cg.pts[n] {
					cg.addPts(s, f, &work)
				}
			}
		}
		progress := false
		for _, d := range dyn {
			for f := range cg.pts[cg.valNode(d.c.Value)] {
				k := [2]interface{}{d.site, f}
				if bound[k] || !p.IsMod(f) {
					continue
				}
				bound[k] = true
				progress = true
				bindCall(d.site, d.c, f)
			}
		}
		if !progress && len(work) == 0 {
			break
		}
	}
}

type extractKey struct {
	tuple ssa.Value
	i     int
}

func (cg *CallGraph) valNode(v ssa.Value) interface{} {
	switch v := v.(type) {
	case *ssa.Function:
		return v
	case *ssa.Const:
		return nil
	}
	return v
}

// FuncsOf returns the module functions a function-typed SSA value may denote.
func (cg *CallGraph) FuncsOf(v ssa.Value) []*ssa.Function {
	var out []*ssa.Function
	for f := range cg.pts[cg.valNode(v)] {
		out = append(out, f)
	}
	sort.Slice(out, func(i, j int) bool { return out[i].String() < out[j].String() })
	return out
}

// FieldFuncs returns the module functions that may be stored in a function-typed struct field.
func (cg *CallGraph) FieldFuncs(fv *types.Var) []*ssa.Function {
	var out []*ssa.Function
	for f := range cg.pts[fv] {
		out = append(out, f)
	}
	sort.Slice(out, func(i, j int) bool { return out[i].String() < out[j].String() })
	return out
}

var implCache = map[*types.Func][]*ssa.Function{}

// invokeTargets: module methods that implement the invoked interface method.
func (cg *CallGraph) invokeTargets(c *ssa.CallCommon) []*ssa.Function {
	if r, ok := implCache[c.Method]; ok {
		return r
	}
	p := cg.p
	iface, _ := c.Value.Type().Underlying().(*types.Interface)
	var out []*ssa.Function
	if iface != nil {
		for _, pk := range p.Pkgs {
			sc := pk.Types.Scope()
			for _, name := range sc.Names() {
				tn, ok := sc.Lookup(name).(*types.TypeName)
				if !ok || tn.IsAlias() {
					continue
				}
				if _, isIface := tn.Type().Underlying().(*types.Interface); isIface {
					continue
				}
				if named, ok := tn.Type().(*types.Named); ok && named.TypeParams().Len() > 0 {
					continue
				}
				for _, t := range []types.Type{tn.Type(), types.NewPointer(tn.Type())} {
					if !types.Implements(t, iface) {
						continue
					}
					sel := p.SSA.MethodSets.MethodSet(t).Lookup(c.Method.Pkg(), c.Method.Name())
					if sel == nil {
						continue
					}
					if fn := p.SSA.MethodValue(sel); fn != nil {
						// unwrap promoted-method wrappers to be able to analyse the body
						out = append(out, fn)
					}
					break
				}
			}
		}
	}
	implCache[c.Method] = out
	return out
}

func (cg *CallGraph) addEdge(e *Edge) {
	cg.Out[e.Caller] = append(cg.Out[e.Caller], e)
	cg.In[e.Callee] = append(cg.In[e.Callee], e)
	cg.SiteOut[e.Site] = append(cg.SiteOut[e.Site], e)
	cg.NumEdges++
}

func modeOf(ins ssa.Instruction) EdgeMode {
	switch ins.(type) {
	case *ssa.Go:
		return ModeGo
	case *ssa.Defer:
		return ModeDefer
	}
	return ModeSync
}

func (cg *CallGraph) buildEdges() {
	p := cg.p
	for _, f := range p.ModFuncs {
		for _, b := range f.Blocks {
			for _, ins := range b.Instrs {
				c := callInstrCommon(ins)
				if c == nil {
					continue
				}
				mode := modeOf(ins)
				external := false
				if sc := c.StaticCallee(); sc != nil {
					if p.IsMod(sc) {
						cg.addEdge(&Edge{Caller: f, Site: ins, Callee: sc, Mode: mode})
					} else {
						external = true
					}
				} else if c.IsInvoke() {
					ts := cg.invokeTargets(c)
					for _, t := range ts {
						if p.IsMod(t) || t.Synthetic != "" {
							cg.addEdge(&Edge{Caller: f, Site: ins, Callee: t, Mode: mode})
						}
					}
					// interface may also be implemented outside the module (hooks): callbacks possible
					external = true
				} else if _, isB := c.Value.(*ssa.Builtin); !isB {
					n := 0
					for _, t := range cg.FuncsOf(c.Value) {
						if p.IsMod(t) {
							cg.addEdge(&Edge{Caller: f, Site: ins, Callee: t, Mode: mode})
							n++
						}
					}
					if n == 0 {
						cg.Unres[ins] = true
						external = true
					}
				}
				if external {
					// module function values handed to external code are invoked by it; the mode of
					// the callback is the mode of the call that hands it over (go f(cb) runs cb in
					// the new goroutine).
					for _, a := range c.Args {
						if !isFuncType(a.Type()) {
							continue
						}
						for _, t := range cg.FuncsOf(a) {
							if p.IsMod(t) {
								cg.addEdge(&Edge{Caller: f, Site: ins, Callee: t, Mode: mode, Callback: true})
							}
						}
					}
				}
			}
		}
	}
}

// Reach computes the set of functions reachable from roots over edges accepted by ok.
func (cg *CallGraph) Reach(roots []*ssa.Function, ok func(*Edge) bool) map[*ssa.Function]*Edge {
	seen := map[*ssa.Function]*Edge{}
	var stack []*ssa.Function
	for _, r := range roots {
		if _, dup := seen[r]; !dup {
			seen[r] = nil
			stack = append(stack, r)
		}
	}
	for len(stack) > 0 {
		f := stack[len(stack)-1]
		stack = stack[:len(stack)-1]
		for _, e := range cg.Out[f] {
			if ok != nil && !ok(e) {
				continue
			}
			if _, dup := seen[e.Callee]; !dup {
				seen[e.Callee] = e
				stack = append(stack, e.Callee)
			}
		}
	}
	return seen
}

// PathTo renders the call chain recorded by Reach from a root to f.
func (cg *CallGraph) PathTo(reach map[*ssa.Function]*Edge, f *ssa.Function) []string {
	var out []string
	for f != nil {
		out = append([]string{shortFuncName(f)}, out...)
		e := reach[f]
		if e == nil {
			break
		}
		f = e.Caller
	}
	return out
}

// CallersOf lists the call sites (edges) whose callee is f.
func (cg *CallGraph) CallersOf(f *ssa.Function) []*Edge { return cg.In[f] }

// CallSitesOfObj lists every call instruction in module code whose static callee / invoked
// interface method is obj (generic instances are matched through their origin).
func (p *Program) CallSitesOfObj(obj *types.Func, libOnly bool) []ssa.Instruction {
	var out []ssa.Instruction
	fs := p.ModFuncs
	if libOnly {
		fs = p.LibFuncs
	}
	for _, f := range fs {
		for _, b := range f.Blocks {
			for _, ins := range b.Instrs {
				if c := callInstrCommon(ins); c != nil {
					if o := calleeObj(c); o != nil && (o == obj || o.Origin() == obj) {
						out = append(out, ins)
					}
				}
			}
		}
	}
	return out
}

// ---- context-sensitive resolution of function-typed parameters -------------------------------------
//
// The 0-CFA above merges every closure ever passed to a higher-order helper (bucket.EachNode,
// table.forNodes, ...) into one parameter node, so reachability through such helpers would connect
// unrelated callers' callbacks. Env binds the function-typed parameters of the functions on the
// current call chain to the functions actually supplied by that chain; CalleesCtx resolves a call
// instruction under an Env and computes the callee's Env.

type Env map[*ssa.Parameter][]*ssa.Function

func (e Env) Key() string {
	if len(e) == 0 {
		return ""
	}
	var parts []string
	for p, fs := range e {
		s := p.Parent().String() + "." + p.Name() + "="
		for _, f := range fs {
			s += f.String() + ","
		}
		parts = append(parts, s)
	}
	sort.Strings(parts)
	out := ""
	for _, p := range parts {
		out += p + ";"
	}
	return out
}

type CtxEdge struct {
	*Edge
	Env Env
}

// funcParamOrigin: if v is (a copy of) a function-typed parameter of the current function or an
// enclosing one — possibly through a captured single-assignment cell — return that parameter.
func (cg *CallGraph) funcParamOrigin(v ssa.Value, ts *Terms) *ssa.Parameter {
	for i := 0; i < 10 && v != nil; i++ {
		switch x := v.(type) {
		case *ssa.Parameter:
			if isFuncType(x.Type()) {
				return x
			}
			return nil
		case *ssa.ChangeType:
			v = x.X
		case *ssa.UnOp:
			if x.Op.String() != "*" {
				return nil
			}
			switch a := x.X.(type) {
			case *ssa.Alloc:
				if ci := ts.cell(a); ci.single != nil {
					v = ci.single
				} else {
					return nil
				}
			case *ssa.FreeVar:
				b, ok := ts.fvBind[a]
				if !ok {
					return nil
				}
				if al, ok := b.(*ssa.Alloc); ok {
					if ci := ts.cell(al); ci.single != nil {
						v = ci.single
						continue
					}
					return nil
				}
				// nested capture: the binding is itself a free variable of the parent
				if fv2, ok := b.(*ssa.FreeVar); ok {
					b2, ok := ts.fvBind[fv2]
					if !ok {
						return nil
					}
					if al, ok := b2.(*ssa.Alloc); ok {
						if ci := ts.cell(al); ci.single != nil {
							v = ci.single
							continue
						}
					}
					return nil
				}
				return nil
			default:
				return nil
			}
		case *ssa.FreeVar:
			b, ok := ts.fvBind[x]
			if !ok {
				return nil
			}
			v = b
		default:
			return nil
		}
	}
	return nil
}

func (cg *CallGraph) resolveFuncsCtx(v ssa.Value, env Env, ts *Terms) []*ssa.Function {
	if p := cg.funcParamOrigin(v, ts); p != nil {
		if fs, ok := env[p]; ok {
			return fs
		}
	}
	return cg.FuncsOf(v)
}

func isAncestorOrSelf(anc, f *ssa.Function) bool {
	for f != nil {
		if f == anc {
			return true
		}
		f = f.Parent()
	}
	return false
}

// CalleesCtx resolves the callees of ins under env.
func (cg *CallGraph) CalleesCtx(ins ssa.Instruction, env Env, ts *Terms) []CtxEdge {
	edges := cg.SiteOut[ins]
	if len(edges) == 0 {
		return nil
	}
	c := callInstrCommon(ins)
	fn := ins.Parent()
	var restrict map[*ssa.Function]bool
	if c.StaticCallee() == nil && !c.IsInvoke() {
		if p := cg.funcParamOrigin(c.Value, ts); p != nil {
			if fs, ok := env[p]; ok {
				restrict = map[*ssa.Function]bool{}
				for _, f := range fs {
					restrict[f] = true
				}
			}
		}
	}
	var out []CtxEdge
	for _, e := range edges {
		if restrict != nil && !e.Callback && !restrict[e.Callee] {
			continue
		}
		ne := Env{}
		// closures nested in the current chain keep the bindings of their ancestors
		for p, fs := range env {
			if isAncestorOrSelf(p.Parent(), e.Callee) {
				ne[p] = fs
			}
		}
		if e.Callback {
			// the closure handed to external code: if it is itself one of our parameter-bound functions
			// nothing more to bind
			if restrictOK(e.Callee, c, cg, env, ts) {
				out = append(out, CtxEdge{e, ne})
			}
			continue
		}
		off := 0
		if c.IsInvoke() {
			off = 1
		}
		for i, a := range c.Args {
			pi := i + off
			if pi >= len(e.Callee.Params) {
				continue
			}
			prm := e.Callee.Params[pi]
			if !isFuncType(prm.Type()) {
				continue
			}
			fs := cg.resolveFuncsCtx(a, env, ts)
			if len(fs) > 0 {
				ne[prm] = fs
			}
		}
		_ = fn
		out = append(out, CtxEdge{e, ne})
	}
	return out
}

// restrictOK: for callback edges (function values passed to external code), honour env when the
// passed value is a bound parameter.
func restrictOK(callee *ssa.Function, c *ssa.CallCommon, cg *CallGraph, env Env, ts *Terms) bool {
	for _, a := range c.Args {
		if !isFuncType(a.Type()) {
			continue
		}
		if p := cg.funcParamOrigin(a, ts); p != nil {
			if fs, ok := env[p]; ok {
				for _, f := range fs {
					if f == callee {
						return true
					}
				}
				continue
			}
		}
		for _, f := range cg.FuncsOf(a) {
			if f == callee {
				return true
			}
		}
	}
	return false
}

// ReachCtx: functions reachable from roots, resolving function-typed parameters per call chain.
func (cg *CallGraph) ReachCtx(roots []*ssa.Function, ts *Terms, ok func(*Edge) bool) map[*ssa.Function]bool {
	type st struct {
		fn  *ssa.Function
		env Env
	}
	seen := map[string]bool{}
	out := map[*ssa.Function]bool{}
	var stack []st
	push := func(f *ssa.Function, env Env) {
		k := f.String() + "|" + env.Key()
		if seen[k] {
			return
		}
		seen[k] = true
		out[f] = true
		stack = append(stack, st{f, env})
	}
	for _, r := range roots {
		push(r, Env{})
	}
	for len(stack) > 0 {
		s := stack[len(stack)-1]
		stack = stack[:len(stack)-1]
		for _, b := range s.fn.Blocks {
			for _, ins := range b.Instrs {
				if callInstrCommon(ins) == nil {
					continue
				}
				for _, ce := range cg.CalleesCtx(ins, s.env, ts) {
					if ok != nil && !ok(ce.Edge) {
						continue
					}
					push(ce.Callee, ce.Env)
				}
			}
		}
	}
	return out
}
