package main

import (
	"fmt"
	"go/types"
	"strings"

	"golang.org/x/tools/go/ssa"
)

func init() {
	register(&Property{
		ID:    "C02",
		Title: "A finished lookup holds the K closest nodes that answered",
		Decided: "C02.1 the closest set has one initialiser (k-nearest New with the lookup's own target and K) and is otherwise only replaced by Push on itself; at every Push the pushed element's key and data are the very node/data on which NodeFilter and DataFilter returned true; the pointer handed out by Closest() is only read; " +
			"C02.2 every insertion is fed by the response it belongs to: node = *res.ResponseFrom under res.ResponseFrom ≠ nil, data = res.ClosestData, res the result of the one DoQuery call of that goroutine; " +
			"C02.3 the K-nearest order is oriented by XOR distance to the construction-time target, left operand first (shared with C18); " +
			"C02.4 Push inserts the element it was given, deletes only the iterator's last (farthest) element and only while Len > k, and returns only under ¬(Len > k); Farthest returns that same last element; Full ⇔ Len ≥ k; " +
			"C02.5 closest, unqueried, queried and outstanding are only touched with Operation.mu held; " +
			"C02.8 on every path of the query goroutine from the return of DoQuery to its end, a result with ResponseFrom ≠ nil is handed to the insertion routine (no early exit on cancellation, stop or error in between); C02.9 the result set never merges two different responders (order totality, C18.3); " +
			"C02.6/C02.7 a response is in the result set before its query stops counting as in flight, and 'stopped' is signalled only after the in-flight count reached zero, so the set read after Stopped is final. C02.13 a contact is skipped as already asked only when that very address was asked: full-address key, one encoding, grow-only test-and-set (shared with C04.3). C02.14 = C03.11 (no reported contact is lost between the reply and the frontier).",
		NotDecided: "that the retained elements are the K nearest (needs the metric laws of C18 and the sorted-map semantics of the immutable library), exactness on ideal networks, duplicate-ID behaviour, haveQuery's distance arithmetic.",
		Assume: []string{
			"github.com/benbjohnson/immutable SortedMap: Set inserts/replaces, Delete removes exactly the key, Iterator().Last() positions on the greatest key under the comparer",
			"Closest() is read by callers only after Stopped (its pointer is handed out without the lock by design)",
		},
		Rules: []*Rule{
			{ID: "C02.1", Doc: "single writer of the closest set; filters decide on the pushed element", Floor: 6, Run: c02r1},
			{ID: "C02.2", Doc: "only responders are inserted, with their own data", Floor: 3, Run: c02r2},
			{ID: "C02.3", Doc: "K-nearest comparator orientation", Floor: 2, Run: c02r3},
			{ID: "C02.4", Doc: "bounded trim from the far end", Floor: 6, Run: c02r4},
			{ID: "C02.5", Doc: "traversal state guarded by Operation.mu", Floor: 15, Run: c02r5},
			{ID: "C02.7", Doc: "the result set is final when the lookup reports stopped: stopped is signalled only after every in-flight query returned (shared with C03.4)", Floor: 5, Run: c03r4},
			{ID: "C02.8", Doc: "every response that comes back is offered to the result set, whatever else happened to the lookup meanwhile", Floor: 2, Run: c02r8},
			{ID: "C02.9", Doc: "distinct responders are distinct keys: the result set's order is total (shared with C18.3)", Floor: 4, Run: c18r3},
			{ID: "C02.10", Doc: "what the data filter judges is what the responder sent: the closest data is the reply's token only when one is present, nil otherwise (shared with C16.1)", Floor: 4, Run: c16r1},
			{ID: "C02.11", Doc: "the lookup keeps asking while a closer candidate may exist: the stall predicate (shared with C03.5)", Floor: 5, Run: c03r5},
			{ID: "C02.12", Doc: "no learned, filter-passing contact is kept from being asked: frontier refusals and removals enumerated (shared with C03.10)", Floor: 3, Run: c03r10},
			{ID: "C02.13", Doc: "a contact is skipped as already asked only when that very address (IP and port) was asked: the queried set is keyed by the full address string under one encoding, and only grows by test-and-set (shared with C04.3)", Floor: 3, Run: c04r3},
			{ID: "C02.14", Doc: "no reported contact is lost between the reply and the frontier (shared with C03.11): a dropped contact is never asked, so the result need not be the K closest", Floor: 5, Run: c03r11},
			{ID: "C02.6", Doc: "a response is registered in the result set before its query stops counting as in flight (shared with C03.2)", Floor: 5, Run: c03r2},
		},
	})
}

// pushSites: calls of k-nearest Push in library code.
func (w *World) pushSites(t *trav) []ssa.Instruction {
	return w.AllCallsTo(w.P.LibFuncs, t.push)
}

func c02r1(w *World, rr *RuleRun) {
	t := w.trav()
	// (a) writers of Operation.closest
	for _, ins := range w.FieldWrites(w.P.LibFuncs, t.closest) {
		st, ok := ins.(*ssa.Store)
		if !ok {
			rr.At(w, ins, "closest set written only by initialisation or Push on itself", false, "unexpected write form "+instrString(ins))
			continue
		}
		v := w.TS.Of(st.Val)
		switch {
		case isCall(v, t.knnNew):
			// initialiser: target and K of the same input
			okT := len(v.Args) == 2 && hasFieldAnywhere(v.Args[0], t.target)
			okK := len(v.Args) == 2 && hasFieldAnywhere(v.Args[1], t.k)
			fa, _ := st.Addr.(*ssa.FieldAddr)
			fresh := fa != nil && freshBase(fa)
			rr.At(w, ins, "closest set initialised on a fresh Operation with the lookup's target and K", okT && okK && fresh, "value "+trunc(v.String(), 200))
		case isCall(v, t.push):
			okRecv := len(v.Args) == 2 && isFieldTerm(v.Args[0], t.closest)
			rr.At(w, ins, "closest set replaced only by Push on itself", okRecv, "value "+trunc(v.String(), 200))
		default:
			rr.At(w, ins, "closest set written only by initialisation or Push on itself", false, "stored value "+trunc(v.String(), 200))
		}
	}
	// the unqueried frontier is ordered around the same target as the closest set
	for _, ins := range w.FieldWrites([]*ssa.Function{t.start}, t.unqueried) {
		if st, ok := ins.(*ssa.Store); ok {
			v := w.TS.Of(st.Val)
			rr.At(w, ins, "frontier ordered by distance to the lookup's target", v.Op == OpCall && len(v.Args) == 1 && hasFieldAnywhere(v.Args[0], t.target), "value "+trunc(v.String(), 200))
		}
	}
	// (b) every Push: filters decided on the pushed element
	for _, site := range w.pushSites(t) {
		c := callInstrCommon(site)
		if len(c.Args) != 2 {
			continue
		}
		lit := allocOfLoad(c.Args[1])
		if lit == nil {
			rr.At(w, site, "Push element is a literal whose key and data can be identified", false, "element operand "+w.TS.Of(c.Args[1]).String())
			continue
		}
		fs := allocFieldStores(lit)
		keyV, dataV := fs["Key"], fs["Data"]
		if keyV == nil || dataV == nil {
			rr.At(w, site, "Push element is a literal whose key and data can be identified", false, fmt.Sprintf("fields set: %v", len(fs)))
			continue
		}
		w.Require(rr, site, "Push only after NodeFilter(node)=true ∧ DataFilter(data)=true on the pushed node and data", func(alt *Alt) (bool, string) {
			key := w.FE.Resolve(alt, keyV)
			data := w.FE.Resolve(alt, dataV)
			// key = N.ToNodeInfoAddrPort()
			if key.Op != OpCall || !strings.HasSuffix(key.Name, "ToNodeInfoAddrPort") || len(key.Args) != 1 {
				return false, "key is not node.ToNodeInfoAddrPort(): " + key.String()
			}
			node := key.Args[0]
			nodeOK, dataOK := false, false
			why := ""
			for k, ft := range alt.terms {
				if k[0] != 'b' || !alt.facts[k] {
					continue
				}
				if args, ok := dynThrough(ft, t.nodeFilter); ok && len(args) == 1 {
					if w.derivedFromNode(site.Parent(), args[0], node) {
						nodeOK = true
					} else {
						why = "NodeFilter was evaluated on " + args[0].String() + ", which is not derived from the pushed node " + node.String()
					}
				}
				if args, ok := dynThrough(ft, t.dataFilter); ok && len(args) == 1 && termEq(args[0], data) {
					dataOK = true
				}
			}
			if !nodeOK {
				if why == "" {
					why = "no NodeFilter(...)=true fact"
				}
				return false, why
			}
			if !dataOK {
				return false, "no DataFilter(data)=true fact for the pushed data " + data.String()
			}
			return true, "NodeFilter(FromNodeInfo(node)) ∧ DataFilter(data)"
		})
	}
	// (c) the pointer handed out by Closest() is only read
	if cl := w.P.FuncOpt("(*traversal.Operation).Closest"); cl != nil {
		for _, site := range w.AllCallsTo(w.P.LibFuncs, cl) {
			v, ok := site.(ssa.Value)
			if !ok || v.Referrers() == nil {
				continue
			}
			okUse := true
			det := ""
			for _, r := range *v.Referrers() {
				switch x := r.(type) {
				case *ssa.UnOp, *ssa.DebugRef:
				case ssa.CallInstruction:
					o := calleeObj(x.Common())
					if o == nil || !(o.Name() == "Range" || o.Name() == "Len" || o.Name() == "Farthest" || o.Name() == "Full") {
						okUse = false
						det = "passed to " + instrString(x.(ssa.Instruction))
					}
				default:
					okUse = false
					det = "used by " + instrString(r)
				}
			}
			rr.At(w, site, "Closest() result is only read (Range/Len/Farthest/Full)", okUse, det)
		}
	}
}

// derivedFromNode: x (the NodeFilter argument) is built from the pushed node: it mentions node, or it
// is a local cell whose only initialiser is FromNodeInfo(&cell, node).
func (w *World) derivedFromNode(fn *ssa.Function, x, node *Term) bool {
	if x.Contains(node) {
		return true
	}
	if x.Op == OpDeref && x.Args[0].Op == OpLocal {
		al, _ := x.Args[0].Obj.(*ssa.Alloc)
		if al == nil || al.Referrers() == nil {
			return false
		}
		// every write that initialises the cell must be computed from the node: a FromNodeInfo(&cell, node)
		// call, a whole-value store of a term mentioning node, or field stores whose values mention node
		inits := 0
		for _, r := range *al.Referrers() {
			switch u := r.(type) {
			case *ssa.UnOp, *ssa.DebugRef:
			case *ssa.Store:
				if u.Addr != ssa.Value(al) {
					return false
				}
				if _, isConst := u.Val.(*ssa.Const); isConst {
					continue // zero initialisation
				}
				if !w.TS.Of(u.Val).Contains(node) {
					return false
				}
				inits++
			case *ssa.FieldAddr:
				if u.Referrers() == nil {
					continue
				}
				for _, r2 := range *u.Referrers() {
					switch v := r2.(type) {
					case *ssa.Store:
						if v.Addr != ssa.Value(u) {
							return false
						}
						if _, isConst := v.Val.(*ssa.Const); isConst {
							continue
						}
						if !w.TS.Of(v.Val).Contains(node) {
							return false
						}
						inits++
					case *ssa.UnOp, *ssa.DebugRef:
					default:
						return false
					}
				}
			case ssa.CallInstruction:
				c := u.Common()
				o := calleeObj(c)
				if o != nil && o.Name() == "FromNodeInfo" && len(c.Args) == 2 && c.Args[0] == ssa.Value(al) && termEq(w.TS.Of(c.Args[1]), node) {
					inits++
				} else {
					return false
				}
			default:
				return false
			}
		}
		return inits >= 1
	}
	return false
}

// c02r2: the node/data pushed are those of the response the goroutine received.
func c02r2(w *World, rr *RuleRun) {
	t := w.trav()
	resp := w.P.Field("traversal", "QueryResult", "ResponseFrom")
	cdata := w.P.Field("traversal", "QueryResult", "ClosestData")
	checked := 0
	check := func(site ssa.Instruction, nodeV, dataV ssa.Value) {
		checked++
		w.Require(rr, site, "inserted node is *res.ResponseFrom (non-nil) and data is res.ClosestData of the same DoQuery result", func(alt *Alt) (bool, string) {
			node := w.FE.Resolve(alt, nodeV)
			data := w.FE.Resolve(alt, dataV)
			if node.Op != OpDeref || !isFieldTerm(node.Args[0], resp) {
				return false, "node operand is not *res.ResponseFrom: " + trunc(node.String(), 160)
			}
			res := node.Args[0].Args[0]
			if _, ok := dynThrough(res, t.doQuery); !ok {
				return false, "res is not the result of the DoQuery call: " + trunc(res.String(), 160)
			}
			if !isFieldTerm(data, cdata) || !termEq(data.Args[0], res) {
				return false, "data operand is not ClosestData of the same result: " + trunc(data.String(), 160)
			}
			if !alt.HasKey("n", node.Args[0], true) {
				return false, "no res.ResponseFrom ≠ nil fact on this path"
			}
			return true, "res.ResponseFrom ≠ nil; node, data from one DoQuery result"
		})
	}
	for _, site := range w.pushSites(t) {
		c := callInstrCommon(site)
		lit := allocOfLoad(c.Args[1])
		if lit == nil {
			continue
		}
		fs := allocFieldStores(lit)
		if fs["Key"] == nil || fs["Data"] == nil {
			continue
		}
		fn := site.Parent()
		// node operand of ToNodeInfoAddrPort
		var nodeV ssa.Value
		if kc, ok := fs["Key"].(*ssa.Call); ok && len(kc.Call.Args) == 1 {
			nodeV = kc.Call.Args[0]
		}
		if nodeV == nil {
			continue
		}
		np, nIsParam := w.paramOf(nodeV)
		dp, dIsParam := w.paramOf(fs["Data"])
		if nIsParam && dIsParam && np.Parent() == fn && dp.Parent() == fn {
			// inserted values are parameters: check every caller
			ni, di := paramIndex(fn, np), paramIndex(fn, dp)
			callers := 0
			for _, e := range w.CG.CallersOf(fn) {
				if e.Callback || !w.P.IsLib(e.Caller) {
					continue
				}
				cc := callInstrCommon(e.Site)
				off := 0
				if cc.IsInvoke() {
					off = 1
				}
				if ni-off < 0 || di-off < 0 || ni-off >= len(cc.Args) || di-off >= len(cc.Args) {
					continue
				}
				callers++
				check(e.Site, cc.Args[ni-off], cc.Args[di-off])
			}
			rr.Oblige(shortFuncName(fn), "insertion helper has exactly one caller", w.P.Pos(fn.Pos()), callers == 1, fmt.Sprintf("%d callers", callers))
		} else {
			check(site, nodeV, fs["Data"])
		}
	}
	// DoQuery is invoked once per goroutine
	n := 0
	eachInstr(w.P.LibFuncs, func(fn *ssa.Function, ins ssa.Instruction) {
		if c, ok := ins.(*ssa.Call); ok {
			if _, ok := dynThrough(w.TS.Of(c), t.doQuery); ok {
				n++
			}
		}
	})
	rr.Oblige("traversal", "DoQuery has one call site", "-", n == 1, fmt.Sprintf("%d call sites", n))
	_ = checked
}

func paramIndex(fn *ssa.Function, p *ssa.Parameter) int {
	for i, q := range fn.Params {
		if q == p {
			return i
		}
	}
	return -1
}

// c02r3: orientation of the K-nearest comparator (engine G).
func c02r3(w *World, rr *RuleRun) {
	t := w.trav()
	w.checkKNearestComparator(rr, t)
	// the distance comparison itself: int160.Cmp is the big-endian byte order (shared with C18.2)
	w.checkInt160Cmp(rr)
}

// c02r4: Push / Farthest / Full shapes.
func c02r4(w *World, rr *RuleRun) {
	t := w.trav()
	push := t.push
	innerF := w.P.Field("k-nearest-nodes", "Type", "inner")
	kF := w.P.Field("k-nearest-nodes", "Type", "k")
	elem := w.ParamTerm(push, "elem")
	isMapCall := func(ins ssa.Instruction, name string) *ssa.CallCommon {
		c := callInstrCommon(ins)
		if c == nil || c.IsInvoke() {
			return nil
		}
		o := calleeObj(c)
		if o == nil || o.Name() != name || o.Pkg() == nil || !strings.HasSuffix(o.Pkg().Path(), "benbjohnson/immutable") {
			return nil
		}
		return c
	}
	overCap := func(alt *Alt, sign bool) bool {
		// fact: (k < Len(inner)) has truth value sign
		return alt.Has("b", sign, func(x *Term) bool {
			if x.Op != OpBin || x.Name != "<" {
				return false
			}
			l, r := x.Args[0], x.Args[1]
			return isFieldTerm(l, kF) && r.Op == OpCall && strings.HasSuffix(r.Name, ".Len") && len(r.Args) == 1 && isFieldTerm(r.Args[0], innerF)
		})
	}
	// lastKey: v is the key result of Next() on an iterator of inner on which Last() was called just before
	depthLast := 0
	var lastKeyFn func(fn *ssa.Function, v ssa.Value) (bool, string)
	lastKey := func(fn *ssa.Function, v ssa.Value) (bool, string) {
		ex, ok := v.(*ssa.Extract)
		if !ok || ex.Index != 0 {
			return false, "deleted key is not result 0 of an iterator Next()"
		}
		nx, ok := ex.Tuple.(*ssa.Call)
		if ok && isMapCall(nx, "Next") == nil {
			// a module helper that returns the iterator-last entry (e.g. Type.last())
			if g := nx.Call.StaticCallee(); g != nil && w.P.IsLib(g) && g != fn && depthLast < 2 {
				depthLast++
				defer func() { depthLast-- }()
				n := 0
				for _, b := range g.Blocks {
					for _, ins := range b.Instrs {
						if ret, isRet := ins.(*ssa.Return); isRet && len(ret.Results) > 0 {
							n++
							if okH, why := lastKeyFn(g, ret.Results[0]); !okH {
								return false, "helper " + shortFuncName(g) + ": " + why
							}
						}
					}
				}
				if n > 0 {
					return true, "key = " + shortFuncName(g) + "() = Iterator().Last(); Next()"
				}
			}
		}
		if !ok || isMapCall(nx, "Next") == nil {
			return false, "deleted key is not produced by Next()"
		}
		it := nx.Call.Args[0]
		itc, ok := it.(*ssa.Call)
		if !ok || isMapCall(itc, "Iterator") == nil || fieldOfAddr(itc.Call.Args[0]) != innerF {
			return false, "iterator is not over the set itself"
		}
		// between Iterator() and Next(): exactly one positioning call, Last()
		last := false
		for _, r := range *it.Referrers() {
			ci, ok := r.(ssa.CallInstruction)
			if !ok || ci == ssa.CallInstruction(nx) {
				continue
			}
			o := calleeObj(ci.Common())
			if o == nil {
				return false, "iterator escapes"
			}
			switch o.Name() {
			case "Last":
				if ci.Block() == nx.Block() && instrIndex(ci) < instrIndex(nx) {
					last = true
				}
			case "Next":
				if !(ci.Block() == nx.Block() && instrIndex(ci) > instrIndex(nx)) {
					return false, "another Next() may run before this one"
				}
			default:
				return false, "iterator repositioned by " + o.Name()
			}
		}
		if !last {
			return false, "iterator not positioned with Last() before Next()"
		}
		return true, "key = Iterator().Last(); Next()"
	}
	lastKeyFn = lastKey
	nSet, nDel := 0, 0
	eachInstr([]*ssa.Function{push}, func(fn *ssa.Function, ins ssa.Instruction) {
		if c := isMapCall(ins, "Set"); c != nil && len(c.Args) == 3 {
			nSet++
			k, d := w.TS.Of(c.Args[1]), w.TS.Of(c.Args[2])
			ok := k.Op == OpField && k.Name == "Key" && termEq(k.Args[0], elem) && d.Op == OpField && d.Name == "Data" && termEq(d.Args[0], elem) && fieldOfAddr(c.Args[0]) == innerF
			rr.At(w, ins, "Push inserts the element it was given (Set(elem.Key, elem.Data) on the set itself)", ok, "Set("+k.String()+", "+d.String()+")")
			blk := blockInCycle(ins.Block())
			rr.At(w, ins, "the insertion is not inside the trim loop", !blk, "")
		}
		if c := isMapCall(ins, "Delete"); c != nil && len(c.Args) == 2 {
			nDel++
			okKey, why := lastKey(fn, c.Args[1])
			rr.At(w, ins, "Push deletes only the farthest (iterator-last) element", okKey && fieldOfAddr(c.Args[0]) == innerF, why)
			w.Require(rr, ins, "Push deletes only while Len > k", func(alt *Alt) (bool, string) {
				if overCap(alt, true) {
					return true, "k < Len(inner)"
				}
				return false, "no (k < Len) fact: an element may be evicted from a set that is not over capacity"
			})
		}
	})
	if nSet != 1 {
		rr.Oblige(shortFuncName(push), "Push inserts exactly once", w.P.Pos(push.Pos()), false, fmt.Sprintf("%d Set calls", nSet))
	}
	ff := w.FE.analysisFor(push)
	for _, ex := range ff.exits {
		ok := len(ex.st) > 0
		for _, alt := range ex.st {
			if !overCap(alt, false) {
				ok = false
			}
		}
		rr.At(w, ex.ret, "Push returns only under ¬(Len > k)", ok, "exit facts: "+trunc(ex.st.String(), 300))
		okSet := PrecededBy(ex.ret, func(i ssa.Instruction) bool { return isMapCall(i, "Set") != nil })
		rr.At(w, ex.ret, "every return of Push is preceded by the insertion", okSet, "")
	}
	// Farthest: returns the iterator-last element
	far := t.farthest
	for _, b := range far.Blocks {
		for _, ins := range b.Instrs {
			ret, ok := ins.(*ssa.Return)
			if !ok || len(ret.Results) != 1 {
				continue
			}
			// the returned Elem's Key field
			var keyV ssa.Value
			if al := allocOfLoad(ret.Results[0]); al != nil {
				keyV = allocFieldStores(al)["Key"]
			}
			if keyV == nil {
				rr.At(w, ins, "Farthest returns the iterator-last element", false, "cannot identify the returned key")
				continue
			}
			okKey, why := lastKey(far, keyV)
			rr.At(w, ins, "Farthest returns the iterator-last element", okKey, why)
		}
	}
	// Full ⇔ Len ≥ k
	for _, class := range []string{"true", "false"} {
		sum := w.FE.Summary(t.full, 0, class, 0)
		ok := len(sum) > 0
		for _, alt := range sum {
			// true: ¬(Len < k) ; false: (Len < k)
			if !alt.Has("b", class == "false", func(x *Term) bool {
				return x.Op == OpBin && x.Name == "<" && isFieldTerm(x.Args[1], kF) && x.Args[0].Op == OpCall && strings.HasSuffix(x.Args[0].Name, "Len")
			}) {
				ok = false
			}
		}
		rr.Oblige(shortFuncName(t.full), "Full()="+class+" ⇔ Len ≥ k is "+class, w.P.Pos(t.full.Pos()), ok, class+"-class: "+sum.String())
	}
	_ = types.Typ
}

func c02r5(w *World, rr *RuleRun) {
	t := w.trav()
	closestFn := w.P.FuncOpt("(*traversal.Operation).Closest")
	for _, fv := range []*types.Var{t.closest, t.unqueried, t.queried, t.outstanding} {
		w.GuardedBy(rr, w.P.LibFuncs, fv, t.mu, "Operation", func(a fieldAccess) (bool, string) {
			if a.Kind == "address returned" && a.Ins.Parent() == closestFn {
				return true, "Closest() hands out the address; callers read it after Stopped (assumption; C02.1 checks the callers only read)"
			}
			return false, ""
		})
	}
}

// paramOf: v is a parameter, possibly read back from the single-assignment cell go/ssa spills an
// address-taken parameter into.
func (w *World) paramOf(v ssa.Value) (*ssa.Parameter, bool) {
	if p, ok := v.(*ssa.Parameter); ok {
		return p, true
	}
	t := w.TS.Of(v)
	if t.Op == OpParam {
		if p, ok := t.Obj.(*ssa.Parameter); ok {
			return p, true
		}
	}
	return nil, false
}

// c02r8: completeness of the result set. "No responder that passed the filters but is absent is
// strictly closer" needs every responder to be offered. In the goroutine that runs DoQuery:
// (1) every path from the return of DoQuery to the end of the goroutine passes the test
// "ResponseFrom ≠ nil"; (2) every path from the non-nil branch of that test to the end passes a call
// of the insertion routine (directly, or in a closure invoked on the spot that always calls it).
func c02r8(w *World, rr *RuleRun) {
	t := w.trav()
	resp := w.P.Field("traversal", "QueryResult", "ResponseFrom")
	isOffer := func(f *ssa.Function) bool { _, ok := w.FE.extraTracked[f]; return ok }
	var offers func(ins ssa.Instruction, depth int) bool
	offers = func(ins ssa.Instruction, depth int) bool {
		if callInstrCommon(ins) == nil {
			return false
		}
		if _, isGo := ins.(*ssa.Go); isGo {
			return false
		}
		for _, e := range w.CG.SiteOut[ins] {
			if isOffer(e.Callee) {
				return true
			}
			if depth < 2 && w.P.IsLib(e.Callee) && len(e.Callee.Blocks) > 0 && len(w.CG.SiteOut[ins]) == 1 {
				first := e.Callee.Blocks[0].Instrs[0]
				if ok, _ := MustPass(first, func(i ssa.Instruction) bool { return offers(i, depth+1) }); ok || offers(first, depth+1) {
					return true
				}
			}
		}
		return false
	}
	n := 0
	for _, dq := range w.doQuerySites(t) {
		n++
		// the instruction whose value is the query result in the goroutine's own function: the
		// DoQuery call itself, or the call of an extracted helper that returns DoQuery's result
		var site ssa.Instruction = dq
		resT := w.TS.Of(dq)
		for depth := 0; depth < 3; depth++ {
			f := site.Parent()
			if f.Parent() != nil || f.Object() == nil || f.Object().Exported() {
				break
			}
			var es []*Edge
			for _, e := range w.CG.CallersOf(f) {
				if !e.Callback {
					es = append(es, e)
				}
			}
			if len(es) != 1 || es[0].Mode != ModeSync {
				break
			}
			returnsRes := true
			eachInstr([]*ssa.Function{f}, func(_ *ssa.Function, ins ssa.Instruction) {
				if r, ok := ins.(*ssa.Return); ok {
					if len(r.Results) != 1 || !termEq(w.TS.Of(r.Results[0]), resT) {
						returnsRes = false
					}
				}
			})
			cv, isVal := es[0].Site.(ssa.Value)
			if !returnsRes || !isVal {
				break
			}
			site, resT = es[0].Site, w.TS.Of(cv)
		}
		// the nil tests of res.ResponseFrom
		isTest := func(ins ssa.Instruction) bool {
			iff, ok := ins.(*ssa.If)
			if !ok {
				return false
			}
			for _, at := range w.FE.decompose(w.TS.Of(iff.Cond), true) {
				if at.term != nil && strings.HasPrefix(at.key, "n:") && isFieldTerm(at.term, resp) && termEq(at.term.Args[0], resT) {
					return true
				}
			}
			return false
		}
		ok1, wit := MustPass(site, isTest)
		det := ""
		if wit != nil {
			det = "exit at " + w.P.InstrPos(wit) + " is reachable from the DoQuery call without testing res.ResponseFrom"
		}
		rr.At(w, site, "no way out of the query goroutine between the return of DoQuery and the test of res.ResponseFrom", ok1, det)
		// non-nil branches
		nT := 0
		eachInstr([]*ssa.Function{site.Parent()}, func(_ *ssa.Function, ins ssa.Instruction) {
			if !isTest(ins) {
				return
			}
			iff := ins.(*ssa.If)
			nonNilOnTrue := false
			for _, at := range w.FE.decompose(w.TS.Of(iff.Cond), true) {
				if strings.HasPrefix(at.key, "n:") && at.sign {
					nonNilOnTrue = true
				}
			}
			succ := iff.Block().Succs[1]
			if nonNilOnTrue {
				succ = iff.Block().Succs[0]
			}
			if len(succ.Instrs) == 0 {
				return
			}
			nT++
			first := succ.Instrs[0]
			ok2, wit2 := MustPass(first, func(i ssa.Instruction) bool { return offers(i, 0) })
			if offers(first, 0) {
				ok2 = true
			}
			d2 := ""
			if !ok2 && wit2 != nil {
				d2 = "the goroutine can end at " + w.P.InstrPos(wit2) + " with a response in hand that was never offered"
			}
			rr.At(w, ins, "a response (ResponseFrom ≠ nil) is always offered to the result set", ok2, d2)
		})
		if nT == 0 {
			rr.At(w, site, "a response (ResponseFrom ≠ nil) is always offered to the result set", false, "no test of res.ResponseFrom found after the DoQuery call")
		}
	}
	if n == 0 {
		rr.Oblige("traversal", "a response (ResponseFrom ≠ nil) is always offered to the result set", "-", false, "no DoQuery site")
	}
}
