package main

import (
	"fmt"
	"go/types"
	"strings"

	"golang.org/x/tools/go/ssa"
)

func init() {
	register(&Property{
		ID:    "C11",
		Title: "Announced peers come back from get_peers, and only those, per BEP 5/32",
		Decided: "C11.1 the endpoint stored on announce is (source IP, port) with port = the UDP source port when implied_port is set (it wins), else the explicit port; the same values go to the announce hook; " +
			"C11.2 the store is written and read under the same args.info_hash; C11.3 values is assigned only from the BEP 32 filter applied to the store's answer with the query's want list and source IP, and the filter appends an entry only under (wants-v4 ∧ 4-byte form) ∨ (wants-v6 ∧ 16-byte form), and the krpc encoders keep that form (no value-receiver Marshal* method assigns to its receiver, NodeAddr's IP bytes go out verbatim; shared with C15.5); " +
			"C11.4 a get_peers reply carries a token whenever a peer store is configured (shared with C10.4); C11.5 the bundled store's index is only touched under its lock, AddPeer stores the given endpoint under the given infohash keyed by its IP, GetPeers returns only entries of its own infohash, and a missing per-infohash map (or the index) is created in the same critical section that found it missing; " +
			"C11.6 on the accepted-announce path the acknowledgement is preceded by PeerStore.AddPeer unless no store is configured, whatever other hooks are set; filterPeers returns each kept entry in the address form of the family it was kept for; " +
			"C11.7 the address family of returned nodes follows the explicit want list, else the query's family (shared with C09.6). C11.8 serving a lookup does not rewrite what the store keeps: the BEP 32 filter writes into the slice it is given only if no bundled store hands out a slice it retains (conjunction of two sites).",
		NotDecided: "replacement semantics over histories, 'only those' over time, asynchronous visibility of the go AddPeer.",
		Rules: []*Rule{
			{ID: "C11.1", Doc: "announced endpoint construction", Floor: 2, Run: c11r1},
			{ID: "C11.2", Doc: "same key in and out", Floor: 2, Run: c11r2},
			{ID: "C11.3", Doc: "values only through the BEP 32 filter", Floor: 2, Run: c11r3},
			{ID: "C11.4", Doc: "a get_peers reply carries a token whenever a peer store is configured (shared with C10.4)", Floor: 2, Run: c10r4},
			{ID: "C11.5", Doc: "bundled in-memory store", Floor: 6, Run: c11r5},
			{ID: "C11.8", Doc: "serving a lookup does not rewrite what the store keeps: the BEP 32 filter does not write into the slice it is given unless every bundled store hands out a slice of the caller's own (not retained, not loaded from the store's state)", Floor: 2, Run: c11r8},
			{ID: "C11.6", Doc: "an accepted announce reaches the peer store whenever one is configured", Floor: 1, Run: c11r6},
			{ID: "C11.7", Doc: "family selection: explicit want, else the query's address family (shared with C09.6)", Floor: 2, Run: c09r6},
		},
	})
}

func peerStoreMethod(w *World, name string) *types.Func {
	it := w.P.Pkg("peer-store").Types.Scope().Lookup("Interface").Type().Underlying().(*types.Interface)
	for i := 0; i < it.NumMethods(); i++ {
		if it.Method(i).Name() == name {
			return it.Method(i)
		}
	}
	broken("peer_store.Interface has no method %s", name)
	return nil
}

func c11r1(w *World, rr *RuleRun) {
	h := w.handler()
	addPeer := peerStoreMethod(w, "AddPeer")
	argsPort := w.P.Field("krpc", "MsgArgs", "Port")
	argsImplied := w.P.Field("krpc", "MsgArgs", "ImpliedPort")
	naIP := w.P.Field("krpc", "NodeAddr", "IP")
	naPort := w.P.Field("krpc", "NodeAddr", "Port")
	onAnnounce := w.P.Field("", "ServerConfig", "OnAnnouncePeer")
	isSrc := func(t *Term, m string) bool {
		return t.Op == OpCall && strings.HasSuffix(t.Name, "."+m) && len(t.Args) == 1 && termEq(t.Args[0], h.source)
	}
	portOK := func(alt *Alt, pt *Term) (bool, string) {
		implied := alt.Has("b", true, func(t *Term) bool { return t.Op == OpField && t.Obj == argsImplied })
		notImplied := alt.Has("b", false, func(t *Term) bool { return t.Op == OpField && t.Obj == argsImplied })
		hasPort := alt.Has("n", true, func(t *Term) bool { return t.Op == OpField && t.Obj == argsPort })
		switch {
		case implied:
			if isSrc(pt, "Port") {
				return true, "implied_port ⇒ source.Port()"
			}
			return false, "implied_port set but port is " + pt.String()
		case notImplied && hasPort:
			if pt.Op == OpDeref && pt.Args[0].Op == OpField && pt.Args[0].Obj == argsPort {
				return true, "explicit *args.port"
			}
			return false, "explicit port given but port is " + pt.String()
		case notImplied && !hasPort:
			if pt.IsConst("0") {
				return true, "no port derivable ⇒ 0"
			}
			return false, "no port given but port is " + pt.String()
		}
		return false, "implied_port undetermined on this path"
	}
	n := 0
	eachInstr(w.RegionOf(h.fn), func(_ *ssa.Function, ins ssa.Instruction) {
		c := callInstrCommon(ins)
		if c == nil {
			return
		}
		if c.IsInvoke() && c.Method == addPeer {
			n++
			na := c.Args[1]
			w.Require(rr, ins, "stored endpoint is (source.IP(), implied ? source.Port() : *args.port)", func(alt *Alt) (bool, string) {
				nt := w.FE.Resolve(alt, na)
				ipb, ok1 := alt.bind[FieldTerm(nt, naIP).String()]
				pb, ok2 := alt.bind[FieldTerm(nt, naPort).String()]
				if !ok1 || !isSrc(ipb, "IP") {
					return false, fmt.Sprintf("IP ← %v", ipb)
				}
				if !ok2 {
					// a constant store leaves no binding: look for the zero fact
					return false, "Port not assigned from a traceable value"
				}
				return portOK(alt, pb)
			})
		}
		if c.StaticCallee() == nil && !c.IsInvoke() {
			t := w.TS.Of(c.Value)
			if t.Op == OpField && t.Obj == onAnnounce && len(c.Args) == 4 {
				n++
				w.Require(rr, ins, "announce hook gets (source.IP(), same port)", func(alt *Alt) (bool, string) {
					ip := w.FE.Resolve(alt, c.Args[1])
					if !isSrc(ip, "IP") {
						return false, "ip ← " + ip.String()
					}
					return portOK(alt, w.FE.Resolve(alt, c.Args[2]))
				})
			}
		}
	})
	if n < 2 {
		rr.Oblige(shortFuncName(h.fn), "announce side-effect sites found", w.P.Pos(h.fn.Pos()), false, fmt.Sprintf("%d", n))
	}
}

func c11r2(w *World, rr *RuleRun) {
	h := w.handler()
	argsIH := w.P.Field("krpc", "MsgArgs", "InfoHash")
	for _, name := range []string{"AddPeer", "GetPeers"} {
		m := peerStoreMethod(w, name)
		n := 0
		eachInstr(w.RegionOf(h.fn), func(_ *ssa.Function, ins ssa.Instruction) {
			c := callInstrCommon(ins)
			if c == nil || !c.IsInvoke() || c.Method != m {
				return
			}
			n++
			t := w.TS.Of(c.Args[0])
			base, ok := fieldChain(t, h.msgA, argsIH)
			rr.At(w, ins, name+" is keyed by args.info_hash", ok && termEq(base, h.m), "key: "+t.String())
		})
		if n == 0 {
			rr.Oblige(shortFuncName(h.fn), name+" call present in the handler", w.P.Pos(h.fn.Pos()), false, "")
		}
	}
	// the peer store is reached only from the handler
	for _, name := range []string{"AddPeer", "GetPeers"} {
		m := peerStoreMethod(w, name)
		for _, site := range w.AllCallsTo(w.P.LibFuncs, m) {
			if callInstrCommon(site).IsInvoke() {
				rr.At(w, site, "configured peer store used only by the query handler", w.withinUp(site.Parent(), h.fn), "in "+shortFuncName(site.Parent()))
			}
		}
	}
}

func c11r3(w *World, rr *RuleRun) {
	h := w.handler()
	values := w.P.Field("krpc", "Return", "Values")
	fp := w.P.Func("filterPeers")
	argsWant := w.P.Field("krpc", "MsgArgs", "Want")
	getPeers := peerStoreMethod(w, "GetPeers")
	ws := w.FieldWrites(w.P.LibFuncs, values)
	if len(ws) == 0 {
		rr.Oblige("(library)", "Return.Values is assigned", "-", false, "no store")
	}
	for _, st := range ws {
		s, ok := st.(*ssa.Store)
		if !ok {
			rr.At(w, st, "Return.Values assigned only from filterPeers(...)", false, "non-store write")
			continue
		}
		v := w.TS.Of(s.Val)
		good := isCall(v, fp) && len(v.Args) == 3
		det := "value: " + v.String()
		if good {
			a0, a1, a2 := v.Args[0], v.Args[1], v.Args[2]
			good = a0.Op == OpCall && strings.HasSuffix(a0.Name, ".IP") && termEq(a0.Args[0], h.source) &&
				a1.Op == OpField && a1.Obj == argsWant && isCall(a2, getPeers)
		}
		rr.At(w, st, "Return.Values assigned only from filterPeers(source.IP(), args.want, store.GetPeers(ih))", good && w.withinUp(st.Parent(), h.fn), det)
	}
	// the form chosen per family survives encoding
	w.checkEncodersVerbatim(rr, w.krpcMarshalRoots())
	// inside filterPeers: each append is family-gated
	srn := w.P.Func("shouldReturnNodes")
	srn6 := w.P.Func("shouldReturnNodes6")
	wants := w.ParamTerm(fp, "queryWants")
	srcIP := w.ParamTerm(fp, "querySourceIp")
	gate := func(alt *Alt, f *ssa.Function) bool {
		return alt.Has("b", true, func(t *Term) bool {
			return isCall(t, f) && len(t.Args) == 2 && termEq(t.Args[0], wants) && termEq(t.Args[1], srcIP)
		})
	}
	n := 0
	eachInstr(append([]*ssa.Function{fp}, fp.AnonFuncs...), func(_ *ssa.Function, ins ssa.Instruction) {
		c := callInstrCommon(ins)
		if c == nil {
			return
		}
		bi, ok := c.Value.(*ssa.Builtin)
		if !ok || bi.Name() != "append" {
			return
		}
		n++
		w.Require(rr, ins, "peer appended only under (wants-v4 ∧ 4-byte form) ∨ (wants-v6 ∧ 16-byte form)", func(alt *Alt) (bool, string) {
			has := func(sign bool, pred func(*Term) bool) bool { return alt.Has("b", sign, pred) }
			len4 := has(true, func(t *Term) bool {
				return t.Op == OpBin && t.Name == "==" && (t.Args[0].IsConst("4") || t.Args[1].IsConst("4")) && strings.Contains(t.String(), "len(")
			})
			len16 := has(true, func(t *Term) bool {
				return t.Op == OpBin && t.Name == "==" && (t.Args[0].IsConst("16") || t.Args[1].IsConst("16")) && strings.Contains(t.String(), "len(")
			})
			as4 := alt.Has("n", true, func(t *Term) bool { return t.Op == OpCall && strings.HasSuffix(t.Name, ".To4") })
			as16 := alt.Has("n", true, func(t *Term) bool { return t.Op == OpCall && strings.HasSuffix(t.Name, ".To16") })
			if gate(alt, srn) && (len4 || as4) {
				return true, "wants v4 ∧ 4-byte form"
			}
			if gate(alt, srn6) && (len16 || as16) {
				return true, "wants v6 ∧ 16-byte form"
			}
			return false, fmt.Sprintf("v4 gate=%v len4=%v as4=%v; v6 gate=%v len16=%v as16=%v", gate(alt, srn), len4, as4, gate(alt, srn6), len16, as16)
		})
	})
	if n == 0 {
		rr.Oblige(shortFuncName(fp), "filterPeers appends entries", w.P.Pos(fp.Pos()), false, "no append")
	}
	// the form selected for an entry matches the family it is retained for (BEP 32 sizes: 6 / 18 bytes)
	nSel := 0
	for _, cl := range append(allAnon(fp), w.Region[fp]...) {
		if cl.Signature.Results().Len() != 2 || !isBoolType(cl.Signature.Results().At(1).Type()) || len(cl.Params) < 1 {
			continue
		}
		if relTypeString(cl.Params[0].Type()) != "net.IP" {
			continue
		}
		ipP := w.TS.Of(cl.Params[0])
		ff := w.FE.analysisFor(cl)
		for _, ex := range ff.exits {
			for _, alt := range ex.st {
				if !w.FE.Resolve(alt, ex.ret.Results[1]).IsConst("true") {
					continue
				}
				nSel++
				r0 := w.FE.Resolve(alt, ex.ret.Results[0])
				lenIs := func(t *Term, n string) bool {
					return alt.Has("b", true, func(x *Term) bool {
						return x.Op == OpBin && x.Name == "==" && ((x.Args[0].IsConst(n) && x.Args[1].Op == OpLen && termEq(x.Args[1].Args[0], t)) || (x.Args[1].IsConst(n) && x.Args[0].Op == OpLen && termEq(x.Args[0].Args[0], t)))
					})
				}
				conv := func(name string) bool {
					return r0.Op == OpCall && strings.HasSuffix(r0.Name, "."+name) && alt.HasKey("n", r0, true)
				}
				v4 := gate(alt, srn) && ((termEq(r0, ipP) && lenIs(ipP, "4")) || conv("To4"))
				v6 := gate(alt, srn6) && ((termEq(r0, ipP) && lenIs(ipP, "16")) || conv("To16"))
				rr.At(w, ex.ret, "an entry kept for an IPv4 requester is returned in 4-byte form, one kept for an IPv6 requester in 16-byte form", v4 || v6, "returns "+trunc(r0.String(), 100)+fmt.Sprintf(" (v4 ok: %v, v6 ok: %v)", v4, v6))
			}
		}
	}
	if nSel == 0 {
		rr.Oblige(shortFuncName(fp), "filterPeers selects an address form per entry", w.P.Pos(fp.Pos()), false, "no selecting closure recognised")
	}
}

func c11r5(w *World, rr *RuleRun) {
	index := w.P.Field("peer-store", "InMemory", "index")
	mu := w.LK.ClassByName("peer-store.InMemory.mu")
	n := 0
	for _, fa := range w.FieldAddrs(w.P.LibFuncs, index) {
		// every load / store / map op through the field address
		for _, r := range *fa.Referrers() {
			ins, ok := r.(ssa.Instruction)
			if !ok {
				continue
			}
			_, isStore := r.(*ssa.Store)
			st := w.LK.StatesAt(mu, ins)
			if st == nil {
				continue
			}
			n++
			rr.At(w, ins, "InMemory.index accessed under InMemory.mu", allHeld(st, isStore), "lock states "+statesString(st))
		}
	}
	// map updates on maps loaded from the index happen under the write lock
	eachInstr(w.P.LibFuncs, func(fn *ssa.Function, ins ssa.Instruction) {
		mu2, ok := ins.(*ssa.MapUpdate)
		if !ok {
			return
		}
		if !strings.Contains(shortFuncName(fn), "peer-store.InMemory") {
			return
		}
		it := index.Type().Underlying().(*types.Map)
		mt := mu2.Map.Type().Underlying()
		if !types.Identical(mt, it) && !types.Identical(mt, it.Elem().Underlying()) {
			return // a local result map, not the index or one of its per-infohash maps
		}
		st := w.LK.StatesAt(mu, ins)
		n++
		rr.At(w, ins, "peer-store map update under the write lock", allHeld(st, true), "lock states "+statesString(st)+" map "+w.TS.Of(mu2.Map).String())
	})
	// AddPeer: nodes[string(na.IP)] = NodeAndTime{na, now} in index[ih]
	ap := w.P.Func("(*peer-store.InMemory).AddPeer")
	ih := w.ParamTerm(ap, "ih")
	na := w.ParamTerm(ap, "na")
	okStore := false
	eachInstr([]*ssa.Function{ap}, func(_ *ssa.Function, ins ssa.Instruction) {
		mu2, ok := ins.(*ssa.MapUpdate)
		if !ok {
			return
		}
		key := w.TS.Of(mu2.Key).String()
		val := w.TS.Of(mu2.Value).String()
		if strings.Contains(key, na.String()+".IP") {
			okStore = true
			// the value literal's NodeAddr field must be the na parameter
			lit := w.literalStores(ap, w.P.NamedType("peer-store", "NodeAndTime"))
			v := w.TS.Of(lit["NodeAddr"])
			rr.At(w, ins, "AddPeer stores the endpoint it was given, keyed by its IP", lit["NodeAddr"] != nil && termEq(v, na), "key "+key+" value "+val+" NodeAddr ← "+v.String())
			// the map is index[ih] (looked up or freshly inserted under ih)
			mt := w.TS.Of(mu2.Map).String()
			rr.At(w, ins, "AddPeer files the endpoint under its own infohash", strings.Contains(mt, ih.String()) || mapFiledUnder(w, ap, mu2.Map, ih), "map "+mt)
		}
	})
	if !okStore {
		rr.Oblige(shortFuncName(ap), "AddPeer stores the endpoint it was given, keyed by its IP", w.P.Pos(ap.Pos()), false, "no map update keyed by na.IP")
	}
	// creating the per-infohash map (or the index itself) is atomic with finding it absent:
	// otherwise two first announces for one infohash race and one endpoint is lost
	dominates := func(a, b ssa.Instruction) bool {
		if a.Block() == b.Block() {
			return instrIndex(a) < instrIndex(b)
		}
		return a.Block().Dominates(b.Block())
	}
	for _, fn := range w.P.LibFuncs {
		if !strings.Contains(shortFuncName(fn), "peer-store.InMemory") {
			continue
		}
		for _, b := range fn.Blocks {
			for _, ins := range b.Instrs {
				switch x := ins.(type) {
				case *ssa.MapUpdate:
					if fieldOfAddr(x.Map) != index || !types.Identical(x.Map.Type().Underlying(), index.Type().Underlying()) {
						continue
					}
					key := w.TS.Of(x.Key)
					ok, why := false, "no lookup of the same key precedes the insertion"
					eachInstr([]*ssa.Function{fn}, func(_ *ssa.Function, i2 ssa.Instruction) {
						lk, isLk := i2.(*ssa.Lookup)
						if ok || !isLk || fieldOfAddr(lk.X) != index || !termEq(w.TS.Of(lk.Index), key) || !dominates(lk, ins) {
							return
						}
						if same, y := w.LK.SameCriticalSection(mu, lk, ins); same {
							ok, why = true, "lookup at "+w.P.InstrPos(lk)
						} else {
							why = "the lookup at " + w.P.InstrPos(lk) + " is not in the critical section of the insertion: " + y
						}
					})
					rr.At(w, ins, "a per-infohash map is created in the critical section that found it missing", ok, why)
				case *ssa.Store:
					if fa, isFA := x.Addr.(*ssa.FieldAddr); !isFA || fieldOfAddr(fa) != index {
						continue
					}
					if _, isMake := x.Val.(*ssa.MakeMap); !isMake {
						continue
					}
					ok, why := false, "no nil test of the index precedes its creation"
					for _, rd := range w.FieldReads([]*ssa.Function{fn}, index) {
						if ok || !dominates(rd, ins) {
							continue
						}
						isNilTest := false
						if v, isV := rd.(ssa.Value); isV && v.Referrers() != nil {
							for _, r := range *v.Referrers() {
								if bo, isB := r.(*ssa.BinOp); isB && (isNilConst(bo.X) || isNilConst(bo.Y)) {
									isNilTest = true
								}
							}
						}
						if !isNilTest {
							continue
						}
						if same, y := w.LK.SameCriticalSection(mu, rd, ins); same {
							ok, why = true, "nil test at "+w.P.InstrPos(rd)
						} else {
							why = "the nil test at " + w.P.InstrPos(rd) + " is not in the critical section of the creation: " + y
						}
					}
					rr.At(w, ins, "the index is created in the critical section that found it nil", ok, why)
				}
			}
		}
	}
	// GetPeers: reads index[ih] only
	gp := w.P.Func("(*peer-store.InMemory).GetPeers")
	gih := w.ParamTerm(gp, "ih")
	eachInstr([]*ssa.Function{gp}, func(_ *ssa.Function, ins ssa.Instruction) {
		lk, ok := ins.(*ssa.Lookup)
		if !ok {
			return
		}
		if fieldOfAddr(lk.X) == index {
			k := w.TS.Of(lk.Index)
			rr.At(w, ins, "GetPeers reads only the entry of its own infohash", termEq(k, gih), "key "+k.String())
		}
	})
	_ = n
}

// mapFiledUnder: the map value m is (a phi of) index[ih] lookups and fresh maps that are inserted
// into the index under ih.
func mapFiledUnder(w *World, fn *ssa.Function, m ssa.Value, ih *Term) bool {
	ok := false
	eachInstr([]*ssa.Function{fn}, func(_ *ssa.Function, ins ssa.Instruction) {
		if mu, isMU := ins.(*ssa.MapUpdate); isMU {
			if termEq(w.TS.Of(mu.Key), ih) {
				ok = true
			}
		}
	})
	if phi, isPhi := m.(*ssa.Phi); isPhi {
		for _, e := range phi.Edges {
			s := w.TS.Of(e).String()
			if !strings.Contains(s, ih.String()) {
				if _, isMake := e.(*ssa.MakeMap); !isMake {
					return false
				}
			}
		}
	}
	return ok
}

// c11r6: on the accepted-announce path the reply is preceded by PeerStore.AddPeer unless no store
// is configured - independently of any other hook.
func c11r6(w *World, rr *RuleRun) {
	h := w.handler()
	peerStore := w.P.Field("", "ServerConfig", "PeerStore")
	n := 0
	for _, site := range w.CallsInRegion(h.fn, h.reply) {
		cases := h.casesAt(w, site)
		isAnn := false
		for _, c := range cases {
			if c == "announce_peer" {
				isAnn = true
			}
		}
		if !isAnn {
			continue
		}
		n++
		w.Require(rr, site, "an announce is acknowledged only after it was handed to the configured peer store", func(alt *Alt) (bool, string) {
			if h.caseOf(alt) != "announce_peer" {
				return true, "other method"
			}
			if alt.Called("AddPeer", func(s *Term) bool { return isFieldTerm(s, peerStore) }) {
				return true, "PeerStore.AddPeer called"
			}
			if alt.Has("n", false, func(x *Term) bool { return isFieldTerm(x, peerStore) }) {
				return true, "no peer store configured"
			}
			return false, "a path acknowledges the announce without storing the peer although a store may be configured"
		})
	}
	if n == 0 {
		rr.Oblige(shortFuncName(h.fn), "the announce_peer branch replies", w.P.Pos(h.fn.Pos()), false, "no reply site in the announce_peer case")
	}
	// the hand-over to the store does not wait for application code: in the goroutine (or function)
	// that calls AddPeer, no call through a configuration hook can run before it
	addPeer := peerStoreMethod(w, "AddPeer")
	nAP := 0
	for _, site := range w.AllCallsTo(w.P.LibFuncs, addPeer) {
		c := callInstrCommon(site)
		if !c.IsInvoke() || !w.withinUp(site.Parent(), h.fn) && w.rootOf(site.Parent()) != h.fn && !within(site.Parent(), h.fn) {
			continue
		}
		nAP++
		f := site.Parent()
		if f == h.fn || w.rootOf(f) == h.fn && f.Parent() == nil {
			// called (or started with go) from the handler itself: nothing of the application's runs first in its goroutine
			if _, isGo := site.(*ssa.Go); isGo {
				rr.At(w, site, "the peer store is updated without waiting for an application hook", true, "started directly with go")
				continue
			}
		}
		blockedBy := ""
		eachInstr([]*ssa.Function{f}, func(_ *ssa.Function, ins ssa.Instruction) {
			call, ok := ins.(*ssa.Call)
			if !ok || ins == site {
				return
			}
			t := w.TS.Of(call)
			if t.Op != OpDyn || len(t.Args) == 0 {
				return
			}
			isHook := false
			t.Args[0].Walk(func(x *Term) bool {
				if x.Op == OpField {
					if fv, ok := x.Obj.(*types.Var); ok && fv != peerStore {
						if _, isSig := fv.Type().Underlying().(*types.Signature); isSig {
							isHook = true
						}
					}
				}
				return !isHook
			})
			if !isHook {
				return
			}
			before := (ins.Block() == site.Block() && instrIndex(ins) < instrIndex(site)) || (ins.Block() != site.Block() && blockReaches(ins.Block(), site.Block()))
			if before && f != h.fn {
				blockedBy = "hook call at " + w.P.InstrPos(ins) + " runs first in the same goroutine"
			}
		})
		rr.At(w, site, "the peer store is updated without waiting for an application hook", blockedBy == "", blockedBy)
	}
	if nAP == 0 {
		rr.ObligeTrivial(shortFuncName(h.fn), "no PeerStore.AddPeer call in the handler region", "-", true, "")
	}
}

// c11r8: "returns the endpoint until it is replaced" over a sequence of lookups. Two sites cooperate:
// the store's GetPeers (does the caller own the slice it gets?) and the handler's filter (does it
// write into its input?). Either alone is harmless; together a get_peers rewrites the store's
// answer for the next one (C11-v1: cached snapshot + in-place filter). The rule is the conjunction.
func c11r8(w *World, rr *RuleRun) {
	fp := w.P.Func("filterPeers")
	in := fp.Params[len(fp.Params)-1] // the list of peers (last parameter, []krpc.NodeAddr)
	if _, isSl := in.Type().Underlying().(*types.Slice); !isSl {
		broken("filterPeers: last parameter is not the peer list (%s)", in.Type())
	}
	// A: filterPeers writes into its input: the result's storage may be the parameter's, or an element
	// of the parameter is stored to
	var writes []string
	for _, f := range w.regionFuncs(fp) {
		for _, b := range f.Blocks {
			for _, ins := range b.Instrs {
				switch x := ins.(type) {
				case *ssa.Return:
					if f == fp && len(x.Results) > 0 {
						for _, o := range w.staleSliceOrigins(x.Results[0], 0, map[ssa.Value]bool{}) {
							if strings.Contains(o, w.TS.Of(in).String()) {
								writes = append(writes, "result shares storage with the input ("+o+") at "+w.P.InstrPos(ins))
							}
						}
					}
				case *ssa.Store:
					if ia, ok := x.Addr.(*ssa.IndexAddr); ok && sliceRootIs(ia.X, in, 0) {
						writes = append(writes, "element store into the input at "+w.P.InstrPos(ins))
					}
				}
			}
		}
	}
	writes = uniq(writes)
	// B: some bundled store's GetPeers hands out a slice it retains
	var retained []string
	nStores := 0
	for _, f := range w.P.LibFuncs {
		if f.Name() != "GetPeers" || f.Signature.Recv() == nil || len(f.Blocks) == 0 || f.Synthetic != "" {
			continue
		}
		res := f.Signature.Results()
		if res.Len() != 1 {
			continue
		}
		if _, isSl := res.At(0).Type().Underlying().(*types.Slice); !isSl {
			continue
		}
		nStores++
		var why []string
		aliases := map[ssa.Value]bool{}
		for _, b := range f.Blocks {
			for _, ins := range b.Instrs {
				if r, ok := ins.(*ssa.Return); ok && len(r.Results) > 0 {
					for _, o := range w.staleSliceOrigins(r.Results[0], 0, aliases) {
						why = append(why, "returns "+o)
					}
				}
			}
		}
		// the returned storage is also filed in the store (map element, field, global)
		for _, b := range f.Blocks {
			for _, ins := range b.Instrs {
				switch x := ins.(type) {
				case *ssa.MapUpdate:
					if aliases[x.Value] {
						why = append(why, "files the returned slice in a map at "+w.P.InstrPos(ins))
					}
				case *ssa.Store:
					if _, isLocal := x.Addr.(*ssa.Alloc); !isLocal && aliases[x.Val] {
						if _, isSl := x.Val.Type().Underlying().(*types.Slice); isSl {
							why = append(why, "stores the returned slice at "+w.P.InstrPos(ins))
						}
					}
				}
			}
		}
		why = uniq(why)
		rr.ObligeTrivial(shortFuncName(f), "GetPeers hands out a slice of the caller's own (informative; the verdict is the conjunction below)", w.P.Pos(f.Pos()), true, strings.Join(why, "; "))
		if len(why) > 0 {
			retained = append(retained, shortFuncName(f)+": "+strings.Join(why, "; "))
		}
	}
	if nStores == 0 {
		rr.Oblige("(library)", "a bundled peer store exists", "-", false, "no GetPeers implementation found")
	}
	ok := len(writes) == 0 || len(retained) == 0
	rr.Oblige(shortFuncName(fp), "the filter does not write into a slice a bundled store retains", w.P.Pos(fp.Pos()), ok,
		fmt.Sprintf("filter writes into its input: %v; stores handing out retained slices: %v", writes, retained))
}

// sliceRootIs: v is root, or a reslice / phi of it.
func sliceRootIs(v ssa.Value, root ssa.Value, depth int) bool {
	if v == root {
		return true
	}
	if depth > 6 {
		return false
	}
	switch x := v.(type) {
	case *ssa.Slice:
		return sliceRootIs(x.X, root, depth+1)
	case *ssa.Phi:
		for _, e := range x.Edges {
			if sliceRootIs(e, root, depth+1) {
				return true
			}
		}
	case *ssa.ChangeType:
		return sliceRootIs(x.X, root, depth+1)
	}
	return false
}
