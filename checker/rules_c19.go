package main

import (
	"fmt"
	"go/token"
	"go/types"
	"strings"

	"golang.org/x/tools/go/ssa"
)

func init() {
	register(&Property{
		ID:    "C19",
		Title: "Blocklisted addresses and passive mode are honoured on every path",
		Decided: "C19.1 one socket-write site, on Server.socket, dominated by closed=false ∧ blocklist-miss on the destination (same node whose Raw() is written to), both evaluated under Server.mu; socket stored only in NewServer and used only as a method receiver; " +
			"C19.2 one socket-read site; processPacket has one caller, dominated by blocklist-miss on the address just read; handleQuery is reached only from processPacket; the list the gate reads is one field, SetIPBlockList stores its argument into it, IPBlocklist() returns it and NewServer seeds it from the configuration; " +
			"C19.3 the lookup filter's true class implies blocklist-miss and it is installed at every traversal.Start in library code; " +
			"C19.4 passive=false dominates every reply/error; query messages are built only by the one constructor that sets ro under passive, and the sender's bytes come from it; " +
			"C19.5 ipBlockList is accessed only under Server.mu.",
		NotDecided: "the iplist.Ranger implementation's own lookup semantics (ranges, IPv6 handling).",
		Assume:     []string{"iplist.Ranger.Lookup(ip) reports ok=true exactly for covered addresses (external)"},
		Rules: []*Rule{
			{ID: "C19.1", Doc: "one outbound choke point guarded by closed and blocklist", Floor: 4, Run: c19r1},
			{ID: "C19.2", Doc: "one inbound entry guarded by blocklist", Floor: 3, Run: c19r2},
			{ID: "C19.3", Doc: "lookups filter blocked addresses", Floor: 5, Run: c19r3},
			{ID: "C19.4", Doc: "passive mode: no replies, ro on queries", Floor: 8, Run: c19r4},
			{ID: "C19.5", Doc: "blocklist field guarded by Server.mu", Floor: 3, Run: c19r5},
		},
	})
}

func c19r1(w *World, rr *RuleRun) {
	a := w.sendAnchors()
	socket := w.P.Field("", "Server", "socket")
	closed := w.P.Field("", "Server", "closed")
	blk := w.P.Field("", "Server", "ipBlockList")
	isSet := w.P.ExtMethod("github.com/anacrolix/chansync", "SetOnce", "IsSet")
	lookup := w.P.ExtMethod("github.com/anacrolix/torrent/iplist", "Ranger", "Lookup")
	mu := w.LK.ClassByName("Server.mu")
	rr.ObligeTrivial("(library)", "exactly one PacketConn.WriteTo site", "-", len(a.sites) == 1, fmt.Sprintf("%d sites: %v", len(a.sites), sitesPos(w, a.sites)))
	for _, site := range a.sites {
		c := callInstrCommon(site)
		recv := w.TS.Of(c.Value)
		rr.At(w, site, "write goes to Server.socket", recv.Op == OpField && recv.Obj == socket, "receiver: "+recv.String())
		dst := w.TS.Of(c.Args[1])
		// destination is Raw() of some node term N
		var node *Term
		if dst.Op == OpCall && strings.HasSuffix(dst.Name, ".Raw") && len(dst.Args) == 1 {
			node = dst.Args[0]
		}
		rr.At(w, site, "destination is node.Raw()", node != nil, "destination: "+dst.String())
		if node == nil {
			continue
		}
		w.Require(rr, site, "write requires closed=false ∧ blocklist-miss(node.IP())", func(alt *Alt) (bool, string) {
			if !alt.Has("b", false, func(t *Term) bool {
				return isCall(t, isSet) && len(t.Args) == 1 && t.Args[0].Op == OpAddr && t.Args[0].Args[0].Op == OpField && t.Args[0].Args[0].Obj == closed
			}) {
				return false, "closed.IsSet()=false missing"
			}
			if alt.Has("n", false, func(t *Term) bool { return t.Op == OpField && t.Obj == blk }) {
				return true, "closed=false ∧ ipBlockList=nil"
			}
			if alt.Has("b", false, func(t *Term) bool {
				cc, i := stripExtract(t)
				if i != 1 || !isCall(cc, lookup) || len(cc.Args) != 2 {
					return false
				}
				if !(cc.Args[0].Op == OpField && cc.Args[0].Obj == blk) {
					return false
				}
				ip := cc.Args[1]
				return ip.Op == OpCall && strings.HasSuffix(ip.Name, ".IP") && len(ip.Args) == 1 && termEq(ip.Args[0], node)
			}) {
				return true, "closed=false ∧ Lookup(node.IP()) ok=false"
			}
			return false, "no blocklist-miss fact for the destination node " + node.String()
		})
		// the guards are evaluated under the lock, in the same call
		fn := enclosingNamed(site.Parent())
		for _, obj := range []*types.Func{isSet, lookup} {
			cs := w.CallsInRegion(fn, obj)
			if len(cs) == 0 {
				rr.At(w, site, obj.Name()+" evaluated in the send routine", false, "no call of "+obj.Name()+" in "+shortFuncName(fn))
			}
			for _, g := range cs {
				st := w.LK.StatesAt(mu, g)
				rr.At(w, g, obj.Name()+" evaluated under Server.mu", allHeld(st, false), "lock states: "+statesString(st))
			}
		}
	}
	// socket: single writer, receiver-only uses
	for _, st := range w.FieldWrites(w.P.LibFuncs, socket) {
		fn := shortFuncName(enclosingNamed(st.Parent()))
		rr.At(w, st, "Server.socket stored only in NewServer", fn == "NewServer", "writer: "+fn)
	}
	for _, ld := range w.FieldReads(w.P.LibFuncs, socket) {
		v := ld.(ssa.Value)
		ok := true
		bad := ""
		for _, r := range *v.Referrers() {
			if cc := callInstrCommon(r); cc != nil && cc.IsInvoke() && cc.Value == v {
				continue
			}
			if _, isDbg := r.(*ssa.DebugRef); isDbg {
				continue
			}
			ok = false
			bad = instrString(r)
		}
		rr.At(w, ld, "Server.socket used only as a method receiver", ok, bad)
	}
}

func sitesPos(w *World, is []ssa.Instruction) []string {
	var out []string
	for _, i := range is {
		out = append(out, shortFuncName(i.Parent())+"@"+w.P.InstrPos(i))
	}
	return out
}

func c19r2(w *World, rr *RuleRun) {
	readFrom := w.P.ExtMethod("net", "PacketConn", "ReadFrom")
	sites := w.AllCallsTo(w.P.LibFuncs, readFrom)
	rr.ObligeTrivial("(library)", "exactly one PacketConn.ReadFrom site", "-", len(sites) == 1, fmt.Sprintf("%v", sitesPos(w, sites)))
	pp := w.P.Func("(*Server).processPacket")
	hq := w.P.Func("(*Server).handleQuery")
	ipBlocked := w.P.Func("(*Server).ipBlocked")
	callers := w.CG.CallersOf(pp)
	rr.ObligeTrivial("(*Server).processPacket", "processPacket has exactly one call site", "-", len(callers) == 1, fmt.Sprintf("%d call sites", len(callers)))
	for _, e := range callers {
		site := e.Site
		addrArg := w.TS.Of(callInstrCommon(site).Args[2])
		// NewAddr(X) with X = ReadFrom(...)#1
		var raw *Term
		if addrArg.Op == OpCall && strings.HasSuffix(addrArg.Name, "NewAddr") && len(addrArg.Args) == 1 {
			raw = addrArg.Args[0]
		}
		okSrc := false
		if raw != nil {
			cc, i := stripExtract(raw)
			okSrc = i == 1 && isCall(cc, readFrom)
		}
		rr.At(w, site, "processed address is the address just read from the socket", okSrc, "address argument: "+addrArg.String())
		if raw == nil {
			continue
		}
		w.Require(rr, site, "processPacket requires blocklist-miss on the source", func(alt *Alt) (bool, string) {
			if alt.Has("b", false, func(t *Term) bool {
				if !isCall(t, ipBlocked) || len(t.Args) != 2 {
					return false
				}
				ip := t.Args[1]
				return ip.Op == OpCall && strings.HasSuffix(ip.Name, "addrIP") && termEq(ip.Args[0], raw)
			}) {
				return true, "ipBlocked(addrIP(addr))=false for the address read"
			}
			return false, "no ipBlocked(addrIP(addr))=false fact for " + raw.String()
		})
	}
	for _, e := range w.CG.CallersOf(hq) {
		rr.At(w, e.Site, "handleQuery reached only from processPacket", e.Caller == pp, "caller: "+shortFuncName(e.Caller))
	}
	w.checkBlocklistInstalled(rr)
	// ipBlocked's false class means: no list, or lookup miss on the same ip
	sum := w.FE.Summary(ipBlocked, 0, "false", 0)
	blk := w.P.Field("", "Server", "ipBlockList")
	lookup := w.P.ExtMethod("github.com/anacrolix/torrent/iplist", "Ranger", "Lookup")
	ok := len(sum) > 0
	for _, alt := range sum {
		nolist := alt.Has("n", false, func(t *Term) bool { return t.Op == OpField && t.Obj == blk })
		miss := alt.Has("b", false, func(t *Term) bool {
			cc, i := stripExtract(t)
			return i == 1 && isCall(cc, lookup) && len(cc.Args) == 2 && cc.Args[0].Op == OpField && cc.Args[0].Obj == blk && cc.Args[1].Op == OpParam
		})
		if !nolist && !miss {
			ok = false
		}
	}
	rr.Oblige("(*Server).ipBlocked", "ipBlocked=false ⇒ no list ∨ Lookup(ip) miss", w.P.Pos(ipBlocked.Pos()), ok, "false-class summary: "+sum.String())
}

// traversalStartSites: call sites of traversal.Start in library code, with the OperationInput
// literal's field stores.
type startSite struct {
	call   ssa.Instruction
	fields map[string]ssa.Value // field name -> stored value
}

func (w *World) traversalStartSites() []startSite {
	start := w.P.Func("traversal.Start")
	var out []startSite
	for _, e := range w.CG.CallersOf(start) {
		if !w.P.IsLib(e.Caller) {
			continue
		}
		ss := startSite{call: e.Site, fields: map[string]ssa.Value{}}
		arg := callInstrCommon(e.Site).Args[0]
		// arg is a load of an Alloc (composite literal) -> collect stores into its fields
		if ld, ok := arg.(*ssa.UnOp); ok {
			if al, ok := ld.X.(*ssa.Alloc); ok {
				for _, r := range *al.Referrers() {
					if fa, ok := r.(*ssa.FieldAddr); ok {
						st := fa.X.Type().Underlying().(*types.Pointer).Elem().Underlying().(*types.Struct)
						for _, r2 := range *fa.Referrers() {
							if s, ok := r2.(*ssa.Store); ok && s.Addr == fa {
								ss.fields[st.Field(fa.Field).Name()] = s.Val
							}
						}
					}
				}
			}
		}
		out = append(out, ss)
	}
	return out
}

func c19r3(w *World, rr *RuleRun) {
	filter := w.P.Func("(*Server).TraversalNodeFilter")
	ipBlocked := w.P.Func("(*Server).ipBlocked")
	sum := w.FE.Summary(filter, 0, "true", 0)
	ok := len(sum) > 0
	for _, alt := range sum {
		if !alt.Has("b", false, func(t *Term) bool {
			if !isCall(t, ipBlocked) || len(t.Args) != 2 {
				return false
			}
			ip := t.Args[1]
			// IP() of the node parameter's address
			return ip.Op == OpCall && strings.HasSuffix(ip.Name, ".IP") && strings.Contains(ip.String(), "nodeₚ.Addr")
		}) {
			ok = false
		}
	}
	rr.Oblige("(*Server).TraversalNodeFilter", "filter=true ⇒ ipBlocked(node.Addr.IP())=false", w.P.Pos(filter.Pos()), ok, "true-class summary: "+sum.String())
	sites := w.traversalStartSites()
	for _, ss := range sites {
		v := ss.fields["NodeFilter"]
		if v == nil {
			rr.At(w, ss.call, "traversal.Start installs the server node filter", false, "OperationInput literal has no NodeFilter")
			continue
		}
		fs := w.CG.FuncsOf(v)
		good := len(fs) > 0
		for _, f := range fs {
			// bound-method wrapper of TraversalNodeFilter
			if !(strings.HasPrefix(f.Name(), "TraversalNodeFilter") && f.Synthetic != "" || f == filter) {
				good = false
			}
		}
		rr.At(w, ss.call, "traversal.Start installs the server node filter", good, fmt.Sprintf("NodeFilter may be: %v", funcNames(fs)))
	}
}

func c19r4(w *World, rr *RuleRun) {
	hq := w.P.Func("(*Server).handleQuery")
	reply := w.P.Func("(*Server).reply")
	sendError := w.P.Func("(*Server).sendError")
	passive := w.P.Field("", "ServerConfig", "Passive")
	isPassive := func(t *Term) bool { return t.Op == OpField && t.Obj == passive }
	n := 0
	for _, obj := range []*ssa.Function{reply, sendError} {
		for _, c := range w.CallsIn(hq, obj, true) {
			n++
			w.Require(rr, c, shortFuncName(obj)+" requires config.Passive=false", func(alt *Alt) (bool, string) {
				if alt.Has("b", false, isPassive) {
					return true, "config.Passive=false"
				}
				return false, "no config.Passive=false fact"
			})
		}
		// and nobody else calls reply / sendError
		for _, e := range w.CG.CallersOf(obj) {
			if !w.withinUp(e.Caller, hq) {
				rr.At(w, e.Site, shortFuncName(obj)+" called only from handleQuery", false, "caller: "+shortFuncName(e.Caller))
			}
		}
	}
	// query messages: Y == "q" stored only in makeQueryBytes
	mqb := w.P.Func("(*Server).makeQueryBytes")
	msgY := w.P.Field("krpc", "Msg", "Y")
	ro := w.P.Field("krpc", "Msg", "ReadOnly")
	for _, st := range w.FieldWrites(w.P.LibFuncs, msgY) {
		s, ok := st.(*ssa.Store)
		if !ok {
			continue
		}
		val := w.TS.Of(s.Val)
		fn := enclosingNamed(st.Parent())
		switch {
		case val.IsConst(`"q"`):
			rr.At(w, st, `Msg{Y:"q"} built only by makeQueryBytes`, fn == mqb, "in "+shortFuncName(fn))
		case val.Op == OpConst:
			rr.ObligeTrivialAt(w, st, "Msg.Y store of "+val.String(), true, "in "+shortFuncName(fn))
		default:
			rr.At(w, st, "Msg.Y stores are constants", false, "non-constant message type "+val.String()+" in "+shortFuncName(fn))
		}
	}
	// in makeQueryBytes: marshal requires ¬Passive ∨ ReadOnly stored true
	marshal := w.P.ExtFunc("github.com/anacrolix/torrent/bencode", "Marshal")
	mustMarshal := w.P.ExtFunc("github.com/anacrolix/torrent/bencode", "MustMarshal")
	var ms []ssa.Instruction
	ms = append(ms, w.CallsIn(mqb, marshal, true)...)
	ms = append(ms, w.CallsIn(mqb, mustMarshal, true)...)
	if len(ms) == 0 {
		rr.Oblige(shortFuncName(mqb), "query constructor marshals the message", w.P.Pos(mqb.Pos()), false, "no bencode.Marshal in makeQueryBytes")
	}
	// ReadOnly may also be set to the passive flag itself (ReadOnly: s.config.Passive)
	roIsPassive := false
	if v := w.literalStoresRegion(mqb, w.P.NamedType("krpc", "Msg"))["ReadOnly"]; v != nil && isPassive(w.TS.Of(v)) {
		roIsPassive = true
	}
	for _, m := range ms {
		w.Require(rr, m, "marshalled query has ro=true under passive", func(alt *Alt) (bool, string) {
			if roIsPassive {
				return true, "m.ReadOnly is the passive flag itself"
			}
			if alt.Has("b", false, isPassive) {
				return true, "not passive"
			}
			if alt.Has("b", true, isPassive) && alt.Has("b", true, func(t *Term) bool { return t.Op == OpField && t.Obj == ro }) {
				return true, "passive ∧ m.ReadOnly=true"
			}
			return false, "passive path without ReadOnly=true"
		})
	}
	// the flags the server consults are its own: Server.config holds a COPY of the caller's
	// configuration (a shared pointer would let a later change of the caller's struct - or a second
	// NewServer with the same struct - flip Passive on a running server)
	cfgF := w.P.Field("", "Server", "config")
	_, isPtr := cfgF.Type().Underlying().(*types.Pointer)
	rr.Oblige("Server.config", "the server keeps its own copy of the configuration (not the caller's pointer)", "-", !isPtr, cfgF.Type().String())
	// ReadOnly is never stored false/elsewhere in library code
	for _, st := range w.FieldWrites(w.P.LibFuncs, ro) {
		fn := enclosingNamed(st.Parent())
		rr.At(w, st, "Msg.ReadOnly written only by makeQueryBytes", fn == mqb, "in "+shortFuncName(fn))
	}
	// sender bytes come from makeQueryBytes; Query is the only caller of the sender
	tqs := w.P.Func("(*Server).transactionQuerySender")
	query := w.P.Func("(*Server).Query")
	for _, e := range w.CG.CallersOf(tqs) {
		rr.At(w, e.Site, "transactionQuerySender called only from Query", w.withinUp(e.Caller, query), "caller: "+shortFuncName(e.Caller))
		b := w.TS.Of(callInstrCommon(e.Site).Args[2])
		rr.At(w, e.Site, "query bytes come from makeQueryBytes", isCall(b, mqb), "bytes: "+b.String())
	}
	// the send routine's callers: reply, sendError, the query sender
	a := w.sendAnchors()
	if len(a.sites) > 0 {
		sendFn := enclosingNamed(a.sites[0].Parent())
		for _, e := range w.CG.CallersOf(sendFn) {
			ok := w.withinUp(e.Caller, reply) || w.withinUp(e.Caller, sendError) || w.withinUp(e.Caller, tqs)
			rr.At(w, e.Site, "send routine called only by reply, sendError and the query sender", ok, "caller: "+shortFuncName(e.Caller))
		}
	}
	_ = n
}

func c19r5(w *World, rr *RuleRun) {
	blk := w.P.Field("", "Server", "ipBlockList")
	mu := w.LK.ClassByName("Server.mu")
	newServer := w.P.Func("NewServer")
	for _, ins := range w.FieldWrites(w.P.LibFuncs, blk) {
		if within(ins.Parent(), newServer) {
			rr.ObligeTrivialAt(w, ins, "ipBlockList initialised in NewServer (before publication)", true, "")
			continue
		}
		st := w.LK.StatesAt(mu, ins)
		rr.At(w, ins, "ipBlockList written under Server.mu (write lock)", allHeld(st, true), "lock states: "+statesString(st))
	}
	for _, ins := range w.FieldReads(w.P.LibFuncs, blk) {
		st := w.LK.StatesAt(mu, ins)
		if st == nil {
			rr.ObligeTrivialAt(w, ins, "ipBlockList read (unreachable from API roots)", true, "")
			continue
		}
		rr.At(w, ins, "ipBlockList read under Server.mu", allHeld(st, false), "lock states: "+statesString(st)+lockWitness(w, mu, ins))
	}
}

// lockWitness: a root-to-site call chain on which the class is not held (diagnosis only).
func lockWitness(w *World, c *types.Var, ins ssa.Instruction) string {
	return ""
}

// checkBlocklistInstalled: the list the gates consult is the list the API installs. The gate
// (ipBlocked) reads one field; SetIPBlockList must store its argument into that very field,
// IPBlocklist() must return it, and the constructor must seed it from the configuration.
func (w *World) checkBlocklistInstalled(rr *RuleRun) {
	ipBlocked := w.P.Func("(*Server).ipBlocked")
	set := w.P.Func("(*Server).SetIPBlockList")
	get := w.P.Func("(*Server).IPBlocklist")
	// the field(s) of iplist.Ranger type the gate reads
	gate := map[*types.Var]bool{}
	eachInstr(w.RegionOf(ipBlocked), func(_ *ssa.Function, ins ssa.Instruction) {
		if u, ok := ins.(*ssa.UnOp); ok && u.Op == token.MUL {
			if fa, ok := u.X.(*ssa.FieldAddr); ok {
				if fv := fieldOfAddr(fa); fv != nil && strings.HasSuffix(fv.Type().String(), "iplist.Ranger") {
					gate[fv] = true
				}
			}
		}
	})
	if len(gate) != 1 {
		rr.Oblige(shortFuncName(ipBlocked), "the blocklist gate reads one list field", w.P.Pos(ipBlocked.Pos()), false, fmt.Sprintf("%d Ranger-typed fields read", len(gate)))
		return
	}
	var gf *types.Var
	for f := range gate {
		gf = f
	}
	listP := w.TS.Of(set.Params[len(set.Params)-1])
	okSet := false
	for _, st := range w.FieldWrites([]*ssa.Function{set}, gf) {
		if s, ok := st.(*ssa.Store); ok && termEq(w.TS.Of(s.Val), listP) {
			okSet = true
		}
	}
	rr.Oblige(shortFuncName(set), "SetIPBlockList installs its argument in the field the gates read", w.P.Pos(set.Pos()), okSet, "gate field "+gf.Name())
	okGet, nRet := true, 0
	eachInstr([]*ssa.Function{get}, func(_ *ssa.Function, ins ssa.Instruction) {
		if r, ok := ins.(*ssa.Return); ok && len(r.Results) == 1 {
			nRet++
			if t := w.TS.Of(r.Results[0]); !isFieldTerm(t, gf) {
				okGet = false
			}
		}
	})
	rr.Oblige(shortFuncName(get), "IPBlocklist() reports the list the gates read", w.P.Pos(get.Pos()), okGet && nRet > 0, "gate field "+gf.Name())
	// seeded from the configuration at construction
	cfg := w.P.Field("", "ServerConfig", "IPBlocklist")
	ns := w.P.Func("NewServer")
	okSeed := false
	for _, st := range w.FieldWrites([]*ssa.Function{ns}, gf) {
		if s, ok := st.(*ssa.Store); ok && hasFieldAnywhere(w.TS.Of(s.Val), cfg) {
			okSeed = true
		}
	}
	rr.Oblige("NewServer", "the configured IPBlocklist is installed in the field the gates read", w.P.Pos(ns.Pos()), okSeed, "gate field "+gf.Name())
}
