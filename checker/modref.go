package main

// Field-based mod/ref summaries: which struct fields (by *types.Var identity) a module function may
// write / read, transitively over synchronous and deferred calls. Used by engine B to decide which
// guard facts a call kills.

import (
	"go/token"
	"go/types"

	"golang.org/x/tools/go/ssa"
)

type ModRef struct {
	Mod map[*ssa.Function]map[*types.Var]bool
	Ref map[*ssa.Function]map[*types.Var]bool
	// locals (Alloc cells, incl. captured ones resolved to the parent's cell) written by the function
	ModLocals map[*ssa.Function]map[ssa.Value]bool
}

// fieldOfAddr: the field identity an address designates, looking through index/slice steps.
func fieldOfAddr(addr ssa.Value) *types.Var {
	for i := 0; i < 8 && addr != nil; i++ {
		switch a := addr.(type) {
		case *ssa.FieldAddr:
			st := a.X.Type().Underlying().(*types.Pointer).Elem().Underlying().(*types.Struct)
			return st.Field(a.Field)
		case *ssa.IndexAddr:
			addr = a.X
		case *ssa.Slice:
			addr = a.X
		case *ssa.UnOp:
			if a.Op == token.MUL {
				// element of a slice/map/pointer loaded from a field: attribute to that field
				addr = a.X
			} else {
				return nil
			}
		case *ssa.Field:
			st := a.X.Type().Underlying().(*types.Struct)
			return st.Field(a.Field)
		case *ssa.ChangeType:
			addr = a.X
		default:
			return nil
		}
	}
	return nil
}

func structFieldsOfPointee(t types.Type, out map[*types.Var]bool) {
	pt, ok := t.Underlying().(*types.Pointer)
	if !ok {
		return
	}
	st, ok := pt.Elem().Underlying().(*types.Struct)
	if !ok {
		return
	}
	for i := 0; i < st.NumFields(); i++ {
		out[st.Field(i)] = true
	}
}

func BuildModRef(p *Program, cg *CallGraph, ts *Terms) *ModRef {
	mr := &ModRef{Mod: map[*ssa.Function]map[*types.Var]bool{}, Ref: map[*ssa.Function]map[*types.Var]bool{}, ModLocals: map[*ssa.Function]map[ssa.Value]bool{}}
	for _, f := range p.ModFuncs {
		mod := map[*types.Var]bool{}
		ref := map[*types.Var]bool{}
		locs := map[ssa.Value]bool{}
		for _, b := range f.Blocks {
			for _, ins := range b.Instrs {
				switch ins := ins.(type) {
				case *ssa.Store:
					if fv := fieldOfAddr(ins.Addr); fv != nil {
						mod[fv] = true
					} else {
						switch a := ins.Addr.(type) {
						case *ssa.Alloc:
							locs[a] = true
						case *ssa.FreeVar:
							if bv, ok := ts.fvBind[a]; ok {
								locs[bv] = true
							}
						case *ssa.Global:
						default:
							structFieldsOfPointee(ins.Addr.Type(), mod)
						}
					}
					// partial writes into a local struct also dirty the local
					markLocalRoot(ins.Addr, ts, locs)
				case *ssa.MapUpdate:
					if fv := fieldOfAddr(ins.Map); fv != nil {
						mod[fv] = true
					}
				case *ssa.UnOp:
					if ins.Op == token.MUL {
						if fv := fieldOfAddr(ins.X); fv != nil {
							ref[fv] = true
						}
					}
				case *ssa.Field:
					st := ins.X.Type().Underlying().(*types.Struct)
					ref[st.Field(ins.Field)] = true
				case *ssa.Lookup:
					if fv := fieldOfAddr(ins.X); fv != nil {
						ref[fv] = true
					}
				case *ssa.Range:
					if fv := fieldOfAddr(ins.X); fv != nil {
						ref[fv] = true
					}
				}
				if c := callInstrCommon(ins); c != nil {
					if bi, ok := c.Value.(*ssa.Builtin); ok {
						switch bi.Name() {
						case "delete", "clear":
							if fv := fieldOfAddr(c.Args[0]); fv != nil {
								mod[fv] = true
							}
						case "len", "cap":
							if fv := fieldOfAddr(c.Args[0]); fv != nil {
								ref[fv] = true
							}
						case "copy":
							if fv := fieldOfAddr(c.Args[0]); fv != nil {
								mod[fv] = true
							}
							markLocalRoot(c.Args[0], ts, locs)
						case "append":
						}
					}
				}
			}
		}
		mr.Mod[f], mr.Ref[f], mr.ModLocals[f] = mod, ref, locs
	}
	// transitive closure over sync/defer edges (a goroutine's writes are not ordered with the caller)
	changed := true
	for changed {
		changed = false
		for _, f := range p.ModFuncs {
			for _, e := range cg.Out[f] {
				if e.Mode == ModeGo {
					continue
				}
				for v := range mr.Mod[e.Callee] {
					if !mr.Mod[f][v] {
						mr.Mod[f][v] = true
						changed = true
					}
				}
				for v := range mr.Ref[e.Callee] {
					if !mr.Ref[f][v] {
						mr.Ref[f][v] = true
						changed = true
					}
				}
				for v := range mr.ModLocals[e.Callee] {
					if !mr.ModLocals[f][v] {
						mr.ModLocals[f][v] = true
						changed = true
					}
				}
			}
		}
	}
	return mr
}

func markLocalRoot(addr ssa.Value, ts *Terms, locs map[ssa.Value]bool) {
	for i := 0; i < 8 && addr != nil; i++ {
		switch a := addr.(type) {
		case *ssa.FieldAddr:
			addr = a.X
		case *ssa.IndexAddr:
			addr = a.X
		case *ssa.Slice:
			addr = a.X
		case *ssa.Alloc:
			locs[a] = true
			return
		case *ssa.FreeVar:
			if bv, ok := ts.fvBind[a]; ok {
				locs[bv] = true
			}
			return
		default:
			return
		}
	}
}
