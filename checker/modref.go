package main

// Field-based mod/ref summaries: which struct fields (by *types.Var identity) a module function may
// write / read, transitively over synchronous and deferred calls. Used by engine B to decide which
// guard facts a call kills.

import (
	"go/token"
	"go/types"

	"golang.org/x/tools/go/ssa"
)

type ModRef struct {
	Via map[*ssa.Function]map[modKey]bool // parameter-relative mod sets
	cg  *CallGraph
	ts  *Terms
	Mod map[*ssa.Function]map[*types.Var]bool
	Ref map[*ssa.Function]map[*types.Var]bool
	// locals (Alloc cells, incl. captured ones resolved to the parent's cell) written by the function
	ModLocals map[*ssa.Function]map[ssa.Value]bool
}

// fieldOfAddr: the field identity an address designates, looking through index/slice steps.
func fieldOfAddr(addr ssa.Value) *types.Var {
	for i := 0; i < 8 && addr != nil; i++ {
		switch a := addr.(type) {
		case *ssa.FieldAddr:
			st := a.X.Type().Underlying().(*types.Pointer).Elem().Underlying().(*types.Struct)
			return st.Field(a.Field)
		case *ssa.IndexAddr:
			addr = a.X
		case *ssa.Slice:
			addr = a.X
		case *ssa.UnOp:
			if a.Op == token.MUL {
				// element of a slice/map/pointer loaded from a field: attribute to that field
				addr = a.X
			} else {
				return nil
			}
		case *ssa.Field:
			st := a.X.Type().Underlying().(*types.Struct)
			return st.Field(a.Field)
		case *ssa.ChangeType:
			addr = a.X
		default:
			return nil
		}
	}
	return nil
}

func structFieldsOfPointee(t types.Type, out map[*types.Var]bool) {
	pt, ok := t.Underlying().(*types.Pointer)
	if !ok {
		return
	}
	st, ok := pt.Elem().Underlying().(*types.Struct)
	if !ok {
		return
	}
	for i := 0; i < st.NumFields(); i++ {
		out[st.Field(i)] = true
	}
}

// ptrRoot classifies where an address ultimately points: into a parameter's pointee (idx ≥ 0), into
// a local cell of the function ("local"), or elsewhere ("other": heap reached through loads, globals,
// captured variables, call results).
func ptrRoot(fn *ssa.Function, v ssa.Value) (string, int) {
	for i := 0; i < 10 && v != nil; i++ {
		switch a := v.(type) {
		case *ssa.FieldAddr:
			v = a.X
		case *ssa.IndexAddr:
			if _, isPtr := a.X.Type().Underlying().(*types.Pointer); !isPtr {
				return "other", -1 // element of a slice value: backing array may be shared
			}
			v = a.X
		case *ssa.ChangeType:
			v = a.X
		case *ssa.Slice:
			if _, isPtr := a.X.Type().Underlying().(*types.Pointer); !isPtr {
				return "other", -1
			}
			v = a.X
		case *ssa.Alloc:
			return "local", -1
		case *ssa.Parameter:
			for pi, p := range fn.Params {
				if p == a {
					return "param", pi
				}
			}
			return "other", -1
		default:
			return "other", -1
		}
	}
	return "other", -1
}

type modKey struct {
	fv  *types.Var
	via int // -1: other (always visible to callers); ≥0: through pointer parameter #via
}

func BuildModRef(p *Program, cg *CallGraph, ts *Terms) *ModRef {
	mr := &ModRef{Mod: map[*ssa.Function]map[*types.Var]bool{}, Ref: map[*ssa.Function]map[*types.Var]bool{}, ModLocals: map[*ssa.Function]map[ssa.Value]bool{}, cg: cg, ts: ts}
	via := map[*ssa.Function]map[modKey]bool{}
	mr.Via = via
	for _, f := range p.ModFuncs {
		mv := map[modKey]bool{}
		ref := map[*types.Var]bool{}
		locs := map[ssa.Value]bool{}
		addMod := func(fv *types.Var, addr ssa.Value, reference bool) {
			kind, idx := ptrRoot(f, addr)
			switch {
			case kind == "param":
				mv[modKey{fv, idx}] = true
			case kind == "local" && !reference:
				// a write into the function's own local value: invisible to callers
			default:
				mv[modKey{fv, -1}] = true
			}
		}
		for _, b := range f.Blocks {
			for _, ins := range b.Instrs {
				switch ins := ins.(type) {
				case *ssa.Store:
					if fv := fieldOfAddr(ins.Addr); fv != nil {
						// a store through a loaded pointer/slice (UnOp in the chain) is a heap write
						_, viaLoad := derefInChain(ins.Addr)
						addMod(fv, ins.Addr, viaLoad)
					} else {
						switch a := ins.Addr.(type) {
						case *ssa.Alloc:
							locs[a] = true
						case *ssa.FreeVar:
							if bv, ok := ts.fvBind[a]; ok {
								locs[bv] = true
							}
						case *ssa.Global:
						default:
							tmp := map[*types.Var]bool{}
							structFieldsOfPointee(ins.Addr.Type(), tmp)
							for fv := range tmp {
								addMod(fv, ins.Addr, false)
							}
						}
					}
					// partial writes into a local struct also dirty the local
					markLocalRoot(ins.Addr, ts, locs)
				case *ssa.MapUpdate:
					if fv := fieldOfAddr(ins.Map); fv != nil {
						mv[modKey{fv, -1}] = true
					}
				case *ssa.UnOp:
					if ins.Op == token.MUL {
						if fv := fieldOfAddr(ins.X); fv != nil {
							ref[fv] = true
						}
					}
				case *ssa.Field:
					st := ins.X.Type().Underlying().(*types.Struct)
					ref[st.Field(ins.Field)] = true
				case *ssa.Lookup:
					if fv := fieldOfAddr(ins.X); fv != nil {
						ref[fv] = true
					}
				case *ssa.Range:
					if fv := fieldOfAddr(ins.X); fv != nil {
						ref[fv] = true
					}
				}
				if c := callInstrCommon(ins); c != nil {
					if bi, ok := c.Value.(*ssa.Builtin); ok {
						switch bi.Name() {
						case "delete", "clear":
							if fv := fieldOfAddr(c.Args[0]); fv != nil {
								mv[modKey{fv, -1}] = true
							}
						case "len", "cap":
							if fv := fieldOfAddr(c.Args[0]); fv != nil {
								ref[fv] = true
							}
						case "copy":
							if fv := fieldOfAddr(c.Args[0]); fv != nil {
								_, viaLoad := derefInChain(c.Args[0])
								addMod(fv, c.Args[0], viaLoad)
							}
							markLocalRoot(c.Args[0], ts, locs)
						case "append":
						}
					}
				}
			}
		}
		via[f], mr.Ref[f], mr.ModLocals[f] = mv, ref, locs
	}
	// transitive closure over sync/defer edges (a goroutine's writes are not ordered with the caller).
	// A callee's write through its pointer parameter #i is attributed according to what the caller
	// passes: the address of one of its own locals (dropped), one of its own pointer parameters
	// (re-attributed) or anything else (a visible write).
	changed := true
	for changed {
		changed = false
		for _, f := range p.ModFuncs {
			for _, e := range cg.Out[f] {
				if e.Mode == ModeGo {
					continue
				}
				c := callInstrCommon(e.Site)
				if c != nil && !e.Callback && c.StaticCallee() == nil && !c.IsInvoke() && cg.funcParamOrigin(c.Value, ts) != nil {
					// a call through one of f's own function-typed parameters: its effects are attributed
					// to the call site that supplies the function (below), not to f
					continue
				}
				// functions handed over at this site (closures, method values) run during the call
				if c != nil {
					for _, a := range c.Args {
						if !isFuncType(a.Type()) || cg.funcParamOrigin(a, ts) != nil {
							continue
						}
						for _, h := range cg.FuncsOf(a) {
							for k := range via[h] {
								nk := modKey{k.fv, -1}
								if !via[f][nk] {
									via[f][nk] = true
									changed = true
								}
							}
							for v := range mr.Ref[h] {
								if !mr.Ref[f][v] {
									mr.Ref[f][v] = true
									changed = true
								}
							}
							for v := range mr.ModLocals[h] {
								if !mr.ModLocals[f][v] {
									mr.ModLocals[f][v] = true
									changed = true
								}
							}
						}
					}
				}
				off := 0
				if c != nil && c.IsInvoke() {
					off = 1
				}
				for k := range via[e.Callee] {
					nk := modKey{k.fv, -1}
					if k.via >= 0 && c != nil && !e.Callback {
						ai := k.via - off
						if c.IsInvoke() && k.via == 0 {
							// receiver of an invoke: the interface value; treat as other
						} else if ai >= 0 && ai < len(c.Args) {
							kind, idx := ptrRoot(f, c.Args[ai])
							if _, viaLoad := derefInChain(c.Args[ai]); viaLoad {
								kind = "other"
							}
							switch kind {
							case "local":
								continue
							case "param":
								nk = modKey{k.fv, idx}
							}
						}
					}
					if !via[f][nk] {
						via[f][nk] = true
						changed = true
					}
				}
				for v := range mr.Ref[e.Callee] {
					if !mr.Ref[f][v] {
						mr.Ref[f][v] = true
						changed = true
					}
				}
				for v := range mr.ModLocals[e.Callee] {
					if !mr.ModLocals[f][v] {
						mr.ModLocals[f][v] = true
						changed = true
					}
				}
			}
		}
	}
	for f, mv := range via {
		m := map[*types.Var]bool{}
		for k := range mv {
			m[k.fv] = true
		}
		mr.Mod[f] = m
	}
	return mr
}

// derefInChain: the address chain passes through a load (pointer/slice fetched from memory).
func derefInChain(addr ssa.Value) (ssa.Value, bool) {
	for i := 0; i < 10 && addr != nil; i++ {
		switch a := addr.(type) {
		case *ssa.FieldAddr:
			addr = a.X
		case *ssa.IndexAddr:
			addr = a.X
		case *ssa.Slice:
			addr = a.X
		case *ssa.ChangeType:
			addr = a.X
		case *ssa.UnOp:
			return a, true
		default:
			return nil, false
		}
	}
	return nil, false
}

func markLocalRoot(addr ssa.Value, ts *Terms, locs map[ssa.Value]bool) {
	for i := 0; i < 8 && addr != nil; i++ {
		switch a := addr.(type) {
		case *ssa.FieldAddr:
			addr = a.X
		case *ssa.IndexAddr:
			addr = a.X
		case *ssa.Slice:
			addr = a.X
		case *ssa.Alloc:
			locs[a] = true
			return
		case *ssa.FreeVar:
			if bv, ok := ts.fvBind[a]; ok {
				locs[bv] = true
			}
			return
		default:
			return
		}
	}
}

// SiteMod: the fields a call instruction may write as seen by the caller: the mod sets of its
// resolved callees plus those of the functions handed over as arguments at this site. When argIdx ≥ 0
// only writes that can go through that argument (or through unrelated heap paths) are reported:
// a callee that writes solely through *another* pointer parameter does not count.
func (mr *ModRef) SiteMod(ins ssa.Instruction, argIdx int) map[*types.Var]bool {
	out := map[*types.Var]bool{}
	c := callInstrCommon(ins)
	if c == nil {
		return out
	}
	off := 0
	if c.IsInvoke() {
		off = 1
	}
	for _, e := range mr.cg.SiteOut[ins] {
		if e.Mode == ModeGo {
			continue
		}
		for k := range mr.Via[e.Callee] {
			if argIdx >= 0 && k.via >= 0 && !e.Callback && k.via-off != argIdx {
				continue
			}
			out[k.fv] = true
		}
	}
	for _, a := range c.Args {
		if !isFuncType(a.Type()) {
			continue
		}
		for _, h := range mr.cg.FuncsOf(a) {
			for k := range mr.Via[h] {
				out[k.fv] = true
			}
		}
	}
	return out
}

// SiteModLocals: local cells a call instruction may write (through closures it runs).
func (mr *ModRef) SiteModLocals(ins ssa.Instruction) map[ssa.Value]bool {
	out := map[ssa.Value]bool{}
	c := callInstrCommon(ins)
	if c == nil {
		return out
	}
	for _, e := range mr.cg.SiteOut[ins] {
		if e.Mode == ModeGo {
			continue
		}
		for v := range mr.ModLocals[e.Callee] {
			out[v] = true
		}
	}
	for _, a := range c.Args {
		if !isFuncType(a.Type()) {
			continue
		}
		for _, h := range mr.cg.FuncsOf(a) {
			for v := range mr.ModLocals[h] {
				out[v] = true
			}
		}
	}
	return out
}
