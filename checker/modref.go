package main

// Field-based mod/ref summaries: which struct fields (by *types.Var identity) a module function may
// write / read, transitively over synchronous and deferred calls. Used by engine B to decide which
// guard facts a call kills.

import (
	"go/token"
	"go/types"

	"golang.org/x/tools/go/ssa"
)

type ModRef struct {
	Mod map[*ssa.Function]map[*types.Var]bool
	Ref map[*ssa.Function]map[*types.Var]bool
	// locals (Alloc cells, incl. captured ones resolved to the parent's cell) written by the function
	ModLocals map[*ssa.Function]map[ssa.Value]bool
}

// fieldOfAddr: the field identity an address designates, looking through index/slice steps.
func fieldOfAddr(addr ssa.Value) *types.Var {
	for i := 0; i < 8 && addr != nil; i++ {
		switch a := addr.(type) {
		case *ssa.FieldAddr:
			st := a.X.Type().Underlying().(*types.Pointer).Elem().Underlying().(*types.Struct)
			return st.Field(a.Field)
		case *ssa.IndexAddr:
			addr = a.X
		case *ssa.Slice:
			addr = a.X
		case *ssa.UnOp:
			if a.Op == token.MUL {
				// element of a slice/map/pointer loaded from a field: attribute to that field
				addr = a.X
			} else {
				return nil
			}
		case *ssa.Field:
			st := a.X.Type().Underlying().(*types.Struct)
			return st.Field(a.Field)
		case *ssa.ChangeType:
			addr = a.X
		default:
			return nil
		}
	}
	return nil
}

func structFieldsOfPointee(t types.Type, out map[*types.Var]bool) {
	pt, ok := t.Underlying().(*types.Pointer)
	if !ok {
		return
	}
	st, ok := pt.Elem().Underlying().(*types.Struct)
	if !ok {
		return
	}
	for i := 0; i < st.NumFields(); i++ {
		out[st.Field(i)] = true
	}
}

// ptrRoot classifies where an address ultimately points: into a parameter's pointee (idx ≥ 0), into
// a local cell of the function ("local"), or elsewhere ("other": heap reached through loads, globals,
// captured variables, call results).
func ptrRoot(fn *ssa.Function, v ssa.Value) (string, int) {
	for i := 0; i < 10 && v != nil; i++ {
		switch a := v.(type) {
		case *ssa.FieldAddr:
			v = a.X
		case *ssa.IndexAddr:
			if _, isPtr := a.X.Type().Underlying().(*types.Pointer); !isPtr {
				return "other", -1 // element of a slice value: backing array may be shared
			}
			v = a.X
		case *ssa.ChangeType:
			v = a.X
		case *ssa.Alloc:
			return "local", -1
		case *ssa.Parameter:
			for pi, p := range fn.Params {
				if p == a {
					return "param", pi
				}
			}
			return "other", -1
		default:
			return "other", -1
		}
	}
	return "other", -1
}

type modKey struct {
	fv  *types.Var
	via int // -1: other (always visible to callers); ≥0: through pointer parameter #via
}

func BuildModRef(p *Program, cg *CallGraph, ts *Terms) *ModRef {
	mr := &ModRef{Mod: map[*ssa.Function]map[*types.Var]bool{}, Ref: map[*ssa.Function]map[*types.Var]bool{}, ModLocals: map[*ssa.Function]map[ssa.Value]bool{}}
	via := map[*ssa.Function]map[modKey]bool{}
	for _, f := range p.ModFuncs {
		mv := map[modKey]bool{}
		ref := map[*types.Var]bool{}
		locs := map[ssa.Value]bool{}
		addMod := func(fv *types.Var, addr ssa.Value, reference bool) {
			kind, idx := ptrRoot(f, addr)
			switch {
			case kind == "param":
				mv[modKey{fv, idx}] = true
			case kind == "local" && !reference:
				// a write into the function's own local value: invisible to callers
			default:
				mv[modKey{fv, -1}] = true
			}
		}
		for _, b := range f.Blocks {
			for _, ins := range b.Instrs {
				switch ins := ins.(type) {
				case *ssa.Store:
					if fv := fieldOfAddr(ins.Addr); fv != nil {
						// a store through a loaded pointer/slice (UnOp in the chain) is a heap write
						_, viaLoad := derefInChain(ins.Addr)
						addMod(fv, ins.Addr, viaLoad)
					} else {
						switch a := ins.Addr.(type) {
						case *ssa.Alloc:
							locs[a] = true
						case *ssa.FreeVar:
							if bv, ok := ts.fvBind[a]; ok {
								locs[bv] = true
							}
						case *ssa.Global:
						default:
							tmp := map[*types.Var]bool{}
							structFieldsOfPointee(ins.Addr.Type(), tmp)
							for fv := range tmp {
								addMod(fv, ins.Addr, false)
							}
						}
					}
					// partial writes into a local struct also dirty the local
					markLocalRoot(ins.Addr, ts, locs)
				case *ssa.MapUpdate:
					if fv := fieldOfAddr(ins.Map); fv != nil {
						mv[modKey{fv, -1}] = true
					}
				case *ssa.UnOp:
					if ins.Op == token.MUL {
						if fv := fieldOfAddr(ins.X); fv != nil {
							ref[fv] = true
						}
					}
				case *ssa.Field:
					st := ins.X.Type().Underlying().(*types.Struct)
					ref[st.Field(ins.Field)] = true
				case *ssa.Lookup:
					if fv := fieldOfAddr(ins.X); fv != nil {
						ref[fv] = true
					}
				case *ssa.Range:
					if fv := fieldOfAddr(ins.X); fv != nil {
						ref[fv] = true
					}
				}
				if c := callInstrCommon(ins); c != nil {
					if bi, ok := c.Value.(*ssa.Builtin); ok {
						switch bi.Name() {
						case "delete", "clear":
							if fv := fieldOfAddr(c.Args[0]); fv != nil {
								mv[modKey{fv, -1}] = true
							}
						case "len", "cap":
							if fv := fieldOfAddr(c.Args[0]); fv != nil {
								ref[fv] = true
							}
						case "copy":
							if fv := fieldOfAddr(c.Args[0]); fv != nil {
								mv[modKey{fv, -1}] = true
							}
							markLocalRoot(c.Args[0], ts, locs)
						case "append":
						}
					}
				}
			}
		}
		via[f], mr.Ref[f], mr.ModLocals[f] = mv, ref, locs
	}
	// transitive closure over sync/defer edges (a goroutine's writes are not ordered with the caller).
	// A callee's write through its pointer parameter #i is attributed according to what the caller
	// passes: the address of one of its own locals (dropped), one of its own pointer parameters
	// (re-attributed) or anything else (a visible write).
	changed := true
	for changed {
		changed = false
		for _, f := range p.ModFuncs {
			for _, e := range cg.Out[f] {
				if e.Mode == ModeGo {
					continue
				}
				c := callInstrCommon(e.Site)
				off := 0
				if c != nil && c.IsInvoke() {
					off = 1
				}
				for k := range via[e.Callee] {
					nk := modKey{k.fv, -1}
					if k.via >= 0 && c != nil && !e.Callback {
						ai := k.via - off
						if c.IsInvoke() && k.via == 0 {
							// receiver of an invoke: the interface value; treat as other
						} else if ai >= 0 && ai < len(c.Args) {
							kind, idx := ptrRoot(f, c.Args[ai])
							if _, viaLoad := derefInChain(c.Args[ai]); viaLoad {
								kind = "other"
							}
							switch kind {
							case "local":
								continue
							case "param":
								nk = modKey{k.fv, idx}
							}
						}
					}
					if !via[f][nk] {
						via[f][nk] = true
						changed = true
					}
				}
				for v := range mr.Ref[e.Callee] {
					if !mr.Ref[f][v] {
						mr.Ref[f][v] = true
						changed = true
					}
				}
				for v := range mr.ModLocals[e.Callee] {
					if !mr.ModLocals[f][v] {
						mr.ModLocals[f][v] = true
						changed = true
					}
				}
			}
		}
	}
	for f, mv := range via {
		m := map[*types.Var]bool{}
		for k := range mv {
			m[k.fv] = true
		}
		mr.Mod[f] = m
	}
	return mr
}

// derefInChain: the address chain passes through a load (pointer/slice fetched from memory).
func derefInChain(addr ssa.Value) (ssa.Value, bool) {
	for i := 0; i < 10 && addr != nil; i++ {
		switch a := addr.(type) {
		case *ssa.FieldAddr:
			addr = a.X
		case *ssa.IndexAddr:
			addr = a.X
		case *ssa.Slice:
			addr = a.X
		case *ssa.ChangeType:
			addr = a.X
		case *ssa.UnOp:
			return a, true
		default:
			return nil, false
		}
	}
	return nil, false
}

func markLocalRoot(addr ssa.Value, ts *Terms, locs map[ssa.Value]bool) {
	for i := 0; i < 8 && addr != nil; i++ {
		switch a := addr.(type) {
		case *ssa.FieldAddr:
			addr = a.X
		case *ssa.IndexAddr:
			addr = a.X
		case *ssa.Slice:
			addr = a.X
		case *ssa.Alloc:
			locs[a] = true
			return
		case *ssa.FreeVar:
			if bv, ok := ts.fvBind[a]; ok {
				locs[bv] = true
			}
			return
		default:
			return
		}
	}
}
