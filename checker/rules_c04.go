package main

import (
	"fmt"
	"go/token"
	"go/types"
	"strings"

	"golang.org/x/tools/go/ssa"
)

func init() {
	register(&Property{
		ID:    "C04",
		Title: "Lookup query discipline: bounded fan-out, at most once per address, filters, cancellation",
		Decided: "C04.1 DoQuery has one call site, inside a goroutine whose start is dominated by outstanding++ in the same critical section, and the only caller of that starter requires outstanding < Alpha evaluated in the same critical section; " +
			"C04.2 every insertion into the unqueried frontier is dominated by NodeFilter(n)=true for the inserted n; " +
			"C04.3 at most once per address: the queried set is written and read under one key encoding; every insertion into it is dominated, within one critical section, by a failed lookup of the same key, and the address handed to DoQuery is the one marked; the set only grows (created once with the operation; afterwards only looked up, inserted into, measured or iterated - no delete, clear or hand-off); " +
			"C04.4 the context handed to DoQuery comes from context.WithCancel whose cancel function is called by a watcher goroutine, started before the query, on the stopping event; cancel is also called after the query returns; " +
			"C04.6 inside the traversal package the caller's Alpha and K are overwritten only on paths where the value is known to be ≤ 0 (unset), so the bound of C04.1 is the configured one; " +
			"C04.5 every traversal.Start in library code installs (*Server).TraversalNodeFilter, whose true-class excludes blocked IPs, invalid addresses and (with security on) insecure known IDs.",
		NotDecided: "behaviour of the DoQuery callbacks themselves, timing of cancellation, the run-time count of goroutines (the bound follows from the strict guard outstanding < Alpha evaluated in the critical section of the increment, which is what C04.1 requires).",
		Assume:     []string{"Operation fields are only touched under Operation.mu (checked as C02.5)"},
		Rules: []*Rule{
			{ID: "C04.1", Doc: "bounded fan-out", Floor: 4, Run: c04r1},
			{ID: "C04.2", Doc: "filter before frontier", Floor: 1, Run: c04r2},
			{ID: "C04.3", Doc: "at most once per address: atomic test-and-set under one key encoding", Floor: 3, Run: c04r3},
			{ID: "C04.4", Doc: "per-query context cancelled on stop", Floor: 3, Run: c04r4},
			{ID: "C04.5", Doc: "built-in lookups install the server node filter", Floor: 5, Run: c04r5},
			{ID: "C04.7", Doc: "the filter sees what was reported: a contact taken from a reply keeps the ID it was reported under, unconditionally", Floor: 1, Run: c04r7},
			{ID: "C04.8", Doc: "the queried set holds exactly the addresses whose query was started (shared with C03.9)", Floor: 1, Run: c03r9},
			{ID: "C04.6", Doc: "the configured Alpha and K are replaced by a default only when unset", Floor: 2, Run: c04r6},
		},
	})
}

// doQuerySites: calls through OperationInput.DoQuery in library code.
func (w *World) doQuerySites(t *trav) []*ssa.Call {
	var out []*ssa.Call
	eachInstr(w.P.LibFuncs, func(fn *ssa.Function, ins ssa.Instruction) {
		if c, ok := ins.(*ssa.Call); ok {
			if _, ok := dynThrough(w.TS.Of(c), t.doQuery); ok {
				out = append(out, c)
			}
		}
	})
	return out
}

func isOutstandingInc(w *World, t *trav, ins ssa.Instruction) bool {
	st, ok := ins.(*ssa.Store)
	if !ok || fieldOfAddr(st.Addr) != t.outstanding {
		return false
	}
	v := w.TS.Of(st.Val)
	return v.Op == OpBin && v.Name == "+" && isFieldTerm(v.Args[0], t.outstanding) && v.Args[1].IsConst("1")
}

func c04r1(w *World, rr *RuleRun) {
	t := w.trav()
	w.LK.Run()
	sites := w.doQuerySites(t)
	rr.Oblige("traversal", "DoQuery is invoked at exactly one site", "-", len(sites) == 1, fmt.Sprintf("%d sites", len(sites)))
	for _, site := range sites {
		g := w.liftSyncHelper(site.Parent())
		// g must be started with `go` (and only so)
		var starts []*Edge
		okGo := true
		for _, e := range w.CG.CallersOf(g) {
			if e.Callback {
				continue
			}
			starts = append(starts, e)
			if e.Mode != ModeGo {
				okGo = false
			}
		}
		rr.At(w, site, "the query runs in its own goroutine", okGo && len(starts) == 1, fmt.Sprintf("%d start sites of %s", len(starts), shortFuncName(g)))
		for _, e := range starts {
			starter := e.Caller
			// outstanding++ precedes the go on every path, in the same critical section
			var inc ssa.Instruction
			pre := PrecededBy(e.Site, func(i ssa.Instruction) bool {
				if isOutstandingInc(w, t, i) {
					inc = i
					return true
				}
				return false
			})
			rr.At(w, e.Site, "outstanding++ precedes the start of the query goroutine on every path", pre, "")
			if inc != nil {
				ok, why := w.LK.SameCriticalSection(t.mu, inc, e.Site)
				rr.At(w, e.Site, "the increment and the goroutine start are in one critical section", ok, why)
			}
			held := w.LK.StatesAt(t.mu, e.Site)
			rr.At(w, e.Site, "the query goroutine is started with Operation.mu held", allHeld(held, false), "lock states "+statesString(held))
			// callers of the starter: outstanding < Alpha
			n := 0
			for _, ce := range w.CG.CallersOf(starter) {
				if ce.Callback || !w.P.IsLib(ce.Caller) {
					continue
				}
				n++
				w.Require(rr, ce.Site, "a query is started only under outstanding < Alpha", func(alt *Alt) (bool, string) {
					if alt.Has("b", true, func(x *Term) bool {
						return x.Op == OpBin && x.Name == "<" && isFieldTerm(x.Args[0], t.outstanding) && isFieldTerm(x.Args[1], t.alpha)
					}) {
						return true, "outstanding < input.Alpha"
					}
					return false, "no (outstanding < Alpha) fact at the start of a query: the in-flight count is not bounded by Alpha here"
				})
				// the comparison is evaluated in the same critical section
				st, _ := w.ownerStructOf(t.cond)
				for _, r := range w.waiterReads(ce.Caller, map[*types.Var]bool{t.outstanding: true}, ce.Site, w.LK) {
					_ = st
					ok, why := w.LK.SameCriticalSection(t.mu, r, ce.Site)
					rr.At(w, r, "the in-flight count is read in the critical section that starts the query", ok, why)
				}
			}
			rr.Oblige(shortFuncName(starter), "the query starter has one caller (the run loop)", w.P.Pos(starter.Pos()), n == 1, fmt.Sprintf("%d callers", n))
		}
	}
}

func c04r2(w *World, rr *RuleRun) {
	t := w.trav()
	n := 0
	eachInstr(w.P.LibFuncs, func(fn *ssa.Function, ins ssa.Instruction) {
		c := callInstrCommon(ins)
		if c == nil || !c.IsInvoke() || c.Method.Name() != "Add" || fieldOfAddr(c.Value) != t.unqueried || len(c.Args) != 1 {
			return
		}
		n++
		arg := c.Args[0]
		w.Require(rr, ins, "unqueried.Add(n) only after NodeFilter(n)=true", func(alt *Alt) (bool, string) {
			a := w.FE.Resolve(alt, arg)
			if alt.Has("b", true, func(x *Term) bool {
				args, ok := dynThrough(x, t.nodeFilter)
				return ok && len(args) == 1 && termEq(args[0], a)
			}) {
				return true, "NodeFilter(n)"
			}
			return false, "candidate " + a.String() + " enters the frontier without passing the node filter"
		})
	})
	if n == 0 {
		rr.Oblige("traversal", "the frontier has an insertion site", "-", false, "no unqueried.Add call")
	}
}

// keyEncoding: for a key term conv(addrString)(X.String()), the String method used.
func keyEncoding(k *Term) (string, *Term, bool) {
	if k.Op == OpConv && len(k.Args) == 1 {
		k = k.Args[0]
	}
	if k.Op == OpCall && suffixName(k) == "String" && len(k.Args) == 1 {
		return k.Name, k.Args[0], true
	}
	return "", nil, false
}

func c04r3(w *World, rr *RuleRun) {
	t := w.trav()
	w.LK.Run()
	// all accesses of the queried set
	type acc struct {
		ins   ssa.Instruction
		key   ssa.Value
		write bool
	}
	var accs []acc
	eachInstr(w.P.LibFuncs, func(fn *ssa.Function, ins ssa.Instruction) {
		switch x := ins.(type) {
		case *ssa.MapUpdate:
			if fieldOfAddr(x.Map) == t.queried {
				accs = append(accs, acc{ins, x.Key, true})
			}
		case *ssa.Lookup:
			if fieldOfAddr(x.X) == t.queried {
				accs = append(accs, acc{ins, x.Index, false})
			}
		}
	})
	encs := map[string]bool{}
	nW := 0
	for _, a := range accs {
		enc, _, ok := keyEncoding(w.TS.Of(a.key))
		if !ok {
			rr.At(w, a.ins, "queried-set key is an address string", false, "key "+trunc(w.TS.Of(a.key).String(), 160))
			continue
		}
		encs[enc] = true
	}
	var encList []string
	for e := range encs {
		encList = append(encList, e)
	}
	for _, a := range accs {
		enc, _, ok := keyEncoding(w.TS.Of(a.key))
		if !ok {
			continue
		}
		what := "read"
		if a.write {
			what = "written"
		}
		rr.At(w, a.ins, "the queried set is "+what+" under the one key encoding used everywhere", len(encs) == 1, fmt.Sprintf("this access uses %s; encodings in use: %v", enc, encList))
	}
	// every insertion is dominated by a failed lookup of the same key in the same critical section
	failedLookup := func(alt *Alt, key *Term) bool {
		return alt.Has("b", false, func(x *Term) bool {
			// lookup#1 (commaok)
			if x.Op != OpExtract || x.Name != "1" {
				return false
			}
			lk := x.Args[0]
			return lk.Op == OpLookup && isFieldTerm(lk.Args[0], t.queried) && termEq(lk.Args[1], key)
		})
	}
	for _, a := range accs {
		if !a.write {
			continue
		}
		nW++
		fn := a.ins.Parent()
		keyV := a.key
		// try at the site itself, else at every caller with parameters substituted
		st := w.FE.StateBefore(a.ins)
		direct := len(st) > 0
		for _, alt := range st {
			if !failedLookup(alt, w.FE.Resolve(alt, keyV)) {
				direct = false
			}
		}
		if direct {
			rr.At(w, a.ins, "an address is marked queried only after a failed lookup of the same address (atomic test-and-set)", true, "lookup in the same function")
			continue
		}
		callers := 0
		allOK := true
		det := ""
		for _, e := range w.CG.CallersOf(fn) {
			if e.Callback || !w.P.IsLib(e.Caller) {
				continue
			}
			callers++
			c := callInstrCommon(e.Site)
			sub := map[string]*Term{}
			off := 0
			if c.IsInvoke() {
				off = 1
			}
			for pi, prm := range fn.Params {
				if pi-off >= 0 && pi-off < len(c.Args) {
					sub[w.TS.Of(prm).String()] = w.TS.Of(c.Args[pi-off])
				}
			}
			cst := w.FE.StateBefore(e.Site)
			if len(cst) == 0 {
				continue
			}
			for _, alt := range cst {
				k := w.TS.Of(keyV).Subst(sub).Subst(alt.bind)
				if !failedLookup(alt, k) {
					allOK = false
					det = "caller " + shortFuncName(e.Caller) + " marks " + trunc(k.String(), 120) + " without having just found it absent: the test (at insertion into the frontier) and the set (at pop) are in different critical sections, so one address queued under several IDs is queried once per ID"
				}
			}
			if allOK {
				// the lookup and the marking are in one critical section: no release between lookup and call
				for _, b := range e.Caller.Blocks {
					for _, li := range b.Instrs {
						if lk, ok := li.(*ssa.Lookup); ok && fieldOfAddr(lk.X) == t.queried {
							if ok2, why := w.LK.SameCriticalSection(t.mu, li, e.Site); !ok2 && w.LK.canReach(b, instrIndex(li)+1, e.Site) {
								allOK = false
								det = "lookup and marking are not in one critical section: " + why
							}
						}
					}
				}
			}
		}
		if callers == 0 {
			allOK = false
			det = "no failed lookup dominates the insertion"
		}
		rr.At(w, a.ins, "an address is marked queried only after a failed lookup of the same address (atomic test-and-set)", allOK, det)
	}
	if nW == 0 {
		rr.Oblige("traversal", "the queried set has an insertion site", "-", false, "none found")
	}
	// the set only grows: once marked, an address stays marked for the life of the operation. The
	// map is created with the operation, and every later use of it is a lookup, an insertion, a
	// length or an iteration - no delete, no clear, no hand-off to code that could do either.
	eachInstr(w.P.LibFuncs, func(fn *ssa.Function, ins ssa.Instruction) {
		switch x := ins.(type) {
		case *ssa.Store:
			fa, ok := x.Addr.(*ssa.FieldAddr)
			if !ok || fieldOfAddr(fa) != t.queried {
				return
			}
			_, fresh := fa.X.(*ssa.Alloc)
			_, mk := x.Val.(*ssa.MakeMap)
			rr.At(w, ins, "the queried set is created once, with the operation it belongs to", fresh && mk, "stores "+trunc(w.TS.Of(x.Val).String(), 120)+" in "+shortFuncName(fn))
		case *ssa.UnOp:
			if x.Op != token.MUL {
				return
			}
			fa, ok := x.X.(*ssa.FieldAddr)
			if !ok || fieldOfAddr(fa) != t.queried || x.Referrers() == nil {
				return
			}
			for _, r := range *x.Referrers() {
				okUse, what := false, fmt.Sprintf("%T", r)
				switch u := r.(type) {
				case *ssa.Lookup, *ssa.MapUpdate, *ssa.Range, *ssa.DebugRef:
					okUse = true
				case ssa.CallInstruction:
					if b, isB := u.Common().Value.(*ssa.Builtin); isB {
						what = "builtin " + b.Name()
						okUse = b.Name() == "len"
					} else {
						what = "passed to " + trunc(w.TS.Of(u.Common().Value).String(), 80)
					}
				}
				if !okUse {
					rr.At(w, r, "an address once marked queried stays marked (the set is only looked up and inserted into)", false, what+" in "+shortFuncName(fn))
				}
			}
		}
	})
	rr.Oblige("traversal", "an address once marked queried stays marked (the set is only looked up and inserted into)", "-", true, "every use of the queried map examined")
	// the address handed to DoQuery is the one marked: both derive from the popped candidate's Addr
	addrF := w.P.Field("types", "AddrMaybeId", "Addr")
	for _, site := range w.doQuerySites(t) {
		args, _ := dynThrough(w.TS.Of(site), t.doQuery)
		if len(args) != 2 {
			continue
		}
		dst := args[1]
		// find the candidate term X such that dst mentions X.Addr
		var cand *Term
		dst.Walk(func(x *Term) bool {
			if isFieldTerm(x, addrF) && cand == nil {
				cand = x
			}
			return cand == nil
		})
		okMark := false
		det := "destination " + trunc(dst.String(), 160)
		if cand != nil {
			// some marking (queried[...] = ) reachable in the starter uses the same X.Addr
			for _, a := range accs {
				if !a.write {
					continue
				}
				fn := a.ins.Parent()
				for _, e := range w.CG.CallersOf(fn) {
					c := callInstrCommon(e.Site)
					for _, arg := range c.Args {
						if termEq(w.TS.Of(arg), cand) {
							okMark = true
						}
					}
				}
				if k := w.TS.Of(a.key); k.Contains(cand) {
					okMark = true
				}
			}
		}
		rr.At(w, site, "the address queried is the address marked as queried", okMark, det)
	}
}

func c04r4(w *World, rr *RuleRun) {
	t := w.trav()
	for _, site := range w.doQuerySites(t) {
		args, _ := dynThrough(w.TS.Of(site), t.doQuery)
		if len(args) != 2 {
			continue
		}
		ctx := args[0]
		wc, idx := stripExtract(ctx)
		okCtx := idx == 0 && wc.Op == OpCall && strings.HasSuffix(wc.Name, "context.WithCancel")
		rr.At(w, site, "DoQuery receives a context created by context.WithCancel for this query", okCtx, "context "+trunc(ctx.String(), 120))
		if !okCtx {
			continue
		}
		cancelS := wc.String() + "#1"
		isCancelCall := func(ins ssa.Instruction) bool {
			c, ok := ins.(*ssa.Call)
			if !ok {
				return false
			}
			ct := w.TS.Of(c)
			return ct.Op == OpDyn && len(ct.Args) == 1 && ct.Args[0].String() == cancelS
		}
		// watcher goroutine started before the query
		fn := site.Parent()
		var watchers []*ssa.Function
		pre := PrecededBy(site, func(i ssa.Instruction) bool {
			g, ok := i.(*ssa.Go)
			if !ok {
				return false
			}
			for _, e := range w.CG.SiteOut[g] {
				for _, b := range e.Callee.Blocks {
					for _, ci := range b.Instrs {
						if isCancelCall(ci) {
							watchers = append(watchers, e.Callee)
							return true
						}
					}
				}
			}
			return false
		})
		rr.At(w, site, "a watcher goroutine holding this query's cancel function is started before the query", pre, fmt.Sprintf("%d watcher(s)", len(watchers)))
		for _, wf := range watchers {
			// the cancel call is under the select case that receives from stopping.Done()
			for _, b := range wf.Blocks {
				for _, ci := range b.Instrs {
					if !isCancelCall(ci) {
						continue
					}
					// find the select and the index of the stopping case
					var sel *ssa.Select
					idxStop := -1
					for _, bb := range wf.Blocks {
						for _, si := range bb.Instrs {
							if s, ok := si.(*ssa.Select); ok {
								for k, stt := range s.States {
									ch := w.TS.Of(stt.Chan)
									if stt.Dir == types.RecvOnly && ch.Op == OpCall && suffixName(ch) == "Done" && hasFieldAnywhere(ch, t.stopping) {
										sel, idxStop = s, k
									}
								}
							}
						}
					}
					if sel == nil {
						rr.At(w, ci, "the watcher cancels the query when the lookup is stopping (select on stopping.Done())", false, "the watcher does not wait on Operation.stopping")
						continue
					}
					selT := w.TS.Of(sel)
					w.Require(rr, ci, "the watcher cancels the query when the lookup is stopping (select on stopping.Done())", func(alt *Alt) (bool, string) {
						if alt.Has("b", true, func(x *Term) bool {
							if x.Op != OpBin || x.Name != "==" {
								return false
							}
							for i := 0; i < 2; i++ {
								if x.Args[i].IsConst(fmt.Sprint(idxStop)) && x.Args[1-i].Op == OpExtract && x.Args[1-i].Name == "0" && termEq(x.Args[1-i].Args[0], selT) {
									return true
								}
							}
							return false
						}) {
							return true, fmt.Sprintf("select case %d (<-stopping.Done())", idxStop)
						}
						return false, "cancel is not under the stopping case"
					})
				}
			}
		}
		// cancel after the query returns (releases the watcher)
		post, _ := MustPass(site, isCancelCall)
		rr.At(w, site, "cancel is called after DoQuery returns on every path (the watcher ends)", post, "in "+shortFuncName(fn))
	}
}

func c04r5(w *World, rr *RuleRun) {
	c19r3(w, rr)
	// additionally: the filter's true-class demands a valid address and (security on) a secure known ID
	filter := w.P.Func("(*Server).TraversalNodeFilter")
	valid := w.P.Func("validNodeAddr")
	sum := w.FE.Summary(filter, 0, "true", 0)
	ok := len(sum) > 0
	for _, alt := range sum {
		if !alt.Has("b", true, func(x *Term) bool { return isCall(x, valid) }) {
			ok = false
		}
	}
	rr.Oblige(shortFuncName(filter), "filter=true ⇒ validNodeAddr(node address)", w.P.Pos(filter.Pos()), ok, "true-class "+trunc(sum.String(), 400))
	noSec := w.P.Field("", "ServerConfig", "NoSecurity")
	okSec := len(sum) > 0
	for _, alt := range sum {
		idUnknown := alt.Has("b", false, func(x *Term) bool { return x.Op == OpField && x.Name == "Ok" })
		secOff := alt.Has("b", true, func(x *Term) bool { return isFieldTerm(x, noSec) })
		secure := alt.Has("b", true, func(x *Term) bool { return x.Op == OpCall && suffixName(x) == "NodeIdSecure" })
		if !(idUnknown || secOff || secure) {
			okSec = false
		}
	}
	rr.Oblige(shortFuncName(filter), "filter=true ⇒ ID unknown ∨ NoSecurity ∨ NodeIdSecure(id, ip)", w.P.Pos(filter.Pos()), okSec, "true-class "+trunc(sum.String(), 400))
}

// c04r6: the Alpha that bounds the fan-out (and the K that sizes the result) is the caller's; the
// traversal package may substitute a default only for an unset (non-positive) value.
func c04r6(w *World, rr *RuleRun) {
	t := w.trav()
	var fns []*ssa.Function
	for _, fn := range w.P.LibFuncs {
		if fn.Pkg != nil && fn.Pkg.Pkg.Name() == "traversal" {
			fns = append(fns, fn)
		}
	}
	for _, fv := range []*types.Var{t.alpha, t.k} {
		fv := fv
		n := 0
		for _, ins := range w.FieldWrites(fns, fv) {
			st, ok := ins.(*ssa.Store)
			if !ok {
				continue
			}
			n++
			w.Require(rr, st, "OperationInput."+fv.Name()+" is overwritten only when unset (≤ 0)", func(alt *Alt) (bool, string) {
				unset := alt.Has("b", true, func(x *Term) bool {
					// X == 0, X < c with c ≤ 1
					if x.Op != OpBin {
						return false
					}
					if x.Name == "==" {
						return (x.Args[0].IsConst("0") && isFieldTerm(x.Args[1], fv)) || (x.Args[1].IsConst("0") && isFieldTerm(x.Args[0], fv))
					}
					if x.Name == "<" && isFieldTerm(x.Args[0], fv) {
						c, ok := termInt(x.Args[1])
						return ok && c <= 1
					}
					return false
				}) || alt.Has("b", false, func(x *Term) bool {
					// ¬(c < X) with c ≤ 0
					if x.Op != OpBin || x.Name != "<" || !isFieldTerm(x.Args[1], fv) {
						return false
					}
					c, ok := termInt(x.Args[0])
					return ok && c <= 0
				})
				if unset {
					return true, fv.Name() + " ≤ 0 on this path"
				}
				return false, "a configured positive " + fv.Name() + " may be overwritten here"
			})
		}
		if n == 0 {
			rr.ObligeTrivial("traversal", "OperationInput."+fv.Name()+" is never overwritten inside the traversal package", "-", true, "no store")
		}
	}
}

func termInt(t *Term) (int64, bool) {
	if t == nil || t.Op != OpConst {
		return 0, false
	}
	var n int64
	if _, err := fmt.Sscanf(t.Name, "%d", &n); err != nil || fmt.Sprint(n) != t.Name {
		return 0, false
	}
	return n, true
}

// liftSyncHelper: while f is an unexported named function with exactly one call site, a plain
// synchronous call, continue with the caller: an extracted helper runs in its caller's goroutine.
func (w *World) liftSyncHelper(f *ssa.Function) *ssa.Function {
	for depth := 0; depth < 3; depth++ {
		if f.Parent() != nil || f.Object() == nil || f.Object().Exported() {
			return f
		}
		var es []*Edge
		for _, e := range w.CG.CallersOf(f) {
			if !e.Callback {
				es = append(es, e)
			}
		}
		if len(es) != 1 || es[0].Mode != ModeSync {
			return f
		}
		f = es[0].Caller
	}
	return f
}

// c04r7: the node filter decides on (address, reported ID). The conversion from a reply's
// NodeInfo to the lookup's candidate type must therefore carry the reported ID over on every path:
// a conversion that drops some IDs (say the all-zero one) turns a candidate the filter would reject
// into an ID-less one it lets through.
func c04r7(w *World, rr *RuleRun) {
	idF := w.P.Field("types", "AddrMaybeId", "Id")
	niID := w.P.Field("krpc", "NodeInfo", "ID")
	n := 0
	for _, f := range w.P.LibFuncs {
		if f.Pkg == nil || f.Pkg.Pkg.Name() != "types" {
			continue
		}
		takesNodeInfo := false
		for _, p := range f.Params {
			if strings.Contains(p.Type().String(), "krpc.NodeInfo") {
				takesNodeInfo = true
			}
		}
		if !takesNodeInfo {
			continue
		}
		for _, ins := range w.FieldWrites([]*ssa.Function{f}, idF) {
			st, ok := ins.(*ssa.Store)
			if !ok {
				continue
			}
			n++
			v := w.TS.Of(st.Val)
			fromReported := hasFieldAnywhere(v, niID)
			rr.At(w, ins, "the candidate's ID is the reported ID", fromReported, "Id ← "+trunc(v.String(), 100))
			w.Require(rr, ins, "the reported ID is carried over unconditionally", func(alt *Alt) (bool, string) {
				cond := ""
				for k, t := range alt.terms {
					if strings.HasPrefix(k, "b:") && t != nil && hasFieldAnywhere(t, niID) {
						cond = k
					}
				}
				if cond == "" {
					return true, "no condition on the reported ID"
				}
				return false, "the ID is kept only under a condition on its value: " + trunc(cond, 120)
			})
		}
	}
	if n == 0 {
		rr.Oblige("types", "the candidate's ID is the reported ID", "-", false, "no conversion from krpc.NodeInfo that sets AddrMaybeId.Id")
	}
}
