#!/bin/bash
# usage: seedconfirm.sh <srcdir with patch.diff + verif_demo_test.go> <pkgdir for demo, e.g. . or bep44> [props to run, default all]
# Confirms a seeded mutation in a scratch worktree (demo passes without, suite passes with, demo fails with)
# and runs the static checks against the mutated scratch tree (never against /repo).
export GOFLAGS=-mod=mod GOPROXY=off GOSUMDB=off GOTOOLCHAIN=local GOWORK=off
src=$1; pkg=$2; shift 2
wt=/tmp/confirm_$$
git -C /repo worktree add -q --detach $wt HEAD || exit 3
trap 'git -C /repo worktree remove --force $wt >/dev/null 2>&1' EXIT
cp $src/verif_demo_test.go $wt/$pkg/ || exit 3
cd $wt
echo "== demo WITHOUT patch (expect pass)"
( cd $pkg && timeout 300 go test -vet=off -count=1 -run 'VerifDemo|Verif|Demo' . 2>&1 | tail -5 ); r0=${PIPESTATUS[0]}
( cd $wt/$pkg && timeout 300 go test -vet=off -count=1 -run 'VerifDemo|Verif|Demo' . >/dev/null 2>&1 ); r0=$?
git apply $src/patch.diff || { echo "PATCH DOES NOT APPLY"; exit 3; }
echo "== build + suite WITH patch (expect pass)"
go build ./... 2>&1 | tail -3
rm $wt/$pkg/verif_demo_test.go
go test -vet=off -count=1 ./... 2>&1 | grep -v "no test files" | tail -12; r1=${PIPESTATUS[0]}
go test -vet=off -count=1 ./... >/dev/null 2>&1; r1=$?
cp $src/verif_demo_test.go $wt/$pkg/
echo "== demo WITH patch (expect fail)"
( cd $wt/$pkg && timeout 300 go test -vet=off -count=1 -run 'VerifDemo|Verif|Demo' . 2>&1 | tail -8 )
( cd $wt/$pkg && timeout 300 go test -vet=off -count=1 -run 'VerifDemo|Verif|Demo' . >/dev/null 2>&1 ); r2=$?
rm $wt/$pkg/verif_demo_test.go
echo "CONFIRM demo_without=$r0 suite_with=$r1 demo_with=$r2  (want 0 0 nonzero)"
echo "== static checks on the mutated tree"
props="$@"
if [ -z "$props" ]; then props=$(/verif/bin/dhtlint -gen-manifest | python3 -c "import json,sys; print(' '.join(c['property_id'] for c in json.load(sys.stdin)['checks']))"); fi
for p in $props; do ( /verif/bin/dhtlint -repo $wt -property $p -tier quick -no-evidence > /tmp/confirm_$$.$p.txt 2>&1 ) & done; wait
for p in $props; do grep -E "^(VIOLATION|BROKEN)|^C[0-9][0-9] (PASS|VIOLATED|BROKEN)" /tmp/confirm_$$.$p.txt | grep -v " PASS " | cut -c1-500; rm -f /tmp/confirm_$$.$p.txt; done
echo "== done"
