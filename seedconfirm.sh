#!/bin/bash
# usage: seedconfirm.sh <srcdir with patch.diff + verif_demo*_test.go> <pkgdir for demo, e.g. . or bep44> [props to run, default all]
# Confirms a seeded mutation in a scratch worktree (demo passes without, suite passes with, demo fails with)
# and runs the static checks against the mutated scratch tree (never against /repo).
# SKIP_CONFIRM=1: only run the static checks on the mutated scratch tree.
export GOFLAGS=-mod=mod GOPROXY=off GOSUMDB=off GOTOOLCHAIN=local GOWORK=off
src=$1; pkg=$2; shift 2
wt=/tmp/confirm_$$
git -C /repo worktree add -q --detach $wt HEAD || exit 3
trap 'git -C /repo worktree remove --force $wt >/dev/null 2>&1; rm -f /tmp/confirm_$$.*' EXIT
cd $wt
demo(){ ( cd $wt/$pkg && timeout 300 go test -vet=off -count=1 -run 'VerifDemo|Verif|Demo|C[0-9]+M[0-9]|TestC[0-9]+' . > /tmp/confirm_$$.demo 2>&1; echo $? > /tmp/confirm_$$.rc ); tail -${1:-6} /tmp/confirm_$$.demo; }
if [ -z "$SKIP_CONFIRM" ]; then
  cp $src/verif_demo_test.go $wt/$pkg/ || exit 3
  echo "== demo WITHOUT patch (expect pass)"; demo 4; r0=$(cat /tmp/confirm_$$.rc)
  rm $wt/$pkg/verif_demo_test.go
fi
git apply $src/patch.diff || { echo "PATCH DOES NOT APPLY"; exit 3; }
if [ -z "$SKIP_CONFIRM" ]; then
  echo "== build + suite WITH patch (expect pass)"
  go build ./... 2>&1 | tail -3
  go test -vet=off -count=1 ./... > /tmp/confirm_$$.suite 2>&1; r1=$?
  # TestRateLimiterInadequate (timer race in x/time/rate, no library code) flakes under machine load: retry
  for try in 2 3; do [ $r1 -eq 0 ] && break; grep -q "FAIL: TestRateLimiterInadequate" /tmp/confirm_$$.suite || break; echo "(suite retry $try: TestRateLimiterInadequate flaked)"; go test -vet=off -count=1 ./... > /tmp/confirm_$$.suite 2>&1; r1=$?; done
  grep -v "no test files" /tmp/confirm_$$.suite | tail -12
  cp $src/verif_demo_test.go $wt/$pkg/
  echo "== demo WITH patch (expect fail)"; demo 10; r2=$(cat /tmp/confirm_$$.rc)
  rm $wt/$pkg/verif_demo_test.go
  echo "CONFIRM demo_without=$r0 suite_with=$r1 demo_with=$r2  (want 0 0 nonzero)"
fi
echo "== static checks on the mutated tree"
props="$@"
if [ -z "$props" ]; then props=$(${DHTLINT:-/verif/bin/dhtlint} -gen-manifest | python3 -c "import json,sys; print(' '.join(c['property_id'] for c in json.load(sys.stdin)['checks']))"); fi
for p in $props; do ( ${DHTLINT:-/verif/bin/dhtlint} -repo $wt -property $p -tier quick -no-evidence > /tmp/confirm_$$.$p.txt 2>&1; echo "exit=$?" >> /tmp/confirm_$$.$p.txt ) & done; wait
for p in $props; do grep -E "^(VIOLATION|BROKEN)|^C[0-9][0-9] (PASS|VIOLATED|BROKEN)" /tmp/confirm_$$.$p.txt | grep -v " PASS " | cut -c1-500; done
echo "== done"
