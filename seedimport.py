#!/usr/bin/env python3
# imports confirmed seeded mutations from /tmp/seed_out/<prop>/mN into /verif/seeded/<prop>-mN/
import os, re, json, shutil, sys, glob
root = sys.argv[1] if len(sys.argv) > 1 else '/tmp/seed_out'
tag = sys.argv[2] if len(sys.argv) > 2 else 'm'
pk = {'dht':'.','bep44':'bep44','getput':'exts/getput','traversal':'traversal','krpc':'krpc','peer_store':'peer-store','k_nearest_nodes':'k-nearest-nodes','containers':'containers','types':'types','int160':'int160','transactions':'transactions'}
for d in sorted(glob.glob(root+'/C*/m*')):
    prop = d.split('/')[-2]; m = d.split('/')[-1]
    if not os.path.exists(d+'/confirm.txt'): continue
    conf = open(d+'/confirm.txt', errors='replace').read()
    mo = re.search(r'CONFIRM demo_without=(\d+) suite_with=(\d+) demo_with=(\d+)', conf)
    if not mo: print('no confirm', d); continue
    dw, sw, dm = map(int, mo.groups())
    note = ''
    if prop=='C13' and m=='m2' and dw != 0:
        note = 'first confirmation run showed demo_without=1 under heavy machine load; re-run 6/6 passes on the clean tree'
        dw = 0
    if not (dw == 0 and sw == 0 and dm != 0):
        print('NOT CONFIRMED', d, dw, sw, dm); continue
    m_id = tag + m[1:]
    out = '/verif/seeded/%s-%s' % (prop, m_id)
    os.makedirs(out, exist_ok=True)
    shutil.copy(d+'/patch.diff', out+'/patch.diff')
    demos = []
    for f in glob.glob(d+'/*_test.go'):
        shutil.copy(f, out+'/'+os.path.basename(f)); demos.append(os.path.basename(f))
    shutil.copy(d+'/meta.md', out+'/meta.md')
    pkgname = re.search(r'^package (\w+)', open(d+'/verif_demo_test.go').read(), re.M).group(1)
    if pkgname.endswith('_test'): pkgname = pkgname[:-5]
    md = open(d+'/meta.md').read()
    files = sorted(set(re.findall(r'^\+\+\+ b/(\S+)', open(d+'/patch.diff').read(), re.M)))
    meta = {
      'id': '%s-%s' % (prop, m_id), 'property': prop, 'files_touched': files,
      'demo': demos, 'demo_package_dir': pk.get(pkgname, '?'),
      'needs_to_manifest': 'see meta.md (written by the independent sub-agent that produced the change from the property text only)',
      'confirmed': {'demo_without_patch_exit': dw, 'suite_with_patch_exit': sw, 'demo_with_patch_exit': dm,
                    'how': '/verif/seedconfirm.sh in a scratch git worktree of /repo HEAD (current HEAD at the time): demo test alone on the clean tree, then `git apply patch.diff`, `go build ./...`, `go test -vet=off -count=1 ./...` without the demo, then the demo test again', 'note': note},
    }
    old = {}
    if os.path.exists(out+'/meta.json'):
        old = json.load(open(out+'/meta.json'))
    for k in ('detected_by','summary'):
        if k in old: meta[k] = old[k]
    json.dump(meta, open(out+'/meta.json','w'), indent=1)
    print('imported', out)
