#!/bin/bash
# usage: seedprobe.sh <seeded id | path to patch> <props...> : apply to scratch worktree, run the properties, print verdict lines
export GOFLAGS=-mod=mod GOPROXY=off GOSUMDB=off GOTOOLCHAIN=local GOWORK=off
id=$1; shift
patch=$id; [ -f /verif/seeded/$id/patch.diff ] && patch=/verif/seeded/$id/patch.diff
wt=/tmp/sp_$$; git -C /repo worktree add -q --detach $wt HEAD || exit 3
trap 'git -C /repo worktree remove --force $wt >/dev/null 2>&1' EXIT
( cd $wt && git apply $patch ) || { echo "PATCH FAILS"; exit 3; }
( cd $wt && go build ./... ) || { echo "BUILD FAILS"; exit 3; }
for p in "$@"; do ( ${DHTLINT:-/verif/bin/dhtlint} -repo $wt -property $p -tier quick -no-evidence 2>&1 | grep -E "^(VIOLATION|BROKEN)|^C[0-9][0-9] " | sed -e "s#replay=[^ ]* ##" | cut -c1-${W:-330} ) & done; wait
