#!/bin/sh
# validates MANIFEST.json and evidence/*.json against the schemas
python3-vt - <<'PY'
import json,jsonschema,glob,sys
m=json.load(open('/verif/MANIFEST.json')); s=json.load(open('/root/.vp/MANIFEST.schema.json')); jsonschema.validate(m,s)
print('manifest ok: %d checks, %d n/a'%(len(m['checks']),len(m.get('not_applicable',[]))))
es=json.load(open('/root/.vp/EVIDENCE.schema.json'))
for f in sorted(glob.glob('/verif/evidence/C*.json')):
    jsonschema.validate(json.load(open(f)),es); print('ok',f)
PY
