#!/bin/bash
# usage: seedcheck.sh [id ...]   (default: every /verif/seeded/*)
# For each seeded mutation: scratch worktree of /repo HEAD + patch, run every registered property's quick
# check against it (-repo <scratch>, no evidence written), record which rules fire in detection.txt / meta.json.
export GOFLAGS=-mod=mod GOPROXY=off GOSUMDB=off GOTOOLCHAIN=local GOWORK=off
ids="$@"; [ -z "$ids" ] && ids=$(ls /verif/seeded)
props=$(${DHTLINT:-/verif/bin/dhtlint} -gen-manifest | python3 -c "import json,sys; print(' '.join(c['property_id'] for c in json.load(sys.stdin)['checks']))")
one(){
  id=$1; d=/verif/seeded/$id; wt=/tmp/sc_$id
  git -C /repo worktree add -q --detach $wt HEAD || return
  ( cd $wt && git apply $d/patch.diff ) || { echo "$id PATCH FAILS"; git -C /repo worktree remove --force $wt; return; }
  : > $d/detection.txt
  plist="$props"
  # OWN_ONLY=1: run only the mutant's own property (fast re-validation after rule changes)
  if [ -n "$OWN_ONLY" ]; then plist=$(python3 -c "import json;print(json.load(open('$d/meta.json'))['property'])"); fi
  for p in $plist; do
    ${DHTLINT:-/verif/bin/dhtlint} -repo $wt -property $p -tier quick -no-evidence > /tmp/sc_$id.$p.txt 2>&1; rc=$?
    grep -E "^(VIOLATION|BROKEN)" /tmp/sc_$id.$p.txt | sed -e "s#replay=[^ ]* ##" | cut -c1-400 >> $d/detection.txt
    echo "$p exit=$rc" >> $d/detection.txt
    rm -f /tmp/sc_$id.$p.txt
  done
  git -C /repo worktree remove --force $wt
  python3 - $id <<'PY'
import json,sys,re
id=sys.argv[1]; d='/verif/seeded/'+id
m=json.load(open(d+'/meta.json'))
det=[]; exits={}
for l in open(d+'/detection.txt', errors='replace'):
    mo=re.match(r'VIOLATION property=(C\d+) rule=(\S+) function=(\S+) construct="(.*?)" at',l)
    if mo: det.append('%s %s %s: %s'%(mo.group(1),mo.group(2),mo.group(3),mo.group(4)))
    mo=re.match(r'(C\d+) exit=(\d+)',l)
    if mo: exits[mo.group(1)]=int(mo.group(2))
m['detected_by']=sorted(set(det))
m['own_property_check_exit']=exits.get(m['property'])
m['checks_with_nonzero_exit']=sorted(k for k,v in exits.items() if v!=0)
json.dump(m,open(d+'/meta.json','w'),indent=1)
own='-' if m['own_property_check_exit'] is None else m['own_property_check_exit']
print(id,'own=%s'%own,'nonzero=%s'%','.join(m['checks_with_nonzero_exit']))
PY
}
export -f one; export props OWN_ONLY
echo $ids | tr ' ' '\n' | xargs -P 6 -I{} bash -c 'one {}'
